"""C01 — eager(): synchronous prefix, then exactly the outcome of a plain Task."""
from __future__ import annotations

from . import c01_check as K

PROP = "C01"
LEAN_TARGETS = ["Asynkit.Props.C01", "Asynkit.Lemmas.GenEqC01", "Asynkit.Lemmas.GenEqC01W", "Asynkit.Lemmas.GenEqAbcStd", "Asynkit.Lemmas.GenEqContextlib"]
PROPS_FILES = ["Asynkit/Props/C01.lean", "Asynkit/Lemmas/GenEqC01.lean", "Asynkit/Lemmas/GenEqC01W.lean", "Asynkit/Lemmas/GenEqAbcStd.lean", "Asynkit/Lemmas/GenEqContextlib.lean"]
DRIVERS = ["Eager"]
THEOREM = "Asynkit.C01.eager_equiv_task"
TRUSTED = [
    'Lean 4.33 kernel; axioms ⊆ {propext, Classical.choice, Quot.sound} (audited per theorem each run)',
    'translated, not trusted: CoroStart (_start, done, result, as_future, close, throw, __await__ segment by '
    'segment), _Continuation.send/throw, coro_eager, func_eager, eager, eager_ctx and tools.cancelling are '
    're-translated from the source on every run (translator/corostart2lean.py -> Gen/CoroStart.lean) and proved '
    "equal to the model's eagerRun / contResume / cancelling transitions (Lemmas/GenEqC01.lean, 15 theorems) and "
    "to the protocol model's CoroStart (Lemmas/GenEqC01W.lean, 15 theorems)",
    "translated, not trusted (stdlib): the only collections.abc mixin an asynkit class inherits, Coroutine.close for "
    "_Continuation, is re-translated from _collections_abc.py of the running interpreter on every run (path, sha256 "
    "and version recorded in Gen/CollectionsAbc.lean; translator/collectionsabc2lean.py also recomputes WHICH mixins are "
    "inherited from asynkit's sources) and proved to be the models' close rule (Lemmas/GenEqAbcStd.lean, 4 theorems)",
    'hand-written and tied only by the snapshot-by-snapshot correspondence of this run (lean/Drivers/Eager.lean):'
    ' the asyncio half of Asynkit/Model/EagerKernel.lean (Task, Future, ready queue) and the reading of the '
    "generated code's runtime record `Rt` (coro.send/throw/close, future flags, create_task) as that kernel",
    'MODELLED, NOT VERIFIED: asyncio.Task.__step/__wakeup/cancel, Future state + callbacks + the '
    '_asyncio_future_blocking handshake, C FutureIter (`await fut`), CPython coroutine objects — validated by the'
    ' plain-Task stream (modes P/PS) of the same correspondence against the running interpreter (3.12.1)',
    "Asynkit/Model/EagerProg.lean (interpreter of the harness's body language) is used by the driver and the "
    'non-vacuity examples only; theorems quantify over every VBody',
]
ASSUMPTIONS = [
    "bodies do not inspect asyncio.current_task(); they never raise real KeyboardInterrupt/SystemExit "
    "(custom BaseException subclasses are used)",
    "futures are not failed with GeneratorExit/StopIteration; a body yields a Future only through "
    "Future.__await__ (which sets the blocking flag immediately before the yield)",
    "between loop callbacks every future's blocking flag is clear (true of asyncio itself; the "
    "environment may clear flags at any time but never sets one)",
    "reference for schedules: the plain Task whose first step runs at the instant eager() is called; "
    "compared at settled instants (the continuation Task needs one bookkeeping iteration)",
]
RULE = ("random bodies over {log, await future (pending/finished/failed/cancelled/Task-like), sleep(0), bad "
        "yield, nested call, try/except/finally with 7 handler classes, return, raise E1/E2/B1(BaseException)/"
        "CancelledError/RuntimeError} × environment scripts (events before the first loop iteration, then "
        "settled segments) × API variant (eager/coro_eager/func_eager/eager(func)/custom factory); plus programs "
        "of 2-3 coroutines sharing futures, awaiting one another, spawning eager children; plus raw scripts for "
        "the model correspondence.  Non-trivial = the run reached one of the situations in situations_hit "
        "(finished in prefix by return/Exception/BaseException, suspended in prefix, future event or flag clear "
        "before the first step, handler ran, shared future, awaits another coroutine, nested child, non-default "
        "variant).  distinct = hash of the canonical case JSON")


def run(ctx):
    K.run_corpus(ctx, PROP, THEOREM)
    if ctx.thorough():
        n = (20000, 8000, 6000)
    else:
        n = (3000, 1200, 1000)
    K.run_stream(ctx, PROP, THEOREM, False, *n)
    if ctx.thorough():
        K.exhaustive(ctx, PROP, THEOREM, False)


def replay(ctx, data):
    K.replay_case(ctx, PROP, THEOREM, data)
