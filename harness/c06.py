"""C06 — GeneratorObject iterators behave like native async generators."""
from __future__ import annotations

import asyncio
import gc
import inspect
import json
import sys
import types
import warnings

from . import core
from . import monprog as mp

PROP = "C06"
LEAN_TARGETS = ["Asynkit.Props.C06", "Asynkit.Lemmas.GenEqC06"]
PROPS_FILES = ["Asynkit/Props/C06.lean", "Asynkit/Lemmas/GenEqC06.lean"]
DRIVERS = ["AsyncGen"]
TRUSTED = [
    'Lean 4.33 kernel; axioms ⊆ {propext, Classical.choice, Quot.sound} (audited per theorem each run)',
    'translated, not trusted: GeneratorObject.ayield and '
    'GeneratorObjectIterator._first_iter/__del__/__anext__/asend/athrow/aclose/_athrow are re-translated from '
    'monitor.py on every run, entry and resumption segments (translator/monitor2lean.py -> Gen/Monitor.lean), and'
    ' proved equal to the goiStart/goiResume/hook transitions of Asynkit/Model/AsyncGen.lean '
    '(Lemmas/GenEqC06.lean, 22 theorems, over GenEqC07)',
    'hand-written: the runtime vocabulary Model/MonitorRt.lean (except-clause tests, coro.send/throw/close of the'
    ' driven coroutine, the asyncgen-hooks environment); the op-by-op correspondence of this run '
    '(lean/Drivers/AsyncGen.lean) still runs model and code side by side',
    '`nativeAG` = reference model of CPython 3.12 async generators (genobject.c async_gen_asend/athrow, '
    'ag_running_async, ag_closed, PEP 479/525): modelled, not verified; validated against the interpreter by its '
    'own correspondence stream in this run',
    'the oracle is CPython itself: the native async generator compiled from the same AST',
    'asyncio Task stepping is outside the model; Task-driven runs are compared native-vs-GOI and against the raw '
    'run',
    "asyncgen hooks: CPython's async_gen_init_hooks/_PyGen_Finalize are modelled (nativeHookCall/nativeHookGC), "
    'validated by the hook stream of this run',
]
ASSUMPTIONS = [
    "StopIteration/StopAsyncIteration are not thrown in (excluded by the property)",
    "comparison stops at the first 'ignored GeneratorExit' error (as the property says)",
    "a suspended consumer is resumed by send/throw of a non-GeneratorExit exception; closing a suspended "
    "consumer awaitable is not a consumer call of the property (CPython 3.12 leaves ag_running set there)",
    "objects are kept alive until logs are snapshotted; finalizer hooks never run during a comparison",
    "nested coroutine frames do not suspend or swallow while a GeneratorExit is delivered (PEP 380 closes nested "
    "frames with close(); identical for both kinds only when the frame structure is identical)",
]
RULE = ("case = (generator body over {yield v, await token, log, raise, return, try/except/finally incl. GeneratorExit/"
        "CancelledError handlers, nested coroutine calls — with ayield inside them for the GeneratorObject variant}, consumer "
        "script over {anext, asend v, athrow E, aclose} with send/throw responses to real suspensions and a second consumer "
        "issued while the first is suspended); both kinds are generated from one AST; non-trivial = the run itself hit a "
        "tagged situation (value sent in, throw landing in a handler, aclose with finally, yield while handling "
        "GeneratorExit, exhausted/failed generator reused, second consumer while running, non-None first send, PEP 479, "
        "ayield from a nested call, sync iteration hitting a suspension); distinct = hash of canonical case text")

warnings.simplefilter("ignore")
sys.unraisablehook = lambda *a: None

VALS = [0, 1, 2, 3]
THROWN = ["E1", "E2", "GE", "CE", "BE", "RT", "FE"]


# ---------------------------------------------------------------------------------------
# generation


def gen_block(rng, depth, budget, in_call=False, nosusp=False, deep=False):
    out = []
    n = rng.randint(1, 4 if depth else 6)
    for _ in range(n):
        if budget[0] <= 0:
            break
        budget[0] -= 1
        r = rng.random()
        if nosusp:
            out.append(("L", rng.randint(1, 9)))
            continue
        if r < 0.30:
            if in_call and not deep:
                out.append(("S", rng.randint(100, 199)))
            else:
                out.append(("Y", rng.randint(10, 99)))
        elif r < 0.45:
            out.append(("S", rng.randint(100, 199)))
        elif r < 0.56:
            out.append(("L", rng.randint(1, 9)))
        elif r < 0.64:
            excs = ["E1", "E2", "RT", "BE", "CE", "GE", "SAI"] + ([] if (in_call and deep) else ["SI"])
            out.append(("R", rng.choice(excs)))
        elif r < 0.70:
            if not (in_call and deep):
                out.append(("T", 0 if not in_call else rng.choice(VALS)))
        elif r < 0.90 and depth < 3:
            body = gen_block(rng, depth + 1, budget, in_call, nosusp, deep)
            hs = []
            for _ in range(rng.choice([0, 1, 1, 2])):
                cls = rng.choice(["GE", "CE", "E1", "E2", "RT", "SAI", "EXC", "BASE", "GE"])
                ns = nosusp or (in_call and cls in ("GE", "BASE"))
                hb = gen_block(rng, depth + 1, budget, in_call, ns, deep) if rng.random() < 0.8 else []
                if in_call and cls in ("GE", "BASE"):
                    hb = hb + [("R", "GE")]
                hs.append((cls, hb))
            fin = gen_block(rng, depth + 1, budget, in_call, nosusp or in_call, deep) if rng.random() < 0.5 else []
            out.append(("TRY", body, hs, fin))
        elif depth < 3:
            out.append(("CALL", gen_block(rng, depth + 1, budget, True, nosusp, deep)))
        else:
            out.append(("L", rng.randint(1, 9)))
    return out


def gen_script(rng):
    script = []
    if rng.random() < 0.8:
        script.append(("call", ("as", 0)))
    for _ in range(rng.randint(2, 10)):
        r = rng.random()
        if r < 0.40:
            script.append(("call", ("as", 0 if rng.random() < 0.6 else rng.choice(VALS))))
        elif r < 0.52:
            if rng.random() < 0.6:
                script.append(("call", ("at", rng.choice(THROWN), rng.choice(mp.ATHROW_FORMS))))
            else:
                script.append(("call", ("at", rng.choice(THROWN))))
        elif r < 0.60:
            script.append(("call", ("ac",)))
        elif r < 0.85:
            script.append(("send", rng.choice(VALS)))
        else:
            # KeyboardInterrupt / SystemExit: thrown by the raw drive only (a Task re-raises them out of the loop)
            script.append(("throw", rng.choice(["E1", "E2", "CE", "BE", "RT", "FE", "KI", "SE"])))
    return script


def gen_subgen(rng):
    """a body that iterates a second GeneratorObject iterator whose body yields to the outer consumer from
    that depth (`Y`), hands items to the loop (`Y2`) and really suspends"""
    inner = []
    for _ in range(rng.randint(2, 6)):
        r = rng.random()
        if r < 0.40:
            inner.append(("Y", rng.randint(10, 99)))
        elif r < 0.65:
            inner.append(("Y2", rng.randint(10, 99)))
        elif r < 0.80:
            inner.append(("S", rng.randint(100, 199)))
        else:
            inner.append(("L", rng.randint(1, 6)))
    if not any(t[0] == "Y" for t in inner):
        inner.insert(rng.randint(0, len(inner)), ("Y", rng.randint(10, 99)))
    return ("SUBGEN", inner)


def gen_case(rng):
    if rng.random() < 0.06:
        pre = [("L", 1)] + ([("Y", rng.randint(10, 99))] if rng.random() < 0.5 else [])
        sg = gen_subgen(rng)
        body = [sg] if rng.random() < 0.6 else [("TRY", [sg], [(rng.choice(["E1", "E2", "EXC"]), [("L", 2)])], [("L", 3)])]
        post = [("Y", rng.randint(10, 99))] if rng.random() < 0.5 else []
        script = [("call", ("as", 0 if rng.random() < 0.5 else rng.choice(VALS))) if rng.random() < 0.8 else
                  rng.choice([("send", rng.choice(VALS)), ("call", ("at", rng.choice(["E1", "E2"]))), ("call", ("ac",))])
                  for _ in range(rng.randint(3, 9))]
        script[0] = ("call", ("as", 0))
        return {"prog": pre + body + post, "script": script, "second": False, "anext": rng.random() < 0.5}
    deep = rng.random() < 0.25
    prog = gen_block(rng, 0, [rng.randint(4, 14)], deep=deep)
    return {"prog": prog, "script": gen_script(rng), "second": rng.random() < 0.35,
            "anext": rng.random() < 0.5}


# ---------------------------------------------------------------------------------------
# real-code runners


def rt_kind(e):
    if not isinstance(e, RuntimeError):
        return ""
    m = str(e)
    for k in ("already running", "ignored GeneratorExit", "raised StopAsyncIteration", "raised StopIteration",
              "cannot reuse"):
        if k in m:
            return k
    return "other"


def exc_detail(e):
    c = e.__cause__
    return f"{mp.canon_exc(e)}[{rt_kind(e)}]<{type(c).__name__ if c is not None else ''}>"


class Side:
    """one generator object (native or GOI), driven by raw send/throw or from inside a Task"""

    def __init__(self, prog, kind, mode="raw", responses=None):
        import asynkit
        self.kind = kind
        self.log = mp.Log()
        self.keep = []
        self.given = None
        self.last_exc = None
        self.mode = mode
        self.responses = list(responses or [])
        self.pending = None
        tok = self.make_tok()
        if kind == "n":
            fn = mp.compile_body(prog, "native", {})
            self.gen = fn(self.log, tok)
            self.frame = lambda: ("done" if self.gen.ag_frame is None else
                                  "new" if inspect.getasyncgenstate(self.gen) == "AGEN_CREATED" else "susp")
        else:
            fn = mp.compile_body(prog, "goi", {"GeneratorObject": asynkit.GeneratorObject})
            g = asynkit.GeneratorObject()
            self.coro = fn(g, self.log, tok)
            self.gen = g(self.coro)
            self.g = g
            self.frame = lambda: {"CORO_CREATED": "new", "CORO_SUSPENDED": "susp", "CORO_CLOSED": "done",
                                  "CORO_RUNNING": "running"}[inspect.getcoroutinestate(self.coro)]
        self.keep.append(self.gen)

    def make_tok(self):
        if self.mode == "raw":
            @types.coroutine
            def tok(t):
                x = yield t
                return x
        elif self.mode == "task":
            async def tok(t):
                loop = asyncio.get_running_loop()
                fut = loop.create_future()
                kind, v = self.next_response()
                if kind == "send":
                    loop.call_soon(fut.set_result, v)
                else:
                    loop.call_soon(fut.set_exception, mp.mkexc(v))
                return await fut
        else:
            async def tok(t):
                await asyncio.sleep(0)      # any real suspension: await_sync cannot complete it
                return None
        return tok

    def next_response(self):
        if self.responses:
            k, v = self.responses.pop(0)
            return k, (None if (k == "send" and v == 0) else v)
        return "send", None

    def mk(self, op, anext=False):
        k = op[0]
        if k == "as":
            aw = self.gen.__anext__() if (anext and op[1] == 0) else self.gen.asend(None if op[1] == 0 else op[1])
        elif k == "at" and len(op) > 2:
            tb = mp.make_tb()
            args, inst, cls, eargs = mp.athrow_args(op, tb)
            self.given = {"inst": inst, "cls": cls, "args": eargs, "tb": tb if op[2].endswith("+t") else None}
            aw = self.gen.athrow(*args)
            self.keep += [args, tb]
        elif k == "at":
            aw = self.gen.athrow(mp.mkexc(op[1]))
        else:
            aw = self.gen.aclose()
        self.keep.append(aw)
        return aw

    def snapshot(self, out, detail):
        line = f"{out} ; {1 if self.gen.ag_running else 0} ; {self.frame()} {','.join(self.log)}"
        st = f" ; st={self.g.monitor.state}" if self.kind == "g" else ""
        return line + st, detail + line[len(out):]

    def advance(self, thunk):
        try:
            y = thunk()
        except StopIteration as e:
            out = det = f"ret {mp.cv(e.value)}"
        except BaseException as e:  # noqa: BLE001
            self.last_exc = e
            out = f"exc {mp.canon_exc(e)}"
            det = f"exc {exc_detail(e)}"
        else:
            out = det = f"pend {mp.cv(y)}"
            return out, det, True
        return out, det, False

    def describe(self, e):
        """identity / type / args / traceback of an exception relative to what athrow() was given"""
        g = self.given
        if isinstance(e, GeneratorExit):
            return "GeneratorExit"         # delivered by close() to nested frames: only the type counts
        same = "" if g["inst"] is None else (":given" if e is g["inst"] else ":other-object")
        tb = "" if g["tb"] is None else (":tb" if mp.tb_contains(e, g["tb"]) else ":no-tb")
        return f"{type(e).__name__}{e.args!r}{same}{tb}"

    def call(self, op, anext=False):
        self.given = None
        self.last_exc = None
        n0 = len(self.log.caught)

        def first():
            # a native generator runs its hooks when the method is called, a coroutine method when first sent to
            aw = self.mk(op, anext)
            self._aw = aw
            return aw.send(None)
        self._aw = None
        out, det, pend = self.advance(first)
        aw = self._aw
        if pend:
            self.pending = aw
            self.pending_op = op[0]
        line, detail = self.snapshot(out, det)
        if self.given is not None and self.given["cls"] is not GeneratorExit:
            # (GeneratorExit reaches nested frames through close() and is re-raised by PEP 380: identity is not
            # a property of either kind)
            # what the body's first `except` clause received, and what came out of athrow()
            first = self.log.caught[n0] if len(self.log.caught) > n0 else None
            detail += " ; thrown=" + (self.describe(first) if first is not None else "-")
            le = self.last_exc     # only an exception of the thrown class can be the thrown one coming back out
            mine = le is not None and (le is self.given["inst"] or (
                first is None and type(le) is self.given["cls"]
                and not isinstance(le.__cause__, (StopIteration, StopAsyncIteration))))
            detail += " out=" + (self.describe(le) if mine else "-")
        return line, detail

    def resume(self, kind, arg):
        aw = self.pending
        if kind == "send":
            out, det, pend = self.advance(lambda: aw.send(None if arg == 0 else arg))
        else:
            out, det, pend = self.advance(lambda: aw.throw(mp.mkexc(arg)))
        if not pend:
            self.pending = None
        return self.snapshot(out, det)


def op_line(a):
    if a[0] == "call":
        return "call " + mp.op_tokens(a[1])
    return " ".join(str(x) for x in a)


def run_raw(case):
    """Drive the native generator with the script (it decides which actions apply), then the
    GOI with exactly the same executed lines."""
    nat = Side(case["prog"], "n")
    lines, nouts, ndets, acts = [], [], [], []
    post = 0
    for a in case["script"]:
        if a[0] == "call":
            if nat.pending is not None and not case.get("second"):
                a = ("send", 0)
            else:
                if nat.frame() == "done":
                    post += 1
                    if post > 2:
                        break
                lines.append(op_line(a))
                acts.append(a)
                o, d = nat.call(a[1], case.get("anext"))
                nouts.append(o)
                ndets.append(d)
                if "ignored GeneratorExit" in d:
                    break
                continue
        if nat.pending is None:
            continue
        if a[0] == "throw" and nat.pending_op == "ac":
            # CPython 3.12.1 quirk (async_gen_athrow_throw, aclose mode): an exception coming out of a
            # throw() into a suspended aclose() leaves ag_running set for ever.  Not a consumer call of the
            # property; not generated.
            a = ("send", 0)
        lines.append(op_line(a))
        acts.append(a)
        o, d = nat.resume(a[0], a[1])
        nouts.append(o)
        ndets.append(d)
        if "ignored GeneratorExit" in d:
            break
    goi = Side(case["prog"], "g")
    gouts, gdets = [], []
    for a in acts:
        if a[0] == "call":
            o, d = goi.call(a[1], case.get("anext"))
        elif goi.pending is None:
            o, d = "no-pending-consumer", "no-pending-consumer"
        else:
            o, d = goi.resume(a[0], a[1])
        gouts.append(o)
        gdets.append(d)
    nat.acts = acts
    return lines, nouts, ndets, gouts, gdets, nat, goi


def run_task(case, lines, acts):
    """Both kinds driven from inside a Task: consumer calls awaited one after the other; real
    suspensions are futures completed by the loop with the recorded responses."""
    responses = []
    for ln in lines:
        t = ln.split()
        if t[0] == "send":
            responses.append(("send", int(t[1])))
        elif t[0] == "throw":
            responses.append(("throw", t[1]))
    calls = [a[1] for a in acts if a[0] == "call"]
    res = {}
    for kind in ("n", "g"):
        side = Side(case["prog"], kind, "task", responses)
        outs = []

        async def one(op):
            aw = side.mk(op, case.get("anext"))
            try:
                r = await aw
            except BaseException as e:  # noqa: BLE001
                return f"exc {exc_detail(e)}"
            return f"ret {mp.cv(r)}"

        async def main():
            for op in calls:
                out = await asyncio.get_running_loop().create_task(one(op))
                outs.append(side.snapshot(out, out)[1].split(" ; st=")[0])
                if "ignored GeneratorExit" in out:
                    break
        loop = asyncio.new_event_loop()
        try:
            loop.run_until_complete(main())
            side_keep.append(side)
        finally:
            loop.close()
        res[kind] = outs
    return res


side_keep: list = []


def run_sync(case, k):
    """list(aiter_sync(gen)) on both kinds, up to k items"""
    import asynkit
    res = {}
    for kind in ("n", "g"):
        side = Side(case["prog"], kind, "sync")
        vals, fin = [], "end"
        it = asynkit.aiter_sync(side.gen)
        side.keep.append(it)
        try:
            for v in it:
                vals.append(mp.cv(v))
                if len(vals) >= k:
                    fin = "more"
                    break
        except BaseException as e:  # noqa: BLE001
            fin = f"exc {mp.canon_exc(e)}"
            if type(e).__name__ == "SynchronousError":
                fin = "exc RuntimeError"
        res[kind] = (f"vals {','.join(map(str, vals))} ; {fin}", side.frame(), ",".join(side.log), side,
                     bool(side.gen.ag_running))
    return res


# ---------------------------------------------------------------------------------------


def strip_st(s):
    return s.split(" ; st=")[0]


def judge(case):
    lines, nouts, ndets, gouts, gdets, nat, goi = run_raw(case)
    tags = set()
    bad = None
    for i, (ln, nd, gd) in enumerate(zip(lines, ndets, gdets)):
        if strip_st(gd) != nd:
            bad = ("raw", i, nd, strip_st(gd))
            break
    # situations, detected from the native run
    for i, (ln, nd) in enumerate(zip(lines, ndets)):
        t = ln.split()
        if "already running" in nd:
            tags.add("second-consumer-while-running")
        if "ignored GeneratorExit" in nd:
            tags.add("ignored-GeneratorExit")
        if "raised Stop" in nd:
            tags.add("pep479")
        if nd.startswith("exc TypeError"):
            tags.add("non-None-first-send")
        if nd.startswith("exc StopAsyncIteration"):
            tags.add("exhausted-or-finished")
        if t[0] == "call" and t[1] == "as" and t[2] != "0" and nd.startswith(("ret", "pend")):
            tags.add("value-sent-in")
        if t[0] == "call" and t[1] == "at" and nd.startswith(("ret", "pend")):
            tags.add("throw-handled")
        if t[0] == "call" and t[1] == "ac" and nd.startswith("ret"):
            tags.add("aclose-clean")
        if t[0] == "call" and t[1] == "ac" and nd.startswith("pend"):
            tags.add("aclose-awaits-in-cleanup")
        if t[0] == "throw":
            tags.add("throw-into-suspended-consumer")
        if nd.startswith("pend"):
            tags.add("real-suspension")
    for a in nat.acts:
        if a[0] == "call" and a[1][0] == "at" and len(a[1]) > 2:
            tags.add("athrow-form-" + a[1][2])
    if any("hGeneratorExit" in nd for nd in ndets):
        tags.add("GeneratorExit-handler-ran")
    if mp.has_yield([s for s in case["prog"] if s[0] == "CALL"]) or _deep_yield(case["prog"]):
        tags.add("ayield-from-nested-call")
    if mp.has_subgen(case["prog"]):
        tags.add("ayield-to-outer-generator-from-inner-generator")
    # Task driving (only meaningful when no second consumer was issued while one was suspended)
    second = any(o.startswith("pend") and i + 1 < len(lines) and lines[i + 1].startswith("call")
                 for i, o in enumerate(nouts))
    last_pending = bool(nouts) and nouts[-1].startswith("pend")
    interrupts = any(ln in ("throw KI", "throw SE") for ln in lines)
    if interrupts:
        tags.add("KeyboardInterrupt/SystemExit-into-suspended-consumer")
    if bad is None and lines and not second and not last_pending and not interrupts:
        res = run_task(case, lines, nat.acts)
        tags.add("driven-by-task")
        if res["n"] != res["g"]:
            bad = ("task", 0, res["n"], res["g"])
        else:
            want = [d.split(" ; thrown=")[0] for d in ndets if not d.startswith("pend")]
            if res["n"] != want:
                # native-in-Task vs native-raw: a harness/model matter, not asynkit's
                bad = ("task-vs-raw", 0, want, res["n"])
    if bad is None:
        rs = run_sync(case, 6)
        n, g = rs["n"], rs["g"]
        if n[0].endswith("exc RuntimeError"):
            tags.add("sync-iteration-hits-suspension")
        else:
            tags.add("sync-iteration")
        # after a SynchronousError the abandoned consumer is closed (GeneratorExit path): logs not compared
        cmp_n = n[:1] if n[0].endswith("exc RuntimeError") else n[:3]
        cmp_g = g[:1] if n[0].endswith("exc RuntimeError") else g[:3]
        abort_ignored = n[0].endswith("exc RuntimeError") and n[4]
        if abort_ignored:
            # the body survived SynchronousAbort by suspending again; await_sync then close()s the abandoned
            # consumer, which CPython 3.12 does not propagate to a native generator: outside the property
            tags.add("sync-abort-ignored")
        elif cmp_n != cmp_g:
            bad = ("sync", 0, list(cmp_n), list(cmp_g))
        sync_line = None if abort_ignored else n[0] if n[0].endswith("exc RuntimeError") else f"{n[0]} ; {n[1]} {n[2]}"
    else:
        sync_line = None
    return {"lines": lines, "nouts": nouts, "gouts": gouts, "tags": tags, "bad": bad, "sync": sync_line,
            "keep": (nat, goi)}


def _deep_yield(prog):
    for s in prog:
        if s[0] == "CALL" and mp.has_yield(s[1]):
            return True
        if s[0] == "TRY":
            if _deep_yield(s[1]) or _deep_yield(s[3]) or any(_deep_yield(b) for _, b in s[2]):
                return True
    return False


def normalise(case):
    if "hook_prog" in case:
        c2 = normalise({"prog": case["hook_prog"], "script": []})
        return {"hook_prog": c2["prog"], "ops": [tuple(o) for o in case["ops"]], "cfg": list(case["cfg"])}

    def stmt(s):
        s = list(s)
        k = s[0]
        if k == "TRY":
            return ("TRY", [stmt(x) for x in s[1]], [(h[0], [stmt(x) for x in h[1]]) for h in s[2]],
                    [stmt(x) for x in s[3]])
        if k == "CALL":
            return ("CALL", [stmt(x) for x in s[1]])
        if k == "SUBGEN":
            return ("SUBGEN", [tuple(x) for x in s[1]])
        return tuple(s)

    def act(a):
        a = list(a)
        if a[0] == "call":
            return ("call", tuple(a[1]))
        return tuple(a)
    return {"prog": [stmt(s) for s in case["prog"]], "script": [act(a) for a in case["script"]],
            "second": bool(case.get("second")), "anext": bool(case.get("anext"))}


def shrink_case(case, kind):
    def fails(c):
        try:
            b = judge(c)["bad"]
        except Exception:  # noqa: BLE001
            return False
        return b is not None and b[0] == kind
    cur = dict(case)
    sc = core.ddmin(cur["script"], lambda s: fails({**cur, "script": s}))
    if sc and fails({**cur, "script": sc}):
        cur["script"] = sc
    if len(cur["prog"]) >= 2:
        p = core.ddmin(cur["prog"], lambda p: fails({**cur, "prog": p}))
        if fails({**cur, "prog": p}):
            cur["prog"] = p
    return cur


def explore(ctx, cases, label=""):
    all_lines, spans, recs = [], [], []
    for case in cases:
        gc_was = gc.isenabled()
        gc.disable()
        try:
            j = judge(case)
        finally:
            if gc_was:
                gc.enable()
        side_keep.clear()
        mp.KEEP.clear()
        ctx.case(json.dumps(case, sort_keys=True), sorted(j["tags"]))
        bad = j["bad"]
        if bad is not None:
            seen = ctx.extra.setdefault("_shrunk", {})
            seen[bad[0]] = seen.get(bad[0], 0) + 1
            if seen[bad[0]] > 3:      # same comparison failing again: enough shrunk witnesses
                continue
            small = normalise(shrink_case(case, bad[0]))
            b2 = judge(small)["bad"] or bad
            if b2 is bad:
                small = case
            if b2[0] == "task-vs-raw":
                ctx.disagreement(f"{label}native generator driven by a Task differs from raw driving",
                                 small, expected=b2[2], observed=b2[3], theorem="harness: task mode")
            else:
                field = "outcome"
                if isinstance(b2[2], str) and isinstance(b2[3], str):
                    a, b = b2[2].split(" ; "), b2[3].split(" ; ")
                    field = ("outcome" if a[0] != b[0] else "ag_running" if a[1:2] != b[1:2] else
                             "body-log" if a[2:3] != b[2:3] else "athrow-exception")
                ctx.violation(f"goi-vs-native:{b2[0]}:{field}",
                              f"{label}GeneratorObjectIterator and the native async generator of the same body differ "
                              f"({b2[0]} driving, {field})", small, expected={"native": b2[2]}, observed={"goi": b2[3]},
                              theorem="Asynkit.C06.goi_step_eq")
        pre = ["reset", "prog " + mp.tokens(case["prog"]), "mk"]
        body = []
        for ln in j["lines"]:
            body.append("n " + ln)
            body.append("g " + ln)
        if j["sync"] is not None:
            body += ["mk", "n sync 6", "g sync 6"]
        spans.append((len(all_lines) + len(pre), len(body)))
        all_lines.extend(pre + body)
        recs.append((case, j))
    if not ctx.lean_ok or not cases:
        return
    mouts = ctx.lean_driver("AsyncGen", all_lines)
    if len(mouts) != len(all_lines):
        raise core.InfraError(f"driver returned {len(mouts)} lines for {len(all_lines)}")
    reported = 0
    for (start, n), (case, j) in zip(spans, recs):
        mo = mouts[start:start + n]
        real = []
        for no, go in zip(j["nouts"], j["gouts"]):
            real += [no, go]
        names = []
        for ln in j["lines"]:
            names += ["n " + ln, "g " + ln]
        if j["sync"] is not None:
            real += ["ok", j["sync"], None]
            names += ["mk", "n sync 6", "g sync 6"]
        stop = False
        for i, (nm, r, m) in enumerate(zip(names, real, mo)):
            if r is None:
                continue
            if nm.startswith(("n sync", "g sync")) and len(r.split(" ; ")) == 2:
                m = " ; ".join(m.split(" ; ")[:2])
            if r != m:
                if reported < 3:
                    which = "CPython async generator vs nativeAG model" if nm.startswith("n ") else \
                        "GeneratorObjectIterator vs goi model"
                    ctx.disagreement(f"{label}{which}: `{nm}` answered differently",
                                     {**case, "upto": i}, expected=m, observed=r,
                                     theorem="correspondence Drivers/AsyncGen")
                reported += 1
                stop = True
                break
        ctx.traces += 2
        if stop:
            continue


# ---------------------------------------------------------------------------------------
# asyncgen hooks: sys.set_asyncgen_hooks(firstiter, finalizer) x start / abandon / garbage-collect

HOOK_CFGS = [(0, 0, 0), (1, 0, 0), (0, 1, 0), (1, 1, 0), (1, 0, 1), (1, 1, 1)]   # firstiter, finalizer, firstiter raises
HOOK_FIXED = [
    [("L", 1), ("TRY", [("Y", 1), ("Y", 2)], [], [("S", 170), ("L", 2)])],                # awaiting finally
    [("L", 1), ("TRY", [("Y", 1), ("S", 100), ("Y", 2)], [("GE", [("L", 3), ("R", "GE")])], [("L", 2)])],
    [("Y", 1), ("Y", 2)],
    [("TRY", [("Y", 1)], [("GE", [("Y", 9)])], [])],                                       # ignores GeneratorExit
]


def gen_hook_case(rng):
    prog = gen_block(rng, 0, [rng.randint(3, 9)])
    if not mp.has_yield(prog) or rng.random() < 0.3:
        prog = [("L", 1), ("TRY", [("Y", 11)] + prog, [], [("S", 170), ("L", 2)])]   # clean-up that awaits
    ops = []
    r = rng.random()
    if r < 0.15:
        ops.append(("as", rng.choice([1, 2])))            # refused first send: the generator stays unstarted
    for _ in range(rng.choice([0, 1, 1, 2, 3])):
        ops.append(("as", 0))
    r = rng.random()
    if r < 0.15:
        ops.append(("ac",))
    elif r < 0.30:
        ops.append(("at", rng.choice(["E1", "E2", "GE"])))
    return {"hook_prog": prog, "ops": ops, "cfg": list(rng.choice(HOOK_CFGS))}


def run_hook_side(case, kind):
    """Returns (lines, outs, dets, gc_line, cleanup) — or None when a consumer stays suspended (abandoning a
    generator *inside* a consumer is not comparable: CPython 3.12.1 leaves ag_running set, notes/C06.md)."""
    fi_on, fz_on = case["cfg"][:2]
    fi_raises = len(case["cfg"]) > 2 and case["cfg"][2]
    side = Side(case["hook_prog"], kind)
    ev = []
    cleanup = []

    def firstiter(ag):
        ev.append("fi" if ag is side.gen or side.gen is None else "fi!other-object")
        if fi_raises:
            raise mp.HookErr()

    def finalizer(ag):
        ev.append("fz")
        # what an event loop does (asyncio schedules aclose()), synchronously
        aw = ag.aclose()
        seen = []
        try:
            for _ in range(20):
                seen.append(mp.cv(aw.send(None)))
            seen.append("...")
        except StopIteration as e:
            seen.append(f"ret {mp.cv(e.value)}")
        except BaseException as e:  # noqa: BLE001
            seen.append(f"exc {mp.canon_exc(e)}[{rt_kind(e)}]")
        cleanup.append(seen)

    old = sys.get_asyncgen_hooks()
    sys.set_asyncgen_hooks(firstiter=firstiter if fi_on else None, finalizer=finalizer if fz_on else None)
    lines, outs, dets = [], [], []
    try:
        for op in case["ops"]:
            n0 = len(ev)
            o, d = side.call(op)
            hk = " ; hk=" + (",".join(ev[n0:]) or "-")
            lines.append("call " + mp.op_tokens(op))
            outs.append(o + hk)
            dets.append(d + hk)
            k = 0
            while side.pending is not None and k < 8:
                o, d = side.resume("send", 0)
                lines.append("send 0")
                outs.append(o)
                dets.append(d)
                k += 1
            if side.pending is not None:
                return None
            if "ignored GeneratorExit" in d:
                # the comparison stops here (ag_closed is set on a still suspended native generator)
                return lines, outs, dets, None, None
        log_before = list(side.log)
        n0 = len(ev)
        log = side.log
        side.keep.clear()
        side.pending = None
        side._aw = None
        side.last_exc = None          # a caught exception's traceback keeps the awaitable and the generator alive
        side.given = None
        side.frame = None
        if kind == "g":
            side.coro = None
            side.g = None
        side.gen = None
        gc.collect()
        gc_line = "hk=" + (",".join(ev[n0:]) or "-")
        after = list(log)[len(log_before):]
        if any("ignored GeneratorExit" in str(x) for c in cleanup for x in c):
            after = "(not compared after an ignored GeneratorExit)"
        elif "fz" not in gc_line:
            # no finalizer hook took the generator: whatever clean-up happens is the interpreter closing
            # the object at deallocation.  A body that yields while being closed that way is told so in
            # different places by design (the native generator's close() raises outside the body, an
            # ayield() during closing raises RuntimeError inside it), and the error is unraisable anyway.
            after = "(not compared: closed by the garbage collector, no finalizer hook)"
        return lines, outs, dets, gc_line, {"aclose": cleanup, "log_after_gc": after}
    finally:
        sys.set_asyncgen_hooks(*old)


def hk_kind(nh, gh):
    if ("fz" in nh) != ("fz" in gh):
        return "finalizer-missing" if "fz" in nh else "finalizer-extra"
    return "firstiter-missing" if nh.count("fi") > gh.count("fi") else "firstiter-extra"


def explore_hooks(ctx, cases, label=""):
    all_lines, spans, recs = [], [], []
    for case in cases:
        n = run_hook_side(case, "n")
        g = run_hook_side(case, "g")
        tags = {"hooks-" + {(0, 0): "none", (1, 0): "firstiter-only", (0, 1): "finalizer-only", (1, 1): "both"}[tuple(case["cfg"][:2])]}
        if len(case["cfg"]) > 2 and case["cfg"][2]:
            tags.add("hooks-firstiter-raises")
        if n is None or g is None:
            ctx.case(json.dumps(case, sort_keys=True), ["hooks-abandoned-inside-consumer-skipped"])
            continue
        if n[3] is None:
            tags.add("hooks-stopped-at-ignored-GeneratorExit")
        elif "fz" in n[3]:
            tags.add("hooks-finalizer-called-at-gc")
            if n[4]["log_after_gc"]:
                tags.add("hooks-cleanup-ran-through-finalizer")
        if any("hk=fi" in o for o in n[1]):
            tags.add("hooks-firstiter-called")
        if n[0] == []:
            tags.add("hooks-never-iterated")
        ctx.case(json.dumps(case, sort_keys=True), sorted(tags))
        bad = None
        for ln, nd, gd in zip(n[0], n[2], g[2]):
            if strip_st(gd) != nd:
                a, b = nd.split(" ; hk="), strip_st(gd).split(" ; hk=")
                if a[0] != b[0]:
                    bad = ("consumer-call", nd, strip_st(gd))
                else:
                    bad = (hk_kind(a[1], b[1]), nd, strip_st(gd))
                break
        if bad is None and n[3] != g[3]:
            bad = (hk_kind(n[3], g[3]), n[3], g[3])
        if bad is None and n[4] != g[4]:
            bad = ("cleanup", n[4], g[4])
        if bad is not None:
            seen = ctx.extra.setdefault("_shrunk", {})
            k = "hooks:" + bad[0]
            seen[k] = seen.get(k, 0) + 1
            if seen[k] <= 3:
                small = shrink_hook_case(case, bad[0])
                ctx.violation(f"goi-vs-native:hooks:{bad[0]}",
                              f"{label}asyncgen hooks {dict(zip(('firstiter', 'finalizer', 'firstiter_raises'), case['cfg']))}: the "
                              f"GeneratorObjectIterator and the native async generator differ ({bad[0]})",
                              small, expected={"native": bad[1]}, observed={"goi": bad[2]},
                              theorem="Asynkit.C06.goi_hooks_call_eq / goi_hooks_gc_eq")
        pre = ["reset", "prog " + mp.tokens(case["hook_prog"]), "mk", "hooks " + " ".join(str(x) for x in case["cfg"])]
        body, real = [], []
        for ln, no, go in zip(n[0], n[1], g[1]):
            body += ["n " + ln, "g " + ln]
            real += [no, go]
        if n[3] is not None and g[3] is not None:
            body += ["n gc", "g gc"]
            real += [n[3], g[3]]
        spans.append((len(all_lines) + len(pre), len(body)))
        all_lines.extend(pre + body)
        recs.append((case, body, real))
    if not ctx.lean_ok or not recs:
        return
    mouts = ctx.lean_driver("AsyncGen", all_lines)
    if len(mouts) != len(all_lines):
        raise core.InfraError(f"driver returned {len(mouts)} lines for {len(all_lines)}")
    reported = 0
    for (start, cnt), (case, body, real) in zip(spans, recs):
        for i, (nm, r, m) in enumerate(zip(body, real, mouts[start:start + cnt])):
            if len(n_fields := r.split(" ; ")) >= 3 and n_fields[-1].startswith("hk=") and nm[0] == "g":
                # g lines: the model prints `… ; st=N ; hk=…`
                pass
            if r != m:
                if reported < 3:
                    which = "CPython async generator vs nativeAG/hook model" if nm.startswith("n ") else \
                        "GeneratorObjectIterator vs goi/hook model"
                    ctx.disagreement(f"{label}{which}: `{nm}` answered differently", {**case, "upto": i},
                                     expected=m, observed=r, theorem="correspondence Drivers/AsyncGen (hooks)")
                reported += 1
                break
        ctx.traces += 2


def shrink_hook_case(case, field):
    def fails(c):
        try:
            n, g = run_hook_side(c, "n"), run_hook_side(c, "g")
        except Exception:  # noqa: BLE001
            return False
        if n is None or g is None:
            return False
        if field.startswith("firstiter") or field == "consumer-call":
            return any(strip_st(gd) != nd for nd, gd in zip(n[2], g[2]))
        if field.startswith("finalizer"):
            return n[3] is not None and g[3] is not None and n[3] != g[3] and hk_kind(n[3], g[3]) == field
        return n[3] == g[3] and n[4] != g[4]
    cur = dict(case)
    if len(cur["ops"]) >= 2:
        ops = core.ddmin(cur["ops"], lambda o: fails({**cur, "ops": o}))
        if fails({**cur, "ops": ops}):
            cur["ops"] = ops
    if len(cur["hook_prog"]) >= 2:
        p = core.ddmin(cur["hook_prog"], lambda q: fails({**cur, "hook_prog": q}))
        if fails({**cur, "hook_prog": p}):
            cur["hook_prog"] = p
    return cur


def corpus_cases():
    d = core.ROOT / "corpus" / PROP
    out = []
    if d.exists():
        for f in sorted(d.glob("*.json")):
            out.append(normalise(json.loads(f.read_text())))
    return out


def run(ctx):
    rng = ctx.rng
    try:
        _run(ctx, rng)
    finally:
        ctx.extra.pop("_shrunk", None)


def _run(ctx, rng):
    cc = corpus_cases()
    explore(ctx, [c for c in cc if "hook_prog" not in c], label="corpus: ")
    explore_hooks(ctx, [c for c in cc if "hook_prog" in c], label="corpus: ")
    # deterministic hook stream: fixed bodies x the four hook configurations, then random ones
    fixed = []
    for prog in HOOK_FIXED:
        for ops in ([], [("as", 0)], [("as", 0), ("as", 0)], [("as", 0), ("as", 0), ("as", 0), ("as", 0)],
                    [("as", 0), ("ac",)], [("as", 0), ("at", "E1")], [("as", 2), ("as", 0)], [("at", "E2")], [("ac",)]):
            for cfg in HOOK_CFGS:
                fixed.append({"hook_prog": prog, "ops": ops, "cfg": list(cfg)})
    explore_hooks(ctx, fixed, label="hooks: ")
    explore_hooks(ctx, [gen_hook_case(rng) for _ in range(3000 if ctx.thorough() else 400)], label="hooks: ")
    n = 100000 if ctx.thorough() else 10000
    batch = 2500
    done = 0
    while done < n:
        cases = [gen_case(rng) for _ in range(min(batch, n - done))]
        explore(ctx, cases)
        if done == 0:
            for c in cases[:3]:
                ctx.sample({"prog": mp.tokens(c["prog"]), "script": [op_line(a) for a in c["script"]]})
        done += len(cases)


def replay(ctx, data):
    if "hook_prog" in data["case"]:
        explore_hooks(ctx, [normalise(data["case"])], label="replay: ")
        ctx.extra.pop("_shrunk", None)
        return
    explore(ctx, [normalise(data["case"])], label="replay: ")
    ctx.extra.pop("_shrunk", None)
