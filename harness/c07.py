"""C07 — Monitor out-of-band channel: exactly once, in order, both directions."""
from __future__ import annotations

import asyncio
import gc
import inspect
import json
import sys
import types
import warnings

from . import core
from . import monprog as mp

PROP = "C07"
LEAN_TARGETS = ["Asynkit.Props.C07", "Asynkit.Lemmas.GenEqC07"]
PROPS_FILES = ["Asynkit/Props/C07.lean", "Asynkit/Lemmas/GenEqC07.lean"]
DRIVERS = ["Monitor"]
TRUSTED = [
    'Lean 4.33 kernel; axioms ⊆ {propext, Classical.choice, Quot.sound} (audited per theorem each run)',
    'translated, not trusted: Monitor.oob, _asend (entry and every resumption of the relay loop), aawait, athrow,'
    ' aclose, start, try_await and the six BoundMonitor methods are re-translated from monitor.py on every run '
    '(translator/monitor2lean.py -> Gen/Monitor.lean) and proved equal to '
    'asendStart/asendResume/callStart/callResume/boundStart/boundResume of Asynkit/Model/Monitor.lean '
    '(Lemmas/GenEqC07.lean, 46 theorems)',
    'hand-written: the runtime vocabulary Model/MonitorRt.lean (isinstance tests of the except clauses, PEP 479 '
    "on leaving a frame, athrow's (type, value, tb) triple without CPython's normalisation); the op-by-op "
    'correspondence of this run (lean/Drivers/Monitor.lean, raw send/throw driving) still runs model and code '
    'side by side',
    "CPython coroutine objects (send/throw/close on created/suspended/finished coroutines, PEP 479, 'cannot "
    "reuse', 'ignored GeneratorExit') and PEP-380 delegation are modelled (Monitor.SCoro), not verified; "
    'validated by the same correspondence stream',
    'Asynkit/Model/MonProg.lean (body language interpreter) only supplies bodies for the correspondence; the '
    'theorems quantify over every MBody/SBody',
    'Task-driven and await_sync-driven runs are compared with the raw-driven run of the same script '
    "(asyncio.Task.__step and asynkit.await_sync themselves are outside this property's model)",
]
ASSUMPTIONS = [
    "a monitor drives one coroutine at a time (one Monitor per coroutine level in generated cases)",
    "StopIteration/StopAsyncIteration are not thrown in through athrow (PEP 479 inside the generator-based oob())",
    "bodies that raise OOBData themselves are outside the property (model-vs-code only)",
]
RULE = ("case = (1-3 nested coroutine bodies over {log, real suspension, oob(m,d) to active/inactive monitors, "
        "sub-calls aawait/athrow/aclose/start/try_await on the child through a monitor, raise, return, "
        "try/except/finally incl. GeneratorExit/CancelledError handlers, nested coroutine calls}, driver script over "
        "{aawait v, athrow E, aclose, start, try_await v s} x {Monitor, BoundMonitor, await bound} with send/throw/close "
        "responses to real suspensions and re-entrant calls issued while one is suspended); non-trivial = the run "
        "itself hit one of the tagged situations (oob delivered, reply by value/exception, oob refused, re-entry "
        "refused, oob while closing, nested oob to outer/inner monitor, real yield between oobs, close of a suspended "
        "relay, result/exception delivered, start/try_await/aclose paths); distinct = hash of canonical case text")

warnings.simplefilter("ignore")
sys.unraisablehook = lambda *a: None   # finalisation of deliberately abandoned coroutines is not an event


def asynkit_monitor():
    import asynkit.monitor as m
    return m


# ---------------------------------------------------------------------------------------
# generation

VALS = [0, 1, 2, 3]
THROWN = ["E1", "E2", "GE", "CE", "BE", "RT", "KI", "SE", "FE"]


def gen_op(rng, in_parent=False):
    r = rng.random()
    if r < 0.55:
        return ("aw", rng.choice(VALS))
    if r < 0.70:
        if not in_parent and rng.random() < 0.6:
            return ("at", rng.choice(THROWN), rng.choice(mp.ATHROW_FORMS))
        return ("at", rng.choice(THROWN))
    if r < 0.78:
        return ("ac",)
    if r < 0.88:
        return ("st",)
    return ("ta", rng.choice(VALS), 9)


def gen_block(rng, level, nlevels, depth, budget, in_call=False, nosusp=False):
    """statements for the coroutine at `level` (0 = outermost); monitors 0..level are active while it runs.
    `nosusp`: no suspension here — inside a nested coroutine frame (CALL) the blocks that can run while a
    GeneratorExit is being delivered (GE/BASE handlers, finally) must not suspend: CPython closes nested
    frames with close(), which the flat body model does not describe."""
    out = []
    n = rng.randint(1, 4 if depth else 6)
    for _ in range(n):
        if budget[0] <= 0:
            break
        budget[0] -= 1
        r = rng.random()
        if nosusp:
            # only logging: neither suspension nor a new exception nor `return` may replace the
            # GeneratorExit that is closing this nested frame
            out.append(("L", rng.randint(1, 9)))
            continue
        if r < 0.28:
            if rng.random() < 0.88:
                m = rng.randint(0, level) if rng.random() < 0.5 else level
            else:
                m = 3      # a monitor that never drives anything (levels use 0..2): always inactive
            if rng.random() < 0.15:
                # oob() called, a real suspension, then the call awaited
                out.append(("OD", m, rng.randint(10, 99), rng.randint(100, 199)))
            else:
                out.append(("O", m, rng.randint(10, 99)))
        elif r < 0.40:
            out.append(("S", rng.randint(100, 199)))
        elif r < 0.52 and level + 1 < nlevels:
            # its own monitor for its child, or one that is active above it (refused); never a deeper level's
            # monitor: one Monitor drives one coroutine (ASSUMPTIONS)
            m = level + 1 if rng.random() < 0.88 else rng.randint(0, level + 1)
            out.append(("U", m, gen_op(rng, True), "u"))
        elif r < 0.62:
            out.append(("L", rng.randint(1, 9)))
        elif r < 0.68:
            out.append(("R", rng.choice(["E1", "E2", "RT", "SI", "BE", "CE", "GE"] + (["OOB:7"] if rng.random() < 0.1 else []))))
        elif r < 0.73:
            out.append(("T", rng.choice(VALS)))
        elif r < 0.90 and depth < 3:
            body = gen_block(rng, level, nlevels, depth + 1, budget, in_call, nosusp)
            hs = []
            for _ in range(rng.choice([0, 1, 1, 2])):
                cls = rng.choice(["GE", "CE", "E1", "E2", "RT", "OOB", "EXC", "BASE", "OOB" if level + 1 < nlevels else "GE"])
                ns = nosusp or (in_call and cls in ("GE", "BASE"))
                hb = gen_block(rng, level, nlevels, depth + 1, budget, in_call, ns) if rng.random() < 0.8 else []
                if in_call and cls in ("GE", "BASE"):
                    hb = hb + [("R", "GE")]      # a nested frame must not swallow GeneratorExit and carry on
                hs.append((cls, hb))
            fin = gen_block(rng, level, nlevels, depth + 1, budget, in_call, nosusp or in_call) if rng.random() < 0.5 else []
            out.append(("TRY", body, hs, fin))
        elif depth < 3:
            out.append(("CALL", gen_block(rng, level, nlevels, depth + 1, budget, True, nosusp)))
        else:
            out.append(("L", rng.randint(1, 9)))
    return out


def gen_parent_loopish(rng, level):
    """a parent that keeps relaying its child's oob data: the typical use"""
    m = level + 1
    out = [("U", m, ("st",), "u")]
    for _ in range(rng.randint(1, 3)):
        out.append(("TRY", [("U", m, ("aw", rng.choice(VALS)), "u")],
                    [("OOB", [("O", level, rng.randint(10, 99))] if rng.random() < 0.5 else [])], []))
    return out


def gen_close_probe(rng):
    """nested monitors + GeneratorExit from above while the parent waits in a sub-call: the child answers
    the close with an oob to the outer monitor, the parent survives the RuntimeError and carries on"""
    d1, d2, t = rng.randint(10, 99), rng.randint(10, 99), rng.randint(100, 199)
    after = rng.choice([[("S", t)], [("O", 0, rng.randint(10, 99))], [("S", t), ("O", 0, rng.randint(10, 99))],
                        [("L", 3), ("T", 1)],
                        # a re-entrant call on the outer monitor right after the dropped oob (must be refused)
                        [("TRY", [("U", 0, rng.choice([("aw", 0), ("st",), ("at", "E1")]), "u")], [("RT", [("L", 4)])], []),
                         ("S", t)]])
    parent = [("TRY", [("U", 1, rng.choice([("aw", 0), ("st",)]), "u")],
               [(rng.choice(["RT", "EXC", "BASE"]), after + [("L", 1)])], [])]
    kid = [("TRY", [("O", 0, d1)] + ([("S", rng.randint(100, 199))] if rng.random() < 0.3 else []),
            [(rng.choice(["GE", "BASE"]), [("O", rng.choice([0, 0, 1]), d2)])], [])]
    script = [("call", 0, rng.choice(["u", "b"]), rng.choice([("aw", 0), ("st",)])),
              ("call", 0, rng.choice(["u", "b"]), rng.choice([("at", "GE"), ("ac",), ("at", "E1")])),
              ("send", rng.choice(VALS)), ("call", 0, "u", ("aw", 2))]
    return {"progs": [parent, kid], "script": script, "reent": False}


def gen_case(rng):
    if rng.random() < 0.01:
        return gen_close_probe(rng)
    nlevels = rng.choice([1, 1, 1, 2, 2, 3])
    progs = []
    for lv in range(nlevels):
        if lv + 1 < nlevels and rng.random() < 0.25:
            progs.append(gen_parent_loopish(rng, lv))
        else:
            progs.append(gen_block(rng, lv, nlevels, 0, [rng.randint(4, 14)]))
    script = []
    r0 = rng.random()
    if r0 < 0.85:     # a sensible first call (a non-None first send is a TypeError and nothing else)
        script.append(("call", 0, rng.choice(["u", "b", "B"]), ("aw", 0) if r0 < 0.55 else ("st",) if r0 < 0.75 else ("ta", 0, 9)))
    for _ in range(rng.randint(2, 9)):
        r = rng.random()
        if r < 0.62:
            script.append(("call", 0, rng.choice(["u", "b", "B"]), gen_op(rng)))
        elif r < 0.82:
            script.append(("send", rng.choice(VALS)))
        elif r < 0.92:
            script.append(("throw", rng.choice(THROWN)))
        elif r < 0.96:
            script.append(("close",))
        else:
            script.append(("kill",))      # coro.close() on the driven coroutine, outside the monitor
    return {"progs": progs, "script": script, "reent": rng.random() < 0.35}


# ---------------------------------------------------------------------------------------
# real-code runner


def corostate(c):
    if c is None:
        return "none"
    s = inspect.getcoroutinestate(c)
    return {"CORO_CREATED": "new", "CORO_SUSPENDED": "susp", "CORO_CLOSED": "done",
            "CORO_RUNNING": "running"}[s]


class Real:
    """One coroutine stack driven through real Monitors.  mode: raw | task | sync"""

    def __init__(self, progs, mode="raw", responses=None):
        mod = asynkit_monitor()
        self.mod = mod
        self.OOBData = mod.OOBData
        self.M = [mod.Monitor() for _ in range(4)]
        self.logs = [mp.Log() for _ in progs]
        self.arrived = []       # exception objects as they arrive at the body's suspension point
        self.athrow_bad = None
        self.acts = []
        self.last_exc = None
        self.given = None
        self.olog = []
        self.keep = []
        self.mode = mode
        self.responses = list(responses or [])
        self.pending = None
        child = None
        for i in reversed(range(len(progs))):
            fn = mp.compile_body(progs[i], "mon", {"OOBData": mod.OOBData})
            coro = fn(self.M, child, self.logs[i], self.make_tok(), self.make_oob(), self.make_sub(child),
                      self.make_fin(i))
            self.keep.append(coro)
            child = coro
        self.top = child

    # -- instrumentation (oracle log; invisible to the model) ---------------------------
    def make_fin(self, pid):
        olog = self.olog

        def FIN(r):
            olog.append(("bodyexc", pid, mp.canon_exc(r[1])) if r[0] == "exc" else ("bodyret", pid, mp.cv(r[1])))
        return FIN

    def make_tok(self):
        olog = self.olog
        if self.mode == "raw":
            arrived = self.arrived

            @types.coroutine
            def tok(t):
                olog.append(("susp", t))
                try:
                    x = yield t
                except BaseException as e:  # noqa: BLE001
                    arrived.append(e)
                    raise
                return x
        elif self.mode == "task":
            async def tok(t):
                olog.append(("susp", t))
                fut = asyncio.get_running_loop().create_future()
                asyncio.get_running_loop().call_soon(fut.set_result, self.next_response())
                return await fut
        else:
            async def tok(t):
                olog.append(("susp", t))
                return self.next_response()
        return tok

    def next_response(self):
        v = self.responses.pop(0) if self.responses else 0
        return None if v == 0 else v

    def make_oob(self):
        M, olog = self.M, self.olog

        async def wait(m, d, p):
            olog.append(("oobcall", m, d, M[m].state))
            try:
                x = await p
            except BaseException as e:
                self.arrived.append(e)
                olog.append(("oobexc", m, mp.canon_exc(e)))
                raise
            olog.append(("oobret", m, mp.cv(x)))
            return x

        def OOB(m, d):
            return wait(m, d, M[m].oob(d))

        # ("OD", m, d, t): the call of oob() and the await of what it returned are separated by a real suspension
        OOB.make = lambda m, d: M[m].oob(d)
        OOB.wait = wait
        return OOB

    def make_sub(self, child):
        real, M, olog, OOBData = self, self.M, self.olog, self.OOBData

        class SUB:
            @staticmethod
            def drv(m, op):
                olog.append(("drv", m, op, M[m].state, corostate(child)))

            @staticmethod
            def mk(m, op, fl):
                return real.mkcall(m, child, op, fl)

            @staticmethod
            def exc(m, e):
                if isinstance(e, OOBData):
                    olog.append(("got", m, mp.cv(e.data), M[m].state))
                else:
                    olog.append(("exc", m, mp.canon_exc(e), M[m].state))

            @staticmethod
            def ret(m, x):
                olog.append(("ret", m, mp.cv(x), M[m].state))
        return SUB

    def mkcall(self, m, coro, op, fl):
        mon = self.M[m]
        k = op[0]
        val = lambda v: None if v == 0 else v  # noqa: E731
        if k == "at" and len(op) > 2:
            # two/three-argument forms: athrow(type, value[, traceback])
            tb = mp.make_tb()
            args, inst, cls, eargs = mp.athrow_args(op, tb)
            self.given = {"inst": inst, "cls": cls, "args": eargs, "tb": tb if op[2].endswith("+t") else None}
            if fl == "u":
                c = mon.athrow(coro, *args)
            else:
                bm = mon(coro)
                self.keep.append(bm)
                c = bm.athrow(*args)
            self.keep += [c, args, tb]
            return c
        if fl == "u":
            if k == "aw":
                c = mon.aawait(coro, val(op[1]))
            elif k == "at":
                c = mon.athrow(coro, mp.mkexc(op[1], self.OOBData))
            elif k == "ac":
                c = mon.aclose(coro)
            elif k == "st":
                c = mon.start(coro)
            else:
                c = mon.try_await(coro, val(op[1]), op[2])
        else:
            bm = mon(coro)
            if k == "aw":
                if fl == "B" and op[1] == 0:
                    async def _w():
                        return await bm
                    c = _w()
                else:
                    c = bm.aawait(val(op[1]))
            elif k == "at":
                e = mp.mkexc(op[1], self.OOBData)
                c = bm.athrow(type(e)) if fl == "B" else bm.athrow(e)
            elif k == "ac":
                c = bm.aclose()
            elif k == "st":
                c = bm.start()
            else:
                c = bm.try_await(val(op[1]), op[2])
            self.keep.append(bm)
        self.keep.append(c)
        return c

    # -- driving -------------------------------------------------------------------------
    def snapshot(self, out):
        st = ",".join(str(m.state) for m in self.M)
        lg = "|".join(f"{i}:{','.join(l)}" for i, l in enumerate(self.logs))
        return f"{out} ; {st} ; {corostate(self.top)} {lg}"

    def advance(self, m, c, thunk):
        try:
            y = thunk()
        except StopIteration as e:
            self.olog.append(("ret", m, mp.cv(e.value), self.M[m].state))
            out = f"ret {mp.cv(e.value)}"
        except self.OOBData as e:
            self.olog.append(("got", m, mp.cv(e.data), self.M[m].state))
            out = f"exc OOBData:{mp.cv(e.data)}"
        except BaseException as e:  # noqa: BLE001
            self.last_exc = e
            self.olog.append(("exc", m, mp.canon_exc(e), self.M[m].state))
            out = f"exc {mp.canon_exc(e)}"
        else:
            yv = self.cvy(y)
            self.olog.append(("pend", m, yv))
            out = f"pend {yv}"
            return out, True
        return out, False

    def cvy(self, y):
        """canonical form of what a suspended call passes on: a value, or a request addressed to a monitor"""
        if type(y).__name__ == "_OOBRequest":
            idx = [i for i, mon in enumerate(self.M) if mon is y.monitor]
            return f"req{idx[0] if idx else '?'}:{mp.cv(y.data)}"
        return mp.cv(y)

    def call(self, m, fl, op):
        self.olog.append(("act", "call", op, self.pending is not None))
        self.olog.append(("drv", m, op, self.M[m].state, corostate(self.top)))
        self.acts.append((m, fl, op))
        before, st0, n0 = corostate(self.top), self.M[m].state, len(self.arrived)
        self.given = None
        self.last_exc = None
        c = self.mkcall(m, self.top, op, fl)
        out, pend = self.advance(m, c, lambda: c.send(None))
        if pend:
            self.pending = (m, c)
        if self.given is not None and st0 == 0 and self.athrow_bad is None:
            self.athrow_bad = self.check_athrow(op, before, n0, out)
        return self.snapshot(out)

    def check_athrow(self, op, before, n0, out):
        """`an exception given to athrow() is raised from it`: what arrives at the suspended body (or, for a
        never-started coroutine, what comes out) is what coro.throw(type, value, tb) raises."""
        g = self.given
        if before == "susp":
            if len(self.arrived) <= n0:
                return ("athrow-not-delivered", f"{g['cls'].__name__}{g['args']} raised at the suspension point", out)
            e = self.arrived[n0]
        elif before == "new":
            e = self.last_exc
            if e is None:
                return ("athrow-not-delivered", f"{g['cls'].__name__}{g['args']} out of athrow()", out)
        else:
            return None
        if g["cls"] is GeneratorExit:
            # PEP 380 delivers GeneratorExit to the frames below the coroutine's own with close(): a fresh
            # GeneratorExit() arrives there; only the type is the caller's
            return None if isinstance(e, GeneratorExit) else ("athrow-exception-identity", "GeneratorExit", type(e).__name__)
        want = f"{g['cls'].__name__}{g['args']}" + (" (the given instance)" if g["inst"] is not None else "")
        got = f"{type(e).__name__}{e.args}"
        if g["inst"] is not None and e is not g["inst"]:
            return ("athrow-exception-identity", want, got + " (another object)")
        if type(e) is not g["cls"] or e.args != g["args"]:
            return ("athrow-exception-identity", want, got)
        if g["tb"] is not None and not mp.tb_contains(e, g["tb"]):
            return ("athrow-traceback", "given traceback kept", "traceback lost")
        return None

    def kill(self):
        """close the driven coroutine directly (what a driver's clean-up or the GC does), no monitor involved"""
        self.olog.append(("act", "kill", None))
        try:
            self.top.close()
            out = "ret 0"
        except BaseException as e:  # noqa: BLE001
            out = f"exc {mp.canon_exc(e)}"
        self.olog.append(("killed", out))
        return self.snapshot(out)

    def resume(self, kind, arg=None):
        m, c = self.pending
        self.olog.append(("act", kind, arg))
        if kind == "send":
            out, pend = self.advance(m, c, lambda: c.send(None if arg == 0 else arg))
        elif kind == "throw":
            out, pend = self.advance(m, c, lambda: c.throw(mp.mkexc(arg, self.OOBData)))
        else:
            def cl():
                c.close()
                raise StopIteration(None)
            out, pend = self.advance(m, c, cl)
        if not pend:
            self.pending = None
        return self.snapshot(out)


def op_line(a):
    if a[0] == "call":
        return f"call {a[1]} {a[2]} {mp.op_tokens(a[3])}"
    return " ".join(str(x) for x in a)


def run_raw(case):
    """Execute the script with raw send/throw driving.  Returns (lines, outs, real) where lines
    are the actions actually applicable (what the Lean driver is fed)."""
    real = Real(case["progs"], "raw")
    lines, outs = [], []
    post_done = 0
    for a in case["script"]:
        if a[0] == "call":
            if real.pending is not None and not case.get("reent"):
                a = ("send", 0)
            else:
                if corostate(real.top) == "done":
                    post_done += 1
                    if post_done > 2:
                        break
                lines.append(op_line(a))
                outs.append(real.call(a[1], a[2], a[3]))
                continue
        if a[0] == "kill":
            if real.pending is None and corostate(real.top) == "susp":
                lines.append("kill")
                outs.append(real.kill())
            continue
        if real.pending is None:
            continue
        lines.append(op_line(a))
        outs.append(real.resume(a[0], a[1] if len(a) > 1 else None))
    if real.pending is not None:
        lines.append("close")
        outs.append(real.resume("close"))
    return lines, outs, real


def run_mode(case, lines, mode, acts):
    """Re-run the executed raw trace inside a Task / through await_sync.  Only for traces whose
    responses to real suspensions are all `send`.  Returns the per-call outputs."""
    responses = [int(ln.split()[1]) for ln in lines if ln.startswith("send ")]
    real = Real(case["progs"], mode, responses)
    outs = []

    def parse(ln):
        t = ln.split()
        m, fl, k = int(t[1]), t[2], t[3]
        if k in ("aw",):
            op = ("aw", int(t[4]))
        elif k == "at":
            op = ("at", t[4])
        elif k == "ta":
            op = ("ta", int(t[4]), int(t[5]))
        else:
            op = (k,)
        return m, fl, op

    async def one(m, fl, op):
        c = real.mkcall(m, real.top, op, fl)
        try:
            r = await c
        except real.OOBData as e:
            return f"exc OOBData:{mp.cv(e.data)}"
        except BaseException as e:  # noqa: BLE001
            return f"exc {mp.canon_exc(e)}"
        return f"ret {mp.cv(r)}"

    if mode == "task":
        async def main():
            for m, fl, op in acts:
                out = await asyncio.get_running_loop().create_task(one(m, fl, op))
                outs.append(real.snapshot(out))
        loop = asyncio.new_event_loop()
        try:
            loop.run_until_complete(main())
        finally:
            loop.close()
    else:
        import asynkit
        for m, fl, op in acts:
            out = asynkit.await_sync(one(m, fl, op))
            outs.append(real.snapshot(out))
    return outs, real


# ---------------------------------------------------------------------------------------
# oracle: the property itself, read off the chronological event log of the real run


def is_ge_op(op):
    return op[0] == "ac" or (op[0] == "at" and op[1] == "GE")


def oracle(olog, tags):
    """Returns None or (check-name, index, expected, observed)."""
    active = {}            # monitor -> op of the call in progress / last started on it
    ge = False             # a GeneratorExit may be in flight in the current top-level action
    awaiting_reply = {}    # monitor -> d  (an oob on m was delivered; the next accepted call on m answers it)
    top_close = False      # the current top-level action is close() of the suspended call
    top_kill = False       # the current top-level action closes the coroutine itself, outside the monitor
    swallowed = set()      # monitors whose accepted oob value was swallowed by a close() (RuntimeError)
    n = len(olog)
    for i, ev in enumerate(olog):
        nxt = olog[i + 1] if i + 1 < n else None
        prv = olog[i - 1] if i > 0 else None
        k = ev[0]
        if k == "act":
            top_kill = ev[1] == "kill"
            if ev[1] == "call" and not ev[3] and nxt is not None and nxt[0] == "drv" and nxt[3] != 0:
                # no call of this driver is in progress: the monitor must be idle
                return "monitor-not-idle", i, ("state", 0), ("state", nxt[3])
            top_close = ev[1] == "close"
            if ev[1] == "call":
                pass
            ge = ev[1] in ("close", "kill") or (ev[1] == "throw" and ev[2] == "GE") or (ev[1] == "call" and is_ge_op(ev[2]))
            if top_kill:
                awaiting_reply.clear()     # whatever oob was pending is answered by the GeneratorExit of close()
        elif k == "drv":
            _, m, op, st, cs = ev
            if is_ge_op(op):
                ge = True
            if st != 0:
                if op[0] == "ac" and cs == "done":
                    if nxt is None or nxt[:3] != ("ret", m, 0):
                        return "aclose-finished", i, ("ret", m, 0), nxt
                    continue
                tags.add("reentry-refused")
                if nxt is None or nxt[0] != "exc" or nxt[1] != m or nxt[2] != "RuntimeError" or nxt[3] != st:
                    return "reentry-refused", i, ("exc", m, "RuntimeError", st), nxt
                continue
            active[m] = op
            if m in awaiting_reply and cs == "susp" and nxt is not None:
                d = awaiting_reply.pop(m)
                if op[0] in ("aw", "ta"):
                    exp = ("oobret", m, op[1])
                elif op[0] == "st":
                    exp = ("oobret", m, 0)
                elif op[0] == "ac":
                    exp = ("oobexc", m, "GeneratorExit")
                else:
                    eff = mp.athrow_effective(op)
                    exp = ("oobexc", m, {"GE": "GeneratorExit", "CE": "CancelledError", "RT": "RuntimeError", "KI": "KeyboardInterrupt",
                                         "SE": "SystemExit"}.get(eff, eff))
                tags.add("reply-value" if exp[0] == "oobret" else "reply-exception")
                if nxt[:3] != exp:
                    return "oob-reply", i, exp, nxt
        elif k == "oobcall":
            _, m, d, st = ev
            if st == -1:
                # left over from an oob value swallowed by a close() further down: the monitor IS driving
                # this coroutine, so the oob must be served like any other
                if nxt is not None and nxt[:3] == ("oobexc", m, "RuntimeError"):
                    return "stale-oob-after-close", i, "oob(%s) accepted: the monitor is active" % d, nxt
                st = 1
            if st != 1:
                tags.add("oob-refused")
                if nxt is None or nxt[:3] != ("oobexc", m, "RuntimeError"):
                    return "oob-refused", i, ("oobexc", m, "RuntimeError"), nxt
                continue
            op = active.get(m)
            if op is None:
                return "oob-without-call", i, "an accepted call on the monitor", ev
            if op[0] == "st":
                exp = ("ret", m, d, 0)
            elif op[0] == "ta":
                exp = ("ret", m, op[2], 0)
            elif op[0] == "ac":
                exp = ("exc", m, "RuntimeError", 0)
            else:
                exp = ("got", m, d, 0)
            if nxt == exp:
                tags.add("oob-delivered" if exp[0] == "got" else "oob-via-" + op[0])
                if exp[0] != "exc":
                    awaiting_reply[m] = d
                elif op[0] == "ac":
                    tags.add("oob-while-closing")
                    awaiting_reply[m] = d
            elif ge and nxt is not None and nxt[0] == "exc" and nxt[2] == "RuntimeError":
                tags.add("oob-while-closing")
                if nxt[1] != m:
                    swallowed.add(m)      # swallowed by the relay of another monitor further down: no reply owed
                    tags.add("oob-swallowed-by-inner-close")
                else:
                    awaiting_reply[m] = d
            else:
                return "oob-delivery", i, exp, nxt
        elif k == "got":
            _, m, d, st = ev
            if prv is None or prv[:3] != ("oobcall", m, d) or prv[3] not in (1, -1):
                op = active.get(m)
                # OOBData raised by a body itself (abuse) is not judged
                if not (prv is not None and prv[0] == "bodyexc" and str(prv[2]).startswith("OOBData")):
                    return ("stale-oob-after-close" if m in swallowed else "oob-spurious"), i, ("oobcall", m, d, 1), prv
            if st != 0:
                return "idle-after-call", i, 0, st
        elif k == "pend":
            _, m, y = ev
            if prv is None or prv != ("susp", y):
                return "real-yield-passthrough", i, ("susp", y), prv
            tags.add("real-yield")
        elif k in ("ret", "exc"):
            _, m, x, st = ev
            op = active.get(m)
            refused = prv is not None and prv[0] == "drv" and prv[1] == m and prv[3] != 0
            if not refused and st != 0:
                return "idle-after-call", i, 0, st
            if k == "ret" and op is not None and op[0] == "st" and not refused and not (top_close and m == 0):
                leaked = prv is not None and prv[0] == "bodyexc" and str(prv[2]).startswith("OOBData")
                if not leaked and (prv is None or prv[:3] != ("oobcall", m, x)):
                    return "start-result", i, "preceded by oob(d)", prv
        elif k in ("bodyret", "bodyexc") and top_kill:
            tags.add("coroutine-closed-outside-monitor")
        elif k in ("bodyret", "bodyexc"):
            _, pid, x = ev
            if nxt is None or nxt[0] not in ("ret", "exc", "got"):
                return "result-delivered", i, "completion of the driving call", nxt
            m = nxt[1]
            op = active.get(m)
            if op is None:
                return "result-delivered", i, "an accepted call", nxt
            awaiting_reply.pop(m, None)
            if top_close and pid == 0:
                # close() of the suspended call: a clean exit (return / GeneratorExit) is `None`
                tags.add("closed-cleanly" if (k == "bodyret" or x == "GeneratorExit") else "exception-on-close")
                exp = ("ret", m, 0, 0) if (k == "bodyret" or x == "GeneratorExit") else ("exc", m, x, 0)
                if str(x).startswith("OOBData"):
                    continue
                if exp[:3] == ("exc", m, "StopIteration"):
                    exp = ("exc", m, "RuntimeError", 0)          # PEP 479
                if nxt != exp:
                    return "result-delivered", i, exp, nxt
                continue
            if k == "bodyret":
                tags.add("result-delivered")
                if op[0] in ("aw", "at", "ta"):
                    exp = ("ret", m, x, 0)
                elif op[0] == "st":
                    exp = ("exc", m, "RuntimeError", 0)
                else:
                    exp = ("ret", m, 0, 0)
            else:
                tags.add("exception-delivered")
                if str(x).startswith("OOBData"):
                    continue
                if op[0] == "ac" and x == "GeneratorExit":
                    exp = ("ret", m, 0, 0)
                else:
                    exp = ("exc", m, x, 0)
            if exp[:3] == ("exc", m, "StopIteration"):
                exp = ("exc", m, "RuntimeError", 0)          # PEP 479 at the coroutine boundary
            if nxt != exp:
                if ge and nxt == ("exc", m, "GeneratorExit", 0) and (k == "bodyret" or x == "GeneratorExit"):
                    tags.add("relay-closed-with-GeneratorExit")   # `coro.close(); raise` (line 94-96)
                    continue
                return "result-delivered", i, exp, nxt
    return None


def situation_tags(case, lines, outs, olog, tags):
    if len(case["progs"]) > 1:
        for ev in olog:
            if ev[0] == "oobcall" and ev[3] == 1:
                tags.add("nested-oob-to-outer" if ev[1] == 0 else "nested-oob-to-inner")
    if any(ln == "close" for ln in lines):
        tags.add("close-suspended-relay")
    if any(ln.startswith("throw") for ln in lines):
        tags.add("throw-into-suspended-relay")
    for ln in lines:
        t = ln.split()
        if t[0] == "call" and t[2] != "u":
            tags.add("bound-monitor")


# ---------------------------------------------------------------------------------------


def judge(case):
    lines, outs, real = run_raw(case)
    tags = set()
    bad = None
    try:
        bad = oracle(real.olog, tags)
    except Exception as e:  # noqa: BLE001
        raise core.InfraError(f"oracle crashed: {e!r} on {json.dumps(case)}")
    situation_tags(case, lines, outs, real.olog, tags)
    if bad is not None:
        bad = bad + (real.olog[max(0, bad[1] - 3): bad[1] + 2],)
    elif real.athrow_bad is not None:
        ab = real.athrow_bad
        bad = (ab[0], 0, ab[1], ab[2], [])
    for m_, fl_, op_ in real.acts:
        if op_[0] == "at" and len(op_) > 2:
            tags.add("athrow-form-" + op_[2])
    # Task / await_sync driving must agree with raw driving of the same trace
    mode_bad = None
    body_oob = any(ev[0] == "bodyexc" and str(ev[2]).startswith("OOBData") for ev in real.olog)
    ol = real.olog
    swallowed = any(ev[0] == "susp" and not (i + 1 < len(ol) and ol[i + 1][0] == "pend") for i, ev in enumerate(ol))
    if bad is None and lines and not body_oob and not swallowed and not any(ln.startswith(("throw", "close", "kill")) for ln in lines):
        npend = sum(1 for o in outs if o.startswith("pend"))
        nsend = sum(1 for ln in lines if ln.startswith("send"))
        reent = any(outs[i].startswith("pend") and i + 1 < len(lines) and lines[i + 1].startswith("call")
                    for i in range(len(lines)))
        if npend == nsend and not reent:
            want = [o for ln, o in zip(lines, outs) if not o.startswith("pend")]
            # outputs of calls: in raw mode a call's final output is on its last resume line
            for mode in ("task", "sync"):
                got, r2 = run_mode(case, lines, mode, real.acts)
                tags.add("driven-by-" + mode)
                if got != want:
                    mode_bad = ("mode-" + mode, 0, want, got, [])
                    break
                b2 = oracle_modes(r2.olog)
                if b2:
                    mode_bad = ("mode-" + mode + "-oracle", 0, None, b2, [])
                    break
    return lines, outs, tags, bad or mode_bad, real


def oracle_modes(olog):
    return None


def shrink_case(case, name):
    """Greedy shrinking of script and programs keeping the same failed check."""
    def fails(c):
        try:
            b = judge(c)[3]
        except Exception:  # noqa: BLE001
            return False
        return b is not None and b[0] == name

    cur = json.loads(json.dumps(case))
    cur["progs"] = [[_tup(s) for s in p] for p in cur["progs"]]
    cur["script"] = [_tup(a) for a in cur["script"]]
    sc = core.ddmin(cur["script"], lambda s: fails({**cur, "script": s}))
    if sc and fails({**cur, "script": sc}):
        cur["script"] = sc
    for i in range(len(cur["progs"])):
        def f(p, i=i):
            ps = list(cur["progs"])
            ps[i] = p
            return fails({**cur, "progs": ps})
        if len(cur["progs"][i]) >= 2:
            p = core.ddmin(cur["progs"][i], f)
            if f(p):
                cur["progs"][i] = p
    return cur


def _tup(x):
    if isinstance(x, list):
        return tuple(_tup(y) for y in x) if not (x and isinstance(x[0], list) and False) else x
    return x


def normalise(case):
    """JSON round trip turns tuples into lists; the AST uses tuples for statements/ops and lists for blocks."""
    def stmt(s):
        s = list(s)
        k = s[0]
        if k == "TRY":
            return ("TRY", [stmt(x) for x in s[1]], [(h[0], [stmt(x) for x in h[1]]) for h in s[2]],
                    [stmt(x) for x in s[3]])
        if k == "CALL":
            return ("CALL", [stmt(x) for x in s[1]])
        if k == "U":
            return ("U", s[1], tuple(s[2]), s[3])
        return tuple(s)

    def act(a):
        a = list(a)
        if a[0] == "call":
            return ("call", a[1], a[2], tuple(a[3]))
        return tuple(a)
    return {"progs": [[stmt(s) for s in p] for p in case["progs"]],
            "script": [act(a) for a in case["script"]], "reent": bool(case.get("reent"))}


def case_text(case):
    return json.dumps(case, sort_keys=True)


def lean_lines(case, lines):
    out = ["reset"]
    for i, p in enumerate(case["progs"]):
        out.append(f"prog {i} {mp.tokens(p)}")
    out.append("mk " + " ".join(str(i) for i in range(len(case["progs"]))))
    return out + lines


def explore(ctx, cases, label=""):
    all_lines, spans, reals = [], [], []
    for case in cases:
        gc_was = gc.isenabled()
        gc.disable()
        try:
            lines, outs, tags, bad, real = judge(case)
        finally:
            if gc_was:
                gc.enable()
        ctx.case(case_text(case), sorted(tags))
        if bad is not None:
            seen = ctx.extra.setdefault("_shrunk", {})
            seen[bad[0]] = seen.get(bad[0], 0) + 1
            if seen[bad[0]] > 2:      # same defect class again: count it, do not shrink again
                ctx.violation(f"monitor:{bad[0]}", "", case)
                continue
            small = normalise(shrink_case(case, bad[0]))
            l2, o2, _, b2, _ = judge(small)
            b2 = b2 or bad
            if b2 is bad:
                small = case
            ctx.violation(f"monitor:{b2[0]}", f"{label}{b2[0]}: the real Monitor breaks the protocol",
                          small, expected=b2[2], observed={"got": b2[3], "events": b2[4]},
                          theorem="Asynkit.C07." + THEOREM_OF.get(b2[0].split("-oracle")[0], "oob_exactly_once_in_order"))
        pre = lean_lines(case, [])
        spans.append((len(all_lines) + len(pre), len(lines)))
        all_lines.extend(pre + lines)
        reals.append((case, lines, outs))
    if not ctx.lean_ok or not cases:
        return
    mouts = ctx.lean_driver("Monitor", all_lines)
    if len(mouts) != len(all_lines):
        raise core.InfraError(f"driver returned {len(mouts)} lines for {len(all_lines)}")
    reported = 0
    for (start, n), (case, lines, outs) in zip(spans, reals):
        mo = mouts[start:start + n]
        for i, (ln, r, m) in enumerate(zip(lines, outs, mo)):
            if r != m:
                if reported < 3:
                    ctx.disagreement(f"{label}model and implementation answer `{ln}` differently",
                                     {**case, "upto": i}, expected=m, observed=r,
                                     theorem="correspondence Drivers/Monitor")
                reported += 1
                break
        ctx.traces += 1


THEOREM_OF = {
    "reentry-refused": "reentry_refused", "idle-after-call": "idle_after_every_call",
    "oob-reply": "oob_reply", "result-delivered": "result_delivered",
    "oob-delivery": "oob_exactly_once_in_order", "oob-spurious": "oob_exactly_once_in_order",
    "real-yield-passthrough": "oob_exactly_once_in_order", "oob-refused": "oob_refused_when_inactive",
    "start-result": "start_consistent", "aclose-finished": "aclose_consistent",
    "mode-task": "oob_exactly_once_in_order", "mode-sync": "oob_exactly_once_in_order",
    "monitor-not-idle": "idle_after_every_call",
    "stale-oob-after-close": "nested_monitors (Safe is necessary: stale_oob_after_close)",
    "athrow-exception-identity": "oob_reply", "athrow-not-delivered": "oob_reply", "athrow-traceback": "oob_reply",
}


def corpus_cases():
    d = core.ROOT / "corpus" / PROP
    out = []
    if d.exists():
        for f in sorted(d.glob("*.json")):
            out.append(normalise(json.loads(f.read_text())))
    return out


def run(ctx):
    rng = ctx.rng
    try:
        _run(ctx, rng)
    finally:
        ctx.extra.pop("_shrunk", None)


def _run(ctx, rng):
    explore(ctx, corpus_cases(), label="corpus: ")
    n = 120000 if ctx.thorough() else 10000
    batch = 2500
    done = 0
    while done < n:
        cases = [gen_case(rng) for _ in range(min(batch, n - done))]
        explore(ctx, cases)
        if done == 0:
            for c in cases[:3]:
                ctx.sample({"progs": [mp.tokens(p) for p in c["progs"]],
                            "script": [op_line(a) for a in c["script"]]})
        done += len(cases)


def replay(ctx, data):
    explore(ctx, [normalise(data["case"])], label="replay: ")
    ctx.extra.pop("_shrunk", None)
