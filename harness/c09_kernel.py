"""One-handle-at-a-time stepper for real event loops (shared by C09 and C15).

A *case* is JSON:  {"cfg": "stock"|"sched"|"prio", "script": [action, ...]}
Script actions (executed by the harness between handles = loop running, no current task; or, after
`pause`, from outside the stopped loop):
    ["step"]                        let the loop run its next ready handle
    ["pause"] / ["resume"]          leave / re-enter run_forever with everything left in place
    ["create", "p"|"c", prog, catch] create a Python / C task running worker program `prog`
    ["newfut"] ["setres", f] ["setexc", f] ["cancelfut", f] ["addcb", f]
    ["cancel", t] ["cscancel", t] (= loop.call_soon(task.cancel)) ["cscb"] (= call_soon(noop))
    ["throw", t, cd]                task_throw(task, fresh exception; cd = derives from CancelledError)
    ["obs"]                         observe (also done automatically after every event)
Worker program ops (executed inside the task):
    ["s"] sleep(0)   ["w", f] await future   ["y", f] yield the future even when it is done
    ["bad"] yield a non-future   ["i", t, cd] await task_interrupt(t, exc)   ["a", action] any
    environment action above   ["ret"]   ["raise"]
`catch`: "all" (swallow every delivered exception and go on), "intr" (swallow only interrupts),
"none" (the first delivered exception ends the task).
Indices t / f are taken modulo the number of tasks / futures that exist at that moment.

Everything that happens is recorded as a line of the Lean driver's protocol (Drivers/Kernel.lean)
together with what the real code answered; `obs` lines carry the canonical observation of the
real state.  The oracles of C09 / C15 are evaluated on the real observations only.
"""
from __future__ import annotations

import asyncio
import asyncio.events
import asyncio.tasks
import gc

from . import core

PyTask = asyncio.tasks._PyTask
CTask = asyncio.tasks._CTask if hasattr(asyncio.tasks, "_CTask") else asyncio.Task
_PY_STEP = PyTask._Task__step
_PY_WAKEUP = PyTask._Task__wakeup


class IntrPlain(Exception):
    pass


class IntrCancel(asyncio.CancelledError):
    pass


# an interrupt that is a plain StopIteration instance (code that forwards "whatever I caught"): a valid
# argument of task_throw, but one that Future.set_exception() rejects (`type(exc) is StopIteration`)
IntrStop = StopIteration


class FutExc(Exception):
    pass


class NeedsArg(Exception):
    """an exception *class* given where an instance is expected; it cannot even be instantiated
    without an argument"""

    def __init__(self, code):
        super().__init__(code)


class NeedsArgCancel(asyncio.CancelledError):
    def __init__(self, code):
        super().__init__(code)


class _Pause(BaseException):
    """Raised by the Handle._run wrapper *after* a handle completed: unwinds run_forever the way a
    KeyboardInterrupt would, leaving the ready queue and all tasks in place."""


class HarnessBug(Exception):
    pass


class _Timeout(BaseException):
    """watchdog: one case may not run longer than CASE_TIMEOUT seconds"""


CASE_TIMEOUT = 10


def _on_alarm(signum, frame):
    raise _Timeout()


class _Abort(BaseException):
    """The real code already broke the property in this run and now behaves in ways the stepper
    cannot follow (e.g. a task resumed by a stale handle): stop the case, keep the findings."""


class GuardFuture(asyncio.Future):
    """A future whose cancel() can be made to refuse (return False) while it is still pending -
    what asyncio.gather's outer future does once all its children are done but its own completion
    is still queued."""
    no_cancel = False

    def cancel(self, msg=None):
        if self.no_cancel and not self.done():
            return False
        return super().cancel(msg=msg)


class _RawYield:
    def __init__(self, fut):
        self.fut = fut

    def __await__(self):
        self.fut._asyncio_future_blocking = True
        yield self.fut


class _BadYield:
    def __await__(self):
        yield 42


def _noop(*_a):
    return None


def _probe_c_callbacks():
    """Learn from the running interpreter what a C task schedules for step and wake-up."""
    loop = asyncio.new_event_loop()
    try:
        fut = loop.create_future()

        async def w():
            await fut

        t = CTask(w(), loop=loop)
        step_type = type(loop._ready[-1]._callback)
        loop.call_soon(loop.stop)
        loop.run_forever()
        wake = fut._callbacks[0][0]
        wake_id = (type(wake), getattr(wake, "__name__", None))
        fut.set_result(None)
        loop.call_soon(loop.stop)
        loop.run_forever()
        loop.run_until_complete(t)
        return step_type, wake_id
    finally:
        loop.close()


_C_STEP_TYPE, _C_WAKE_ID = _probe_c_callbacks()

_orig_run = asyncio.events.Handle._run
_active = None  # the World whose loop is being stepped


def _patched_run(handle):
    w = _active
    if w is None or handle._loop is not w.loop:
        return _orig_run(handle)
    w.on_begin(handle)
    _orig_run(handle)
    w.after_handle(handle)


def make_loop(cfg):
    import asynkit
    from asynkit.experimental.priority import PrioritySelectorEventLoop
    if cfg == "stock":
        return asyncio.SelectorEventLoop()
    if cfg == "sched":
        return asynkit.SchedulingSelectorEventLoop()
    if cfg == "prio":
        return PrioritySelectorEventLoop()
    raise ValueError(cfg)


class World:
    def __init__(self, case, trace=True):
        import asynkit
        import asynkit.experimental.interrupt as intr
        from asynkit.loop import extensions
        self.ak, self.intr, self.ext = asynkit, intr, extensions
        self.case = case
        self.cfg = case["cfg"]
        self.script = case["script"]
        self.tracing = trace
        self.loop = make_loop(self.cfg)
        self.loop.set_exception_handler(self._on_loop_error)
        self.tasks, self.coros, self.kinds, self.started = [], [], [], set()
        self.futs = []
        self.lines = []          # (protocol line, what the real code answered)
        self.log = []            # delivered exceptions "t:code", in order
        self.handler_calls = []
        self.problems = []       # oracle failures: dict(kind, detail, at)
        self.tags = set()
        self.nexc = 0
        self.excs = {}
        self.throws = []         # accounting for C15
        self.marker = None
        self.handles_run = 0
        self.mode = "outside"    # outside | idle | task | drain
        self.pc = 0
        self.expect_next = None
        self.cur_handle = None
        self.n_obs = 0
        self.bug = None
        self.events = [asyncio.Event() for _ in range(2)]
        self.locks = [asyncio.Lock() for _ in range(2)]
        self.queues = [asyncio.Queue() for _ in range(2)]
        self.in_ext = set()
        self.expect_cancel = set()
        self.explicit_pause = False
        self.cur_class = None

    # ------------------------------------------------------------------ identity helpers
    def tid(self, task):
        for i, t in enumerate(self.tasks):
            if t is task:
                return i
        return None

    def fid(self, fut):
        for i, f in enumerate(self.futs):
            if f is fut:
                return i
        return None

    def exc_code(self, e):
        if isinstance(e, (IntrPlain, IntrCancel, IntrStop)):
            return f"i{e.id}"
        if isinstance(e, FutExc):
            return f"F{e.fid}"
        if isinstance(e, asyncio.CancelledError):
            return "C"
        if isinstance(e, RuntimeError):
            return "R"
        return "?" + type(e).__name__

    def classify(self, cb, args):
        """-> ("s", tid, exc|None) | ("w", tid, fut) | ("o", tid) | ("k",).  Independent of
        asynkit.task_from_handle: identity of the function objects / probed C types."""
        owner = getattr(cb, "__self__", None)
        t = self.tid(owner) if owner is not None else None
        if t is None:
            return ("k",)
        func = getattr(cb, "__func__", None)
        if func is _PY_STEP:
            return ("s", t, args[0] if args else None)
        if func is _PY_WAKEUP:
            return ("w", t, args[0] if args else None)
        if type(cb) is _C_STEP_TYPE:
            return ("s", t, None)
        if (type(cb), getattr(cb, "__name__", None)) == _C_WAKE_ID:
            return ("w", t, args[0] if args else None)
        return ("o", t)

    def show_handle(self, h):
        c = self.classify(h._callback, h._args)
        if c[0] == "s":
            if c[2] is not None and self.kinds[c[1]] == "p":
                return f"s{c[1]}^{self.exc_code(c[2])}"
            return f"s{c[1]}"
        if c[0] == "w":
            f = self.fid(c[2])
            return f"w{c[1]}:{'?' if f is None else f}"
        if c[0] == "o":
            return f"o{c[1]}"
        return "k"

    def ready_list(self):
        q = self.loop._ready
        return list(q)  # deque, or PosPriorityQueue.__iter__ (drain order)

    # ------------------------------------------------------------------ recording
    def emit(self, line, answer):
        if self.tracing and self.mode != "drain":
            self.lines.append((line, answer))

    def _on_loop_error(self, loop, context):
        if "never retrieved" in str(context.get("message", "")):
            # an orphaned future (e.g. the outer future of shield() after its only waiter was
            # interrupted away) failed later and nobody looked: asyncio's hygiene warning about
            # the awaited object's owner, not an error of a callback.  Counted, not judged.
            self.tags.add("orphaned-future-exception-logged-at-gc")
            return
        self.handler_calls.append(repr(context.get("exception") or context.get("message"))[:200])

    def problem(self, kind, detail):
        self.problems.append({"kind": kind, "detail": detail, "at": len(self.lines),
                              "mode": self.mode})

    # ------------------------------------------------------------------ observation + C09 oracle
    def _api(self, fn, *a):
        try:
            r = fn(*a)
        except RuntimeError:
            return "!norun", None
        except AssertionError:
            return "!assert", None
        except Exception as e:  # anything else is reported verbatim
            return "!" + type(e).__name__, None
        ids = sorted(self.tid(t) for t in r)
        return ",".join(map(str, ids)), set(ids)

    def observe(self, where=""):
        loop, ak = self.loop, self.ak
        self.n_obs += 1
        running = loop.is_running()
        cur = asyncio.current_task(loop)
        ctx = "S" if not running else ("I" if cur is None else f"T{self.tid(cur)}")
        ts = []
        for i, t in enumerate(self.tasks):
            k = self.kinds[i]
            if t.done():
                ts.append(f"{i}{k}D")
                continue
            fw = t._fut_waiter
            if fw is None:
                s = "-"
            else:
                f = self.fid(fw)
                s = "f?" if f is None else f"f{f}"
            ts.append(f"{i}{k}{s}{'!' if t._must_cancel else ''}")
        ready = self.ready_list()
        rd = [self.show_handle(h) for h in ready]
        fs = []
        for i, f in enumerate(self.futs):
            st = "P" if not f.done() else ("C" if f.cancelled() else ("E" if f._exception is not None else "R"))
            cbs = []
            for cb, _ctx in (f._callbacks or []):
                c = self.classify(cb, ())
                cbs.append(f"w{c[1]}" if c[0] == "w" else "k")
            fs.append(f"{i}{st}{'~' if f.no_cancel else ''}" + ".".join(cbs))
        re_s, re_set = self._api(ak.runnable_tasks, loop)
        be_s, be_set = self._api(ak.blocked_tasks, loop)
        ri_s, ri_set = self._api(ak.runnable_tasks)
        bi_s, bi_set = self._api(ak.blocked_tasks)
        fl = []
        flags = {}
        for i, t in enumerate(self.tasks):
            try:
                rf = self.ext.ready_find(t, loop) is not None
            except Exception as e:
                rf = None
                self.problem("ready_find-raised", type(e).__name__)
            r_, b_ = ak.task_is_runnable(t), ak.task_is_blocked(t)
            flags[i] = (r_, b_, rf)
            fl.append(f"{i}:{int(r_)}{int(b_)}{int(bool(rf))}")
        obs = (f"ctx={ctx} tasks=[{';'.join(ts)}] ready=[{','.join(rd)}] futs=[{';'.join(fs)}] "
               f"Re={re_s} Be={be_s} Ri={ri_s} Bi={bi_s} fl=[{';'.join(fl)}] "
               f"log=[{','.join(self.log)}] err={int(bool(self.handler_calls))}")
        self.emit("obs", obs)

        # ---- the property, on the real objects only
        other_bound = any(s.startswith("o") for s in rd)
        sit = ("out" if ctx == "S" else "cb" if ctx == "I" else "task") + ("+otherbound" if other_bound else "")
        alls = {self.tid(t) for t in asyncio.all_tasks(loop)}
        alls.discard(None)
        curid = None if cur is None else self.tid(cur)
        if re_set is None:
            self.problem(f"runnable_tasks(loop) raised {re_s[1:]} [{sit}]", obs)
        if be_set is None:
            self.problem(f"blocked_tasks(loop) raised {be_s[1:]} [{sit}]", obs)
        if running:
            if ri_set is None:
                self.problem(f"runnable_tasks() raised {ri_s[1:]} [{sit}]", obs)
            if bi_set is None:
                self.problem(f"blocked_tasks() raised {bi_s[1:]} [{sit}]", obs)
            if ri_set is not None and re_set is not None and ri_set != re_set:
                self.problem(f"runnable_tasks() != runnable_tasks(loop) [{sit}]", obs)
            if bi_set is not None and be_set is not None and bi_set != be_set:
                self.problem(f"blocked_tasks() != blocked_tasks(loop) [{sit}]", obs)
        if re_set is not None and be_set is not None:
            cs = set() if curid is None else {curid}
            if (re_set & be_set) or (re_set & cs) or (be_set & cs) or (re_set | be_set | cs) != alls:
                self.problem(f"all_tasks != runnable + blocked + current [{sit}]", obs)
        in_ready = set()
        for h in ready:
            c = self.classify(h._callback, h._args)
            if c[0] in ("s", "w"):
                in_ready.add(c[1])
            try:
                tf = self.ext.task_from_handle(h, loop)
            except Exception:
                tf = None
            mine = self.tasks[c[1]] if c[0] in ("s", "w") else None
            if tf is not mine:
                self.tags.add("task_from_handle-misclassifies")   # root-cause marker for keys
        for i, t in enumerate(self.tasks):
            if t.done() or i == curid:
                continue
            r_, b_, rf = flags[i]
            if r_ != (i in in_ready):
                self.problem(f"task_is_runnable != membership of the ready queue [{sit}]", obs)
            if rf is not None and r_ != rf:
                self.problem(f"task_is_runnable != (ready_find is not None) [{sit}]", obs)
            if r_ == b_:
                self.problem(f"task_is_runnable == task_is_blocked [{sit}]", obs)
        if self.handler_calls:
            self.problem("loop exception handler called", self.handler_calls[0])
        # situations reached (for the counting rule)
        self.tags.add("obs-" + ("outside" if ctx == "S" else "callback" if ctx == "I" else "in-task"))
        if other_bound:
            self.tags.add("other-bound-handle-in-ready")
        if len(rd) >= 17:
            self.tags.add("ready-queue-of-17-or-more")
        if any("!" in s for s in ts):
            self.tags.add("must-cancel-pending")
        if any(s.startswith("w") for s in rd):
            self.tags.add("woken-not-run")
        if any("^i" in s for s in rd):
            self.tags.add("throw-pending")
        if ctx == "S" and self.explicit_pause and (rd or any(not t.done() for t in self.tasks)):
            self.tags.add("stopped-with-tasks-left")
        return obs

    # ------------------------------------------------------------------ environment actions
    def do_action(self, a, who=None):
        """Execute one environment action on the real code, emit its event (+ observation)."""
        op = a[0]
        loop = self.loop
        if op == "obs":
            self.observe()
            return
        if op == "create":
            kind, prog, catch = a[1], a[2], a[3]
            wid = len(self.tasks)
            coro = self.worker(wid, prog, catch)
            if kind == "p":
                if loop.is_running():
                    task = self.intr.create_pytask(coro)
                else:
                    task = PyTask(coro, loop=loop)
            else:
                task = loop.create_task(coro)
            self.coros.append(coro)
            self.tasks.append(task)
            self.kinds.append(kind)
            self.emit(f"create {kind}", f"ok {wid}")
        elif op == "newfut":
            self.futs.append(GuardFuture(loop=loop))
            self.emit("newfut", f"ok {len(self.futs) - 1}")
        elif op == "nocancel":
            if not self.futs:
                return
            f = a[1] % len(self.futs)
            self.futs[f].no_cancel = bool(a[2])
            self.emit(f"nocancel {f} {int(bool(a[2]))}", "ok")
        elif op in ("setres", "setexc", "cancelfut", "addcb"):
            if not self.futs:
                return
            f = a[1] % len(self.futs)
            fut = self.futs[f]
            if op == "addcb":
                fut.add_done_callback(_noop)
                self.emit(f"addcb {f}", "ok")
            else:
                was = fut.done() or (op == "cancelfut" and fut.no_cancel)
                try:
                    if op == "setres":
                        fut.set_result(None)
                    elif op == "setexc":
                        e = FutExc()
                        e.fid = f
                        fut.set_exception(e)
                    else:
                        fut.cancel()
                except asyncio.InvalidStateError:
                    pass
                self.emit(f"{op} {f}", "noop" if was else "ok")
                if not was:
                    self.tags.add("future-" + op)
        elif op in ("cancel", "cscancel"):
            if not self.tasks:
                return
            t = a[1] % len(self.tasks)
            task = self.tasks[t]
            if op == "cancel":
                self.note_cancel(t)
                was_blocked = self.ak.task_is_blocked(task)
                r = task.cancel()
                if r and was_blocked and task._must_cancel and task._fut_waiter is not None \
                        and not task._fut_waiter.done():
                    self.tags.add("cancel-refused-by-pending-future")
                self.emit(f"cancel {t}", "ok" if r else "noop")
                if r:
                    self.tags.add("cancel-self" if who == t else "cancel-task")
            else:
                loop.call_soon(task.cancel)
                self.emit(f"cscancel {t}", "ok")
        elif op == "cscb":
            loop.call_soon(_noop)
            self.emit("cscb", "ok")
        elif op == "throwcls":
            # task_throw with something that is not an exception instance (a class whose constructor
            # needs an argument): whatever the call does - TypeError on the unchanged code - a call that
            # raises must leave everything as it was.  Not an event of the model: nothing may happen.
            if not self.tasks:
                return
            t = a[1] % len(self.tasks)
            if self.kinds[t] != "p":
                return
            self.do_throw_class(t, NeedsArgCancel if a[2] else NeedsArg)
        elif op == "iterobs":
            # observe while an iteration over the ready queue is in progress (k items consumed), then
            # again after the iterator was closed.  Not an event of the model: looking changes nothing.
            self.iter_observe(a[1], a[2])
            return
        elif op == "evset":          # untraced scenarios only
            self.events[a[1] % 2].set()
            return
        elif op == "qput":
            self.queues[a[1] % 2].put_nowait(0)
            return
        elif op == "throw":
            if not self.tasks:
                return
            t = a[1] % len(self.tasks)
            if self.kinds[t] != "p":
                return
            self.do_throw(t, a[2], who)
        else:
            raise HarnessBug(f"unknown action {a}")
        if self.mode != "drain" and self.pc > self.case.get("no_obs_until", 0):
            self.observe()       # (long set-up sequences of the size-parametrised stream observe once, at their end)

    def do_throw_class(self, t, cls):
        task = self.tasks[t]
        pre = self._quiet_obs() if self.mode != "drain" else None
        try:
            self.intr.task_throw(task, cls)
        except BaseException as e:       # noqa: BLE001 - any refusal
            self.tags.add("throw-of-a-class-refused-" + type(e).__name__)
            if pre is not None:
                post = self._quiet_obs()
                if post != pre:
                    self.problem("task_throw refused but the state changed", f"{pre} -> {post}")
        else:
            # accepted: an exception the harness cannot follow is on its way
            self.tags.add("throw-of-a-class-accepted")

    def iter_observe(self, k, which):
        loop = self.loop
        try:
            if which:
                it = iter(self.ext.ready_tasks(loop=loop))
            else:
                it = iter(self.ext.get_ready_queue(loop))
            n = 0
            for _ in range(k):
                try:
                    next(it)
                    n += 1
                except StopIteration:
                    break
        except Exception as e:           # noqa: BLE001
            self.problem("ready_find-raised", f"iterating the ready queue raised {type(e).__name__}")
            return
        if n:
            self.tags.add("obs-during-ready-queue-iteration")
        if self.mode != "drain":
            self.observe()               # the iterator is suspended after n items
        close = getattr(it, "close", None)
        if close is not None:
            close()
        del it
        if self.mode != "drain":
            self.observe()

    def new_exc(self, cd):
        e = IntrStop() if cd == 2 else (IntrCancel() if cd else IntrPlain())   # cd: 0 plain, 1 CancelledError, 2 StopIteration
        e.id = self.nexc
        self.excs[e.id] = e
        self.nexc += 1
        return e

    def snapshot_others(self, t):
        """State of every future (and of its callbacks other than task t's wake-up)."""
        out = []
        for f in self.futs:
            st = "P" if not f.done() else ("C" if f.cancelled() else "D")
            cbs = [cb for cb, _ in (f._callbacks or []) if getattr(cb, "__self__", None) is not self.tasks[t]]
            out.append((st, tuple(id(c) for c in cbs)))
        return out

    def skip_throw(self, task):
        """C09 streams stay out of the window 'blocked with _must_cancel' (that is C15's business)."""
        return (self.case.get("no_throw_on_blocked_cancel_pending") and not task.done()
                and task._must_cancel and self.ak.task_is_blocked(task))

    def do_throw(self, t, cd, who):
        task = self.tasks[t]
        if self.skip_throw(task):
            return
        e = self.new_exc(cd)
        before = self.snapshot_others(t)
        pre = None
        if self.mode != "drain":
            pre = self._quiet_obs()
        was_blocked = self.ak.task_is_blocked(task)
        try:
            self.intr.task_throw(task, e)
            ok = True
        except RuntimeError:
            ok = False
        except AssertionError:
            ok = False
            self.problem("task_throw failed an internal assertion", "")
        except Exception as ex:          # noqa: BLE001 - anything else: a refusal of a kind nobody promised
            ok = False
            self.tags.add("throw-raised-" + type(ex).__name__)
        self.emit(f"throw {t} {int(cd == 1)}", f"{'ok' if ok else 'refused'} {e.id}")
        self.account_throw(t, e, ok, was_blocked, who, before, pre)

    def _quiet_obs(self):
        """observation used for 'nothing changes' comparisons (not recorded)."""
        tr, self.tracing = self.tracing, False
        n = len(self.problems)
        try:
            o = self.observe()
        finally:
            self.tracing = tr
            del self.problems[n:]
        return o

    def account_throw(self, t, e, ok, was_blocked, who, before, pre):
        task = self.tasks[t]
        if ok:
            for th in self.throws:
                if th["t"] == t and th["ok"] and not th["delivered"] and not th["superseded"]:
                    th["superseded"] = "throw"
                    self.tags.add("throw-superseded-by-throw")
            self.throws.append({"id": e.id, "t": t, "cd": isinstance(e, IntrCancel), "ok": True,
                                "delivered": 0, "superseded": None})
            if self.expect_next is not None and self.expect_next[0] == t:
                self.expect_next = None   # a later throw supersedes the interrupt
            if task._must_cancel:
                # only possible for a task blocked on a future that refused cancel()
                self.problem("task_throw accepted a %s task with a pending cancellation (_must_cancel)"
                             % ("blocked" if was_blocked else "runnable"), f"task {t} exc i{e.id}")
                if not self.throws[-1]["cd"]:
                    self.throws[-1]["superseded"] = "cancel"   # reported above, not twice
            self.tags.add("throw-on-blocked" if was_blocked else
                          ("throw-on-never-started" if t not in self.started else "throw-on-runnable"))
            # C15: the target is runnable now, exactly one handle, nothing registered
            hs = [self.classify(h._callback, h._args) for h in self.ready_list()]
            mine = [c for c in hs if c[0] in ("s", "w") and c[1] == t]
            if not (len(mine) == 1 and mine[0][0] == "s" and mine[0][2] is e):
                self.problem("task_throw: target does not have exactly the one step(exc) handle", str(mine))
            if task._fut_waiter is not None:
                self.problem("task_throw: _fut_waiter not cleared", "")
            for f in self.futs:
                for cb, _ in (f._callbacks or []):
                    if getattr(cb, "__self__", None) is task:
                        self.problem("task_throw: wake-up callback still registered", "")
            if self.snapshot_others(t) != before:
                self.problem("task_throw: the awaited object / other waiters changed", "")
        else:
            self.throws.append({"id": e.id, "t": t, "cd": isinstance(e, IntrCancel), "ok": False,
                                "delivered": 0, "superseded": None})
            fw = task._fut_waiter
            if task.done():
                why = "done"
            elif who == t:
                why = "self"
            elif task._must_cancel or (fw is not None and fw.cancelled()):
                why = "pending-cancel"
                # the cancellation itself must still arrive: the next exception raised in the target is
                # the CancelledError (unless an earlier CancelledError-derived interrupt is still queued,
                # which Task.__step lets absorb the request)
                if not any(th["t"] == t and th["ok"] and th["cd"] and not th["delivered"]
                           and not th["superseded"] for th in self.throws):
                    self.expect_cancel.add(t)
            else:
                why = "no-reason"
                self.problem("task_throw / task_interrupt refused a target that is not done, not the caller "
                             "and has no pending cancellation", f"task {t} cancelling="
                             f"{getattr(task, 'cancelling', lambda: '?')()}")
            self.tags.add("throw-refused-" + why)
            if pre is not None:
                post = self._quiet_obs()
                if post != pre:
                    self.problem("task_throw refused but the state changed", f"{pre} -> {post}")

    def note_cancel(self, t):
        """A cancel request reaches task t now: an undelivered non-CancelledError interrupt is
        replaced by the CancelledError inside Task.__step (CPython), a CancelledError-derived one
        is kept."""
        if self.tasks[t].done():
            return
        for th in self.throws:
            if th["t"] == t and th["ok"] and not th["delivered"] and not th["superseded"]:
                if not th["cd"]:
                    th["superseded"] = "cancel"
                    self.tags.add("throw-superseded-by-cancel")
                else:
                    self.tags.add("cancel-merged-into-cd-interrupt")

    # ------------------------------------------------------------------ worker bodies
    def check_expected_cancel(self, wid, code):
        if wid in self.expect_cancel:
            self.expect_cancel.discard(wid)
            if code != "C":
                self.problem("task_throw refused for a pending cancellation, but the cancellation was lost",
                             f"task {wid} got {code}")

    @staticmethod
    def unwrap(e):
        """PEP 479: a StopIteration raised inside a generator(-based awaitable) surfaces as
        RuntimeError with the StopIteration as its cause"""
        if isinstance(e, RuntimeError) and isinstance(e.__cause__, IntrStop):
            return e.__cause__
        return e

    def deliver(self, wid, e):
        e = self.unwrap(e)
        if isinstance(e, IntrStop):
            return                       # recorded when its step began (see on_begin)
        code = self.exc_code(e)
        self.log.append(f"{wid}:{code}")
        self.check_expected_cancel(wid, code)
        if code.startswith("?"):
            # nothing in a worker raises this by itself: it came out of asynkit's machinery
            self.problem(f"task_throw / task_interrupt machinery raised {type(e).__name__}", repr(e)[:200])
        if isinstance(e, (IntrPlain, IntrCancel, IntrStop)):
            hit = False
            for th in self.throws:
                if th["id"] == e.id:
                    hit = True
                    th["delivered"] += 1
                    if th["t"] != wid:
                        self.problem("interrupt delivered to a task that was not its target", code)
                    if not th["ok"]:
                        self.problem("refused interrupt was delivered", code)
            if not hit:
                self.problem("unknown interrupt delivered", code)
            if self.expect_next and self.expect_next[1] == e.id:
                self.expect_next = None

    async def worker(self, wid, prog, catch):
        self.started.add(wid)
        for op in prog:
            if op[0] == "ret":
                break
            if op[0] == "raise":
                self.marker = ("finish",)
                raise ValueError("worker raise")
            try:
                await self.do_op(wid, op)
            except BaseException as e:
                if isinstance(e, GeneratorExit):
                    raise
                if isinstance(e, _Timeout):
                    raise
                if isinstance(e, (HarnessBug, core.InfraError, _Pause)):
                    self.bug = e
                    raise
                self.deliver(wid, e)
                swallow = catch == "all" or (catch == "intr" and isinstance(self.unwrap(e), (IntrPlain, IntrCancel, IntrStop)))
                if not swallow:
                    self.marker = ("finish",)
                    raise
        self.marker = ("finish",)

    async def do_op(self, wid, op):
        k = op[0]
        if k == "s":
            self.marker = ("none",)
            await asyncio.sleep(0)
        elif k == "w" or k == "y":
            if not self.futs:
                return
            f = op[1] % len(self.futs)
            fut = self.futs[f]
            if k == "w":
                if fut.done():
                    return  # `await fut` would not suspend: nothing the kernel sees
                self.marker = ("fut", f)
                await fut
            else:
                self.marker = ("fut", f)
                self.tags.add("yield-done-future" if fut.done() else "yield-pending-future")
                await _RawYield(fut)
        elif k == "bad":
            self.marker = ("err",)
            await _BadYield()
        elif k == "i":
            if not self.tasks:
                return
            t = op[1] % len(self.tasks)
            if self.kinds[t] != "p":
                return
            await self.do_interrupt(wid, t, op[2])
        elif k == "icls":
            if not self.tasks:
                return
            t = op[1] % len(self.tasks)
            if self.kinds[t] != "p":
                return
            await self.do_interrupt_class(wid, t, NeedsArgCancel if op[2] else NeedsArg)
        elif k == "a":
            self.do_action(op[1], who=wid)
        elif k in ("ev", "qget", "wsh", "lock", "gat"):
            # stdlib primitives may suspend several times internally (Queue.get loops)
            self.in_ext.add(wid)
            try:
                await self.do_ext(wid, op)
            finally:
                self.in_ext.discard(wid)
        elif k in ("ret", "raise"):
            return
        else:
            raise HarnessBug(f"unknown op {op}")

    async def do_ext(self, wid, op):
        k = op[0]
        self.marker = ("ext",)
        if k == "ev":
            self.tags.add("wait-event")
            await self.events[op[1] % 2].wait()
        elif k == "qget":
            self.tags.add("queue-get")
            await self.queues[op[1] % 2].get()
        elif k == "wsh":
            if not self.futs:
                return
            self.tags.add("await-shielded-future")
            await asyncio.shield(self.futs[op[1] % len(self.futs)])
        elif k == "gat":
            if not self.futs:
                return
            self.tags.add("await-gather")
            fs = [self.futs[i % len(self.futs)] for i in op[1]]
            await asyncio.gather(*fs, return_exceptions=bool(op[2]))
        elif k == "lock":
            self.tags.add("lock-section")
            async with self.locks[op[1] % 2]:
                self.in_ext.discard(wid)
                for inner in op[2]:
                    await self.do_op(wid, inner)

    async def do_interrupt(self, wid, t, cd):
        task = self.tasks[t]
        if self.skip_throw(task):
            return
        e = self.new_exc(cd)
        before = self.snapshot_others(t)
        pre = self._quiet_obs() if self.mode != "drain" else None
        was_blocked = self.ak.task_is_blocked(task)
        n0 = self.handles_run
        self.marker = ("interrupt", t, e, was_blocked, before)
        try:
            await self.intr.task_interrupt(task, e)
        except (IntrPlain, IntrCancel, IntrStop):
            self.tags.add("interrupted-while-inside-task_interrupt")
            raise
        except Exception as ex:          # noqa: BLE001
            if self.handles_run != n0 or self.marker is None or self.marker[0] != "interrupt" \
                    or isinstance(ex, FutExc):
                raise
            if not isinstance(ex, RuntimeError):
                self.tags.add("throw-raised-" + type(ex).__name__)
            # refused synchronously by task_throw
            self.marker = None
            self.emit(f"throw {t} {int(cd == 1)}", f"refused {e.id}")
            self.account_throw(t, e, False, was_blocked, wid, before, pre)
            if self.mode != "drain":
                self.observe()
            return
        # resumed: the interrupt must have been raised in the target by now
        for th in self.throws:
            if th["id"] == e.id and th["ok"] and not th["delivered"] and not th["superseded"] \
                    and not self.never_started_delivery(th):
                self.problem("task_interrupt returned before the exception was raised in the target", f"i{e.id}")

    async def do_interrupt_class(self, wid, t, cls):
        task = self.tasks[t]
        pre = self._quiet_obs() if self.mode != "drain" else None
        n0 = self.handles_run
        self.marker = ("none",)          # if it is accepted after all, the caller suspends in sleep(0)
        try:
            await self.intr.task_interrupt(task, cls)
        except (IntrPlain, IntrCancel, IntrStop, FutExc):
            raise
        except BaseException as e:       # noqa: BLE001
            if self.handles_run != n0:
                raise                     # delivered to us later, not a refusal
            self.marker = None
            self.tags.add("interrupt-with-a-class-refused-" + type(e).__name__)
            if pre is not None:
                post = self._quiet_obs()
                if post != pre:
                    self.problem("task_throw refused but the state changed", f"{pre} -> {post}")
                self.observe()
            return
        self.tags.add("throw-of-a-class-accepted")

    def never_started_delivery(self, th):
        return th.get("outcome_delivered", False)

    # ------------------------------------------------------------------ the stepper
    def on_begin(self, handle):
        self.handles_run += 1
        self.cur_handle = handle
        kind = self.show_handle(handle)
        c = self.classify(handle._callback, handle._args)
        self.cur_class = c
        self.marker = None
        if self.mode != "drain":
            self.emit("begin", f"ok {kind}")
            self.mode = "task" if c[0] in ("s", "w") else "idle"
        if c[0] == "s" and isinstance(c[2], IntrStop) and not self.tasks[c[1]]._must_cancel:
            # A StopIteration instance is handed to coro.throw() now.  What the body then sees depends on what it
            # is suspended in (a C FutureIter takes it for its own completion and `await` just returns; a generator
            # turns it into RuntimeError, PEP 479; a never-started coroutine "returns"), so the delivery is
            # recorded here, from the handle, and not from the body.
            self.log.append(f"{c[1]}:i{c[2].id}")
            for th in self.throws:
                if th["id"] == c[2].id:
                    th["delivered"] += 1
                    th["outcome_delivered"] = True
            if self.expect_next and self.expect_next[1] == c[2].id:
                self.expect_next = None
        if c[0] == "o":
            self.note_cancel(c[1])
        if self.expect_next is not None:
            t, eid = self.expect_next
            if not (c[0] == "s" and c[1] == t and getattr(c[2], "id", None) == eid):
                self.problem("task_interrupt: the target was not the next thing to run", kind)
            self.expect_next = None
            if c[0] == "s" and c[1] == t:
                self.tags.add("interrupt-target-ran-next")

    def after_handle(self, handle):
        c = self.cur_class
        drain = self.mode == "drain"
        if c[0] in ("s", "w"):
            t = c[1]
            task = self.tasks[t]
            m = self.marker
            self.marker = None
            if m is None and not task.done() and t in self.in_ext:
                m = ("ext",)
            if m is None:
                if not task.done():
                    if self.problems:
                        raise _Abort()
                    raise HarnessBug(f"task {t} suspended without telling the harness")
                if t not in self.started:
                    self.outcome_delivery(t, task, c)
                self.emit("end finish", "ok")
            elif m[0] == "interrupt":
                _, tt, e, was_blocked, before = m
                self.emit(f"throw {tt} {int(isinstance(e, IntrCancel))}", f"ok {e.id}")
                self.emit(f"reinsert {tt} 0", "ok")
                self.emit("end none", "ok")
                self.account_throw(tt, e, True, was_blocked, t, before, None)
                self.expect_next = (tt, e.id)
                self.tags.add("task_interrupt")
            elif m[0] == "fut":
                self.emit(f"end fut {m[1]}", "ok")
            elif m[0] == "ext":
                if self.tracing:
                    raise HarnessBug("untraceable suspension in a traced case")
            else:
                self.emit(f"end {m[0]}", "ok")
        if drain:
            return
        self.mode = "idle"
        self.observe()
        self.run_script()

    def outcome_delivery(self, t, task, c):
        """An exception thrown into a never-started coroutine ends the task without running any
        body code: judge the delivery from the task's outcome."""
        arg = c[2] if c[0] == "s" else None
        if task.cancelled():
            e = arg if isinstance(arg, IntrCancel) else asyncio.CancelledError()
        else:
            e = self.unwrap(task.exception())
            if isinstance(arg, IntrStop) and (e is None or isinstance(e, RuntimeError)):
                # a StopIteration thrown into a coroutine that never started comes straight back out of
                # coro.throw() and Task.__step takes it for the coroutine's return: the task ends, with a result
                return                   # recorded when its step began (see on_begin)
        if e is None:
            raise HarnessBug("never-started task finished without exception")
        self.log.append(f"{t}:{self.exc_code(e)}")
        self.check_expected_cancel(t, self.exc_code(e))
        if isinstance(e, (IntrPlain, IntrCancel, IntrStop)):
            for th in self.throws:
                if th["id"] == e.id:
                    th["delivered"] += 1
                    th["outcome_delivered"] = True
                    if th["t"] != t:
                        self.problem("interrupt delivered to a task that was not its target", "")
            if self.expect_next and self.expect_next[1] == e.id:
                self.expect_next = None

    def run_script(self):
        """Called with the loop running and no current task.  Executes script actions until a
        `step` (returns to the loop) or `pause`/end of script (raises _Pause)."""
        while self.pc < len(self.script):
            a = self.script[self.pc]
            self.pc += 1
            if a[0] == "step":
                if not self.ready_list():
                    self.loop.call_soon(_noop)
                    self.emit("cscb", "ok")
                    self.observe()
                return
            if a[0] == "pause":
                self.emit("pause", "ok")
                self.explicit_pause = True
                raise _Pause()
            if a[0] == "resume":
                continue
            self.do_action(a)
        self.emit("pause", "ok")
        raise _Pause()

    def run(self):
        global _active
        asyncio.events.Handle._run = _patched_run
        _active = self
        try:
            while True:
                # outside the loop
                self.mode = "outside"
                self.observe()
                resumed = False
                while self.pc < len(self.script):
                    a = self.script[self.pc]
                    self.pc += 1
                    if a[0] in ("step", "pause"):
                        continue
                    if a[0] == "resume":
                        resumed = True
                        break
                    self.do_action(a)
                if not resumed:
                    break
                if not self.ready_list():
                    self.loop.call_soon(_noop)
                    self.emit("cscb", "ok")
                    self.observe()
                self.emit("resume", "ok")
                self.mode = "idle"
                # the first thing that happens inside run_forever is a handle: the script goes on
                # after it.  To let the script act before any handle runs we queue nothing extra:
                # `resume` is immediately followed by an implicit step.
                try:
                    self.loop.run_forever()
                except _Pause:
                    pass
                except (HarnessBug, core.InfraError):
                    raise
                except Exception as e:
                    # an exception escaped run_forever: the loop itself broke (e.g. a handle vanished
                    # from the ready queue under _run_once)
                    self.problem("event loop crashed", repr(e)[:200])
                    raise _Abort()
            self.drain()
            self.final_checks()
        except _Abort:
            self.tags.add("case-aborted-after-violation")
            if self.bug is not None:
                raise core.InfraError(f"harness bug: {self.bug!r}")
        finally:
            _active = None
            asyncio.events.Handle._run = _orig_run
            self.close()

    def drain(self):
        """Release every input and let everything finish (not part of the recorded trace)."""
        self.mode = "drain"
        loop = self.loop
        for _ in range(30):
            for f in self.futs:
                if not f.done():
                    f.set_result(None)
            for ev in self.events:
                ev.set()
            for q in self.queues:
                for _ in range(4):
                    q.put_nowait(0)
            for _ in range(2000):
                if not self.ready_list():
                    break
                loop.call_soon(loop.stop)
                try:
                    loop.run_forever()
                except (HarnessBug, core.InfraError):
                    raise
                except Exception as e:
                    self.problem("event loop crashed", repr(e)[:200])
                    raise _Abort()
            if all(t.done() for t in self.tasks) and not self.ready_list():
                return
        stuck = [i for i, t in enumerate(self.tasks) if not t.done()]
        if stuck:
            self.problem("workers did not finish after all inputs were released", str(stuck))

    def final_checks(self):
        for th in self.throws:
            if not th["ok"]:
                if th["delivered"]:
                    self.problem("refused interrupt was delivered", f"i{th['id']}")
                continue
            if th["delivered"] > 1:
                self.problem("interrupt delivered more than once", f"i{th['id']} x{th['delivered']}")
            elif th["delivered"] == 0 and not th["superseded"]:
                self.problem("interrupt lost (accepted, never raised in the target, not superseded)",
                             f"i{th['id']} target {th['t']}")
            elif th["delivered"] == 1 and th["superseded"] == "throw":
                self.problem("superseded interrupt was delivered as well", f"i{th['id']}")
        if self.handler_calls:
            self.problem("loop exception handler called", self.handler_calls[0])

    def close(self):
        # retrieve outcomes so that nothing is logged at collection time
        for t in self.tasks:
            if t.done() and not t.cancelled():
                t.exception()
        for f in self.futs:
            if f.done() and not f.cancelled():
                f.exception()
        for c in self.coros:
            try:
                c.close()
            except RuntimeError:
                pass
        try:
            self.loop.close()
        except Exception:
            pass


# ---------------------------------------------------------------------------------------
# running a case, checking it against the model


def run_case(case, trace=True):
    import signal
    w = World(case, trace=trace)
    old = signal.signal(signal.SIGALRM, _on_alarm)
    signal.alarm(CASE_TIMEOUT)
    try:
        w.run()
    except _Timeout:
        if not w.problems:
            raise core.InfraError(f"case did not finish within {CASE_TIMEOUT}s: {str(case)[:300]}")
        w.tags.add("case-hung-after-violation")   # findings recorded before the hang are kept
    finally:
        signal.alarm(0)
        signal.signal(signal.SIGALRM, old)
    return w


def key_of(problem):
    return problem["kind"]
