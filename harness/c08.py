"""C08 — ready-queue operations follow list semantics on every supported loop."""
from __future__ import annotations

import asyncio
import itertools
import json
from collections import deque
from fractions import Fraction

from . import core
from . import c08_sched as S

PROP = "C08"
LEAN_TARGETS = ["Asynkit.Props.C08", "Asynkit.Lemmas.GenEqC08", "Asynkit.Lemmas.GenEqSched", "Asynkit.Lemmas.GenEqPosPQ", "Asynkit.Lemmas.GenEqPQ", "Asynkit.Lemmas.GenEqLoopStd"]
PROPS_FILES = ["Asynkit/Props/C08.lean", "Asynkit/Lemmas/GenEqC08.lean", "Asynkit/Lemmas/GenEqSched.lean", "Asynkit/Lemmas/GenEqPosPQ.lean", "Asynkit/Lemmas/GenEqPQ.lean", "Asynkit/Lemmas/GenEqLoopStd.lean"]
DRIVERS = ["Sched"]
TRUSTED = [
    'Lean 4.33 kernel; axioms ⊆ {propext, Classical.choice, Quot.sound} (audited per theorem each run)',
    'hand-written and tied only by the differential correspondence of this run (lean/Drivers/Sched.lean): '
    "asyncio's stepping inside Asynkit/Model/Sched.lean (call_soon, Task.__step re-scheduling, _run_once) and the"
    ' program interpreter; the coroutine halves of sleep_insert/task_switch/create_task_* after their suspension '
    'point',
    'translated, not trusted: deque_pop, queue_find, call_pos (translator/py2lean.py -> Gen/Sched.lean; '
    'Lemmas/GenEqC08.lean, 3 theorems); _task_reinsert, task_reinsert, sleep_insert, task_switch, '
    "create_task_descend/start up to their suspension point, the ready_* wrappers and the three loop classes' "
    'queue methods (translator/sched2lean.py -> Gen/SchedOps.lean; Lemmas/GenEqSched.lean, 18 theorems); the '
    "priority loop's containers PosPriorityQueue / PriorityQueue (pospq2lean.py, pq2lean.py; GenEqPosPQ 41, "
    'GenEqPQ 29 theorems) - all re-translated from the source on every run and proved equal to '
    'Model/{Deque,Sched,PosPQ,PQ}',
    'modelled, not verified: collections.deque rotate/popleft/pop/append/remove/insert (remove takes the first '
    'equal element, insert clamps like list.insert); asyncio call_soon appends one Handle, Task.__step '
    're-schedules itself with call_soon on a bare yield, _run_once pops handles from the left; Future.set_result '
    "call_soon's the waiter's wakeup",
    'CPython heapq meets its documented contract (HeapLib.Lawful hypothesis of listLike_priority_loop)',
    'the RLock added around PosPriorityQueue operations is not modelled (single-threaded semantics; C18)',
]
ASSUMPTIONS = [
    "a handle is queued at most once at a time (programs never re-insert a handle that is still queued)",
    "a removed handle is re-inserted before its remover suspends (otherwise asyncio's own _run_once "
    "raises IndexError on popleft: outside the property)",
    "no timers, I/O or cancellation in the programs (ready queue only)",
]
RULE = ("case = (multi-task program over {sleep0, sleep_insert p, task_switch t [p], task_reinsert t p, call_pos p, "
        "call_soon, call_soon(task.set_name) [a callback bound to a task], call_pos(task_reinsert), create_task, create_task_descend, create_task_start, ready_find / "
        "find+remove+insert / remove+insert, block/wake, queue_items}, loop configuration) or (deque primitive, length, "
        "position); programs are drawn at random (2-6 tasks, positions 0..len+8, targets in every state) and, in the "
        "thorough tier, enumerated exhaustively for two tasks of up to two ops; non-trivial = the run itself hit a "
        "ValueError, a position relative to the queue length, a target state, a moved entry; distinct = hash of "
        "the canonical program text + configuration")

DRAWS = [0.9, 0.1, 0.5, 0.3, 0.7]


# ---------------------------------------------------------------------------------------
# deque primitives: exhaustive over lengths x positions


def deque_lines(maxlen):
    lines = []
    for n in range(maxlen + 1):
        for pos in range(-n - 2, n + 3):
            lines.append(f"dq pop {n} {pos}")
            lines.append(f"dq callpos {n} {pos}")
        for x in range(n + 1):
            lines.append(f"dq find {n} {x} 0")
            lines.append(f"dq find {n} {x} 1")
            lines.append(f"dq remove {n} {x}")
        for m, r in ((2, 0), (3, 1), (5, 4)):
            lines.append(f"dq findmod {n} {m} {r} 1")
    return lines


def show(l):
    return ",".join(str(x) for x in l)


_LOOP = None


def real_dq(line):
    """the real helper on a real deque"""
    from asynkit.loop import default
    from asynkit.tools import deque_pop
    t = line.split()
    op, n = t[1], int(t[2])
    d = deque(range(n))
    try:
        if op == "pop":
            x = deque_pop(d, int(t[3]))
            return f"e {x} {show(d)}"
        if op == "find":
            x = int(t[3])
            h = default.queue_find(d, lambda v: v == x, t[4] == "1")
            return "none" if h is None else f"some {h} {show(d)}"
        if op == "findmod":
            m, r = int(t[3]), int(t[4])
            h = default.queue_find(d, lambda v: v % m == r, t[5] == "1")
            return "none" if h is None else f"some {h} {show(d)}"
        if op == "remove":
            default.queue_remove(d, int(t[3]))
            return f"ok {show(d)}"
        if op == "callpos":
            global _LOOP
            if _LOOP is None:
                _LOOP = asyncio.SelectorEventLoop()
            loop = _LOOP
            loop._ready.clear()
            for i in range(n):
                loop.call_soon(print, i)
            default.call_pos(loop, int(t[3]), print, n)
            res = [h._args[0] for h in loop._ready]
            loop._ready.clear()
            return f"ok {show(res)}"
    except IndexError:
        return "err IndexError"
    except ValueError:
        return "err ValueError"
    except Exception as e:  # noqa: BLE001 - e.g. the helper's own assertion
        return f"exc {type(e).__name__}"
    return "bad-op"


def ref_dq(line):
    """the property: plain list semantics"""
    t = line.split()
    op, n = t[1], int(t[2])
    l = list(range(n))
    if op == "pop":
        try:
            x = l.pop(int(t[3]))
        except IndexError:
            return "err IndexError"
        return f"e {x} {show(l)}"
    if op in ("find", "findmod"):
        if op == "find":
            x, rm = int(t[3]), t[4] == "1"
            idx = [i for i, v in enumerate(l) if v == x]
        else:
            m, r, rm = int(t[3]), int(t[4]), t[5] == "1"
            idx = [i for i, v in enumerate(l) if v % m == r]
        if not idx:
            return "none"
        h = l[idx[-1]]       # documented: searched from the end
        if rm:
            del l[idx[-1]]
        return f"some {h} {show(l)}"
    if op == "remove":
        x = int(t[3])
        if x not in l:
            return "err ValueError"
        l.remove(x)
        return f"ok {show(l)}"
    if op == "callpos":
        l.insert(int(t[3]), n)
        return f"ok {show(l)}"
    return "bad-op"


def check_find_while_appending(ctx, maxlen=12):
    """queue_find(remove=True) while something is appended to the live queue during the search (what
    `call_soon_threadsafe` from another thread does, and what the helpers are written to tolerate): here
    the key function itself appends on its first call — no threads, no timing.  Oracle only (the Lean
    model has pure keys): the found element is the one asked for, exactly it is removed, the appended
    element is kept, nothing else moves."""
    from asynkit.loop import default
    n_cases = 0
    for n in range(1, maxlen + 1):
        for x in range(n):
            for rm in (True, False):
                d = deque(range(n))
                fired = []

                def key(v):
                    if not fired:
                        fired.append(1)
                        d.append(n)
                    return v == x
                try:
                    h = default.queue_find(d, key, rm)
                    obs = f"found {h} {show(d)}"
                except Exception as e:  # noqa: BLE001
                    obs = f"exc {type(e).__name__}"
                exp = f"found {x} " + show([v for v in range(n) if not (rm and v == x)] + [n])
                n_cases += 1
                case = f"findappend {n} {x} {int(rm)}"
                ctx.case(case, ["dq-find-while-appending"])
                if obs != exp:
                    ctx.violation("deque:find-while-appending",
                                  f"queue_find(key = (== {x}), remove={rm}) on deque(range({n})) while an element is "
                                  f"appended during the search does not remove exactly the found element",
                                  {"dq": case}, expected=exp, observed=obs, theorem="Asynkit.C08.queueFind_spec")
    ctx.extra["find_while_appending_cases"] = n_cases


def check_deque(ctx, maxlen):
    lines = deque_lines(maxlen)
    reals = [real_dq(ln) for ln in lines]
    for ln, r in zip(lines, reals):
        e = ref_dq(ln)
        t = ln.split()
        tags = []
        if r.startswith("err"):
            tags.append(f"dq-{t[1]}-error")
        elif t[1] in ("pop", "callpos"):
            p, n = int(t[3]), int(t[2])
            tags.append(f"dq-{t[1]}-" + ("neg" if p < 0 else "head-branch" if p < n >> 2 else "tail-branch"
                                         if t[1] == "pop" else "pos"))
        else:
            tags.append(f"dq-{t[1]}")
        ctx.case(ln, tags)
        if r != e:
            ctx.violation(f"deque:{t[1]}", f"`{ln}`: the real helper does not behave like a list",
                          {"dq": ln}, expected=e, observed=r,
                          theorem="Asynkit.C08.dequePop_eq_eraseIdx / queueFind_spec / queueRemove_spec / callPos_spec")
    if ctx.lean_ok:
        mo = ctx.lean_driver("Sched", lines)
        if len(mo) != len(lines):
            raise core.InfraError(f"driver returned {len(mo)} lines for {len(lines)}")
        bad = 0
        for ln, r, m in zip(lines, reals, mo):
            if r != m:
                if bad < 3:
                    ctx.disagreement(f"model and implementation answer `{ln}` differently", {"dq": ln},
                                     expected=m, observed=r, theorem="correspondence Drivers/Sched (Model/Deque)")
                bad += 1
        ctx.traces += len(lines)
    ctx.extra["deque_primitive_cases"] = len(lines)
    global _LOOP
    if _LOOP is not None:
        _LOOP._ready.clear()
        _LOOP.close()
        _LOOP = None


# ---------------------------------------------------------------------------------------
# programs


def real_logs(prog, extra=()):
    out = {}
    tags = set()
    for c in S.CONFIGS + tuple(extra):
        r = S.RealRunner(prog, c, draws=DRAWS)
        out[c] = r.run()
        tags |= r.tags
    return out, tags


def oracle_fails(prog, config):
    ref = S.RefSched(prog).run()
    real = S.RealRunner(prog, config, draws=DRAWS).run()
    return None if real == ref else (ref, real)


def first_diff(a, b):
    for i, (x, y) in enumerate(zip(a, b)):
        if x != y:
            return i
    return min(len(a), len(b))


def shrink(prog, config):
    items = S.flatten(prog)

    def fails(sub):
        return oracle_fails(S.rebuild(prog, sub), config) is not None
    small = S.rebuild(prog, core.ddmin(items, fails))
    # drop scripts that are now empty and never referenced is not needed: ids must stay stable
    return small


def log_tags(logs, tags):
    t = set(tags)
    for e in logs["stock"]:
        if e.startswith("r") and "=V" in e:
            t.add("ValueError-in-callback")
        elif "=V/" in e:
            t.add("ValueError")
        elif "=m1." in e:
            t.add("find-remove-insert")
        elif "=w1/" in e:
            t.add("woken")
    return t


def n_ops(prog):
    return sum(len(t["ops"]) for t in prog["tasks"]) + len(prog["init"])


def explore(ctx, progs, label="", extra=()):
    jobs = []
    pending = {}
    for prog in progs:
        ref = S.RefSched(prog).run()
        logs, tags = real_logs(prog, extra)
        tags = log_tags(logs, tags)
        text = S.prog_text(prog)
        ctx.case(text, sorted(tags))
        for c in S.CONFIGS + tuple(extra):
            if logs[c] != ref:
                pending.setdefault(c, []).append(prog)
        jobs.append((prog, logs))
    for c, cands in pending.items():
        cands.sort(key=n_ops)
        best = None
        for prog in cands[:3]:
            small = shrink(prog, c)
            if oracle_fails(small, c) is None:
                small = prog
            if best is None or n_ops(small) < n_ops(best):
                best = small
        res = oracle_fails(best, c)
        if res is None:        # not reproducible: report the original observation
            best = cands[0]
            res = (S.RefSched(best).run(), S.RealRunner(best, c, draws=DRAWS).run())
        i = first_diff(res[0], res[1])
        fam = "prio-loop" if c.startswith("prio") else "deque-loops"
        for k in range(len(cands)):
            ctx.violation(f"{fam}:program-order",
                          f"{label}on the {c} loop the execution log differs from the reference list model "
                          f"at event {i}: expected {res[0][i:i+1]} got {res[1][i:i+1]} (ops {S.op_kinds(best)})",
                          {"prog": best, "config": c}, expected=res[0], observed=res[1],
                          theorem="Asynkit.C08.sleepInsert_spec / taskSwitch_spec / descend_spec / "
                                  "taskReinsert_spec / reinsert_not_runnable / each_runs_once")
    if not ctx.lean_ok or not jobs:
        return
    lines, idx = [], []
    for prog, _ in jobs:
        enc = S.encode(prog, "list")
        lines += enc
        idx.append(len(lines) - 1)
        lines.append(f"run prio 6/5 1/2")
        idx.append(len(lines) - 1)
    mo = ctx.lean_driver("Sched", lines)
    if len(mo) != len(lines):
        raise core.InfraError(f"driver returned {len(mo)} lines for {len(lines)}")
    reported = 0
    for j, (prog, logs) in enumerate(jobs):
        ml = mo[idx[2 * j]].split(" ") if mo[idx[2 * j]] else []
        mp = mo[idx[2 * j + 1]].split(" ") if mo[idx[2 * j + 1]] else []
        for c, m in (("stock", ml), ("sched", ml), ("prio", mp)):
            if logs[c] != m:
                if reported < 3:
                    i = first_diff(m, logs[c])
                    ctx.disagreement(f"{label}model and implementation differ on the {c} loop at event {i}",
                                     {"prog": prog, "config": c}, expected=m, observed=logs[c],
                                     theorem="correspondence Drivers/Sched (Model/Sched)")
                reported += 1
        ctx.traces += 3


def soak(ctx):
    """thorough tier only: > 65 536 insertions into the priority loop's ready queue without it ever running
    empty — six equal-priority tasks doing nothing but `sleep(0)`, 11 100 rounds each (oracle only: the
    reference list model; the Lean driver is not fed 66 000-step logs)."""
    n, rounds = 6, 11100
    prog = {"tasks": [{"kind": "prio" if i % 2 else "plain", "pri": "i:0", "ops": [["sleep0"]] * rounds} for i in range(n)],
            "init": [["t", i] for i in range(n)], "locks": 0}
    ref = S.RefSched(prog).run(max_steps=10 ** 7)
    real = S.RealRunner(prog, "prio", draws=DRAWS).run()
    ctx.case(f"soak {n}x{rounds}", ["soak-65536-insertions"])
    ctx.extra["soak_events"] = len(real)
    if real != ref:
        i = first_diff(ref, real)
        ctx.violation("prio-loop:soak-order",
                      f"soak: {n} equal-priority tasks x {rounds} rounds of sleep(0) on the priority loop: the execution "
                      f"order differs from the list model at event {i} of {len(ref)}: expected {ref[i:i+1]} got {real[i:i+1]}",
                      {"soak": [n, rounds]}, expected=ref[max(0, i - 3):i + 4], observed=real[max(0, i - 3):i + 4],
                      theorem="Asynkit.C08.listLike_priority_loop / each_runs_once")


def corpus_cases():
    d = core.ROOT / "corpus" / PROP
    out = []
    if d.exists():
        for f in sorted(d.glob("*.json")):
            j = json.loads(f.read_text())
            if j.get("config", "prio") in S.CONFIGS:
                out.append(j["prog"])
    return out


def corpus_cases_extra(config):
    d = core.ROOT / "corpus" / PROP
    return [j["prog"] for j in (json.loads(f.read_text()) for f in sorted(d.glob("*.json"))) if j.get("config") == config] \
        if d.exists() else []


SMALL_ALPHA = [["sleep0"], ["si", 0], ["si", 1], ["si", 3], ["sw", 0, None], ["sw", 1, None], ["sw", 1, 1],
               ["sw", 0, 0], ["ri", 1, 0], ["ri", 0, 2], ["cp", 0, 7], ["cp", 2, 8], ["cs", 9], ["de", 2],
               ["st", 2], ["me", 1], ["bl"], ["wk", 1], ["cm", 1, 6]]


def exhaustive_small(maxops):
    """every program of two initial tasks (+ one script to create) with up to `maxops` ops each"""
    scripts = [()]
    for n in range(1, maxops + 1):
        scripts += list(itertools.product(range(len(SMALL_ALPHA)), repeat=n))
    for a in scripts:
        for b in scripts:
            yield {"tasks": [{"kind": "prio", "pri": "i:0", "ops": [SMALL_ALPHA[i] for i in a]},
                             {"kind": "plain", "pri": "i:0", "ops": [SMALL_ALPHA[i] for i in b]},
                             {"kind": "prio", "pri": "f:0.0", "ops": [["sleep0"], ["cs", 5]]}],
                   "init": [["t", 0], ["c", 1], ["t", 1]], "locks": 0}


def run(ctx):
    rng = ctx.rng
    check_deque(ctx, 64)
    check_find_while_appending(ctx)
    explore(ctx, corpus_cases(), label="corpus: ")
    explore(ctx, corpus_cases_extra("prio-seq"), label="corpus: ", extra=("prio-seq",))
    if ctx.thorough():
        n_rand, n_long = 12000, 600
    else:
        n_rand, n_long = 4000, 200
    progs = [S.gen_program(rng, "c08") for _ in range(n_rand)]
    for p in progs[:2]:
        ctx.sample(p)
    for i in range(0, len(progs), 2000):
        explore(ctx, progs[i:i + 2000])
    progs = [S.gen_program(rng, "c08", n_tasks=rng.randint(3, 6), long=True) for _ in range(n_long)]
    # long histories also run with the heap's arrival counter started near 2**16 (see RealRunner: "prio-seq")
    explore(ctx, progs, label="long: ", extra=("prio-seq",))
    if ctx.thorough():
        soak(ctx)
    progs = [S.gen_bound(rng) for _ in range(n_long * 2)]
    ctx.sample(progs[0])
    explore(ctx, progs, label="bound-method callbacks: ")
    if ctx.thorough():
        batch, n = [], 0
        for p in exhaustive_small(2):
            batch.append(p)
            if len(batch) >= 4000:
                explore(ctx, batch, label="exhaustive: ")
                n += len(batch)
                batch = []
        explore(ctx, batch, label="exhaustive: ")
        ctx.extra["exhaustive_two_task_programs_len<=2"] = n + len(batch)


def replay(ctx, data):
    case = data["case"]
    if "soak" in case:
        soak(ctx)
        return
    if "dq" in case and case["dq"].startswith("findappend"):
        check_find_while_appending(ctx)
        return
    if "dq" in case:
        ln = case["dq"]
        r, e = real_dq(ln), ref_dq(ln)
        ctx.case(ln, ["replay"])
        if r != e:
            ctx.violation(f"deque:{ln.split()[1]}", f"`{ln}`: the real helper does not behave like a list",
                          case, expected=e, observed=r, theorem="Asynkit.C08.dequePop_eq_eraseIdx")
        if ctx.lean_ok:
            m = ctx.lean_driver("Sched", [ln])[0]
            if m != r:
                ctx.disagreement(f"model and implementation answer `{ln}` differently", case, expected=m, observed=r)
        return
    cfg = case.get("config")
    explore(ctx, [case["prog"]], label="replay: ", extra=(cfg,) if cfg and cfg not in S.CONFIGS else ())
