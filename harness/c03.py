"""C03 — cancelling an eager awaitable always reaches the started coroutine."""
from __future__ import annotations

from . import c01_check as K
from . import c01 as _c01

PROP = "C03"
LEAN_TARGETS = ["Asynkit.Props.C03", "Asynkit.Lemmas.GenEqC01", "Asynkit.Lemmas.GenEqC01W", "Asynkit.Lemmas.GenEqAbcStd", "Asynkit.Lemmas.GenEqContextlib"]
PROPS_FILES = ["Asynkit/Props/C03.lean", "Asynkit/Lemmas/GenEqC01.lean", "Asynkit/Lemmas/GenEqC01W.lean", "Asynkit/Lemmas/GenEqAbcStd.lean", "Asynkit/Lemmas/GenEqContextlib.lean"]
DRIVERS = ["Eager"]
THEOREM = "Asynkit.C03.cancel_equiv_task"
TRUSTED = _c01.TRUSTED
ASSUMPTIONS = _c01.ASSUMPTIONS + [
    "a cancel() issued before the continuation Task's first step takes effect at that step; the reference "
    "is the plain Task cancelled at the same suspension point (either order of the cancel and the other "
    "events of that window is admissible)",
]
RULE = ("C01's bodies with handlers for CancelledError/BaseException that log, await and optionally suppress; "
        "cancel() injected at every instant: immediately after eager() returns (also repeated, also mixed with "
        "future completions and flag clears), after k loop iterations, right after the awaited future completed "
        "but before the Task resumed, through eager_ctx()/cancelling() exit where the k-th cancel of the script is the block exit and the earlier ones are cancel() calls made inside the block (plus a focused stream: k suppressing stages that suspend again, then a stage with cleanup); Task-like futures whose cancel() only "
        "requests; programs of 2-3 coroutines with shared futures / awaiting one another / nested children. "
        "Non-trivial = a situation of situations_hit was reached (cancel-before-first-step, "
        "cancel-after-completion-before-resume, cancel-handler-ran, handler-awaited, repeated cancel, …)")


def run(ctx):
    K.run_corpus(ctx, PROP, THEOREM)
    if ctx.thorough():
        n = (14000, 6000, 4000)
    else:
        n = (3000, 1200, 1000)
    K.run_stream(ctx, PROP, THEOREM, True, *n)
    if ctx.thorough():
        K.exhaustive(ctx, PROP, THEOREM, True)


def replay(ctx, data):
    K.replay_case(ctx, PROP, THEOREM, data)
