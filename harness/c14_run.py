"""C14 — real-code runner: producer/consumer programs over PriorityCondition / InterruptCondition
executed one ready handle at a time (wrapping ``asyncio.events.Handle._run``), with environment
faults injected between handles.  Produces

* the *oracle verdicts* (independent of the Lean model): lock owner at every exit of wait(),
  identity of the exception that leaves wait(), wake order at every notify(n), tokens vs live
  waiters at quiescence;
* the *event trace* for the trace-acceptance correspondence (lean/Drivers/Cond.lean).

A case is JSON:
  {"combo": "pc-plock"|"pc-alock"|"ic-alock",
   "cons": [{"pri": int, "py": bool, "wf": bool}, ...],          # 2..5 waiters
   "env":  [["step"], ["put", n, hold], ["putall", t, hold], ["cancel", i], ["throw", i, cls],
            ["intr", i, cls], ["drain"], ["poke", n, hold], ["setpri", i, p], ...]}
            # drain = run until the loop is idle; poke = notify(n) without adding tokens (woken waiters find the
            # predicate still false and wait again); setpri = `task.priority_value = p` of a PriorityTask consumer
Everything is deterministic given the case (single thread, no timers, no real time).
"""
from __future__ import annotations

import asyncio
import asyncio.events
import sys

from . import core  # noqa: F401  (sets nothing; keeps import order uniform)

MAX_HANDLES = 4000  # safety net: a run that needs more is an infrastructure problem


def _imports():
    from asynkit.experimental import interrupt as I
    from asynkit.experimental import priority as P
    return I, P


class Violation(Exception):
    pass


# A run that had to abandon tasks which swallow every cancellation (misbehaving code under test) leaves suspended
# coroutines behind; when they are finalised after their loop was closed CPython prints "Exception ignored …
# RuntimeError: Event loop is closed".  That is noise about an already reported observation: filtered.
_orig_unraisable = sys.unraisablehook


def _quiet_unraisable(u):
    if isinstance(u.exc_value, RuntimeError) and "Event loop is closed" in str(u.exc_value):
        return
    _orig_unraisable(u)


sys.unraisablehook = _quiet_unraisable


class Runner:
    """One execution of one case."""

    def __init__(self, case, chooser=None):
        self.I, self.P = _imports()
        self.case = case
        self.combo = case["combo"]
        self.cons = case["cons"]
        self.script = list(case.get("env", []))
        self.chooser = chooser           # generation mode: called to produce the next op
        self.recorded = []               # concrete ops actually performed (generation mode)
        self.low = []                    # low-level events of the current handle
        self.trace = []                  # model lines ("ev ...", "obs ...", "chk ...")
        self.bad = []                    # oracle failures: (kind, detail)
        self.tags = set()
        self.tokens = 0
        self.arrival = 0
        self.next_exc = 0
        self.delivered = {}              # consumer -> {eid: ("obj", exc) | ("msg", str)}
        self.tasks = {}                  # tid -> task
        self.state = {}                  # consumer tid -> dict(phase, fut, pri, arr, about, inwf)
        self.nprod = 0
        self.handles = 0
        self.keep = []                   # keep coroutine objects / exceptions alive
        self.finished = False
        self.teardown = False
        self.draining = False
        self.agents = []
        self.loop_errors = []
        self.pending_before = []

    # ------------------------------------------------------------------ helpers
    def tid_of(self, task):
        for k, t in self.tasks.items():
            if t is task:
                return k
        return None

    def cur_tid(self):
        try:
            t = asyncio.current_task()
        except RuntimeError:
            return None
        return self.tid_of(t)

    def emit(self, *ev):
        self.low.append(ev)

    def fail(self, kind, detail):
        if not self.teardown:            # tear-down cancels everything with anonymous cancels
            self.bad.append((kind, detail))

    # ------------------------------------------------------------------ instrumented lock
    def make_lock(self):
        run = self
        base = self.P.PriorityLock if self.combo == "pc-plock" else asyncio.Lock

        class TrackedLock(base):  # type: ignore[misc, valid-type]
            ghost_owner = None

            async def acquire(self):
                t = run.cur_tid()
                cur = sys.exc_info()[1]
                run.emit("acq_call", t, run.eid_of(t, cur) if cur is not None else None)
                stt = run.state.get(t)
                if cur is not None and stt is not None and stt["inwait"]:
                    stt["exc_in_wait"] = True      # `await fut` raised: wait() must end by raising
                try:
                    r = await super().acquire()
                except BaseException as e:  # noqa: BLE001
                    run.emit("acq_exc", t, run.eid_of(t, e))
                    if stt is not None and stt["inwait"]:
                        stt["exc_in_wait"] = True  # delivered while re-acquiring: wait() must end by raising
                    raise
                if self.ghost_owner is not None:
                    run.fail("mutual-exclusion", f"task {t} acquired while {self.ghost_owner} owns")
                self.ghost_owner = t
                run.emit("acq_ok", t)
                return r

            def release(self):
                t = run.cur_tid()
                if self.ghost_owner != t:
                    run.fail("release-by-non-owner", f"task {t} releases, owner {self.ghost_owner}")
                self.ghost_owner = None
                run.emit("rel", t)
                return super().release()

        return TrackedLock()

    def eid_of(self, t, exc):
        """identity number of an exception object seen in task t (None = unknown/fresh)."""
        d = self.delivered.get(t, {})
        for k, (how, v) in d.items():
            if how == "obj" and v is exc:
                return k
        if type(exc) is asyncio.CancelledError:
            for k, (how, v) in d.items():
                if how == "msg" and exc.args == (v,):
                    return k
        return None

    # ------------------------------------------------------------------ programs
    def owner_check(self, t, where):
        lk = self.lock
        if not (lk.locked() and lk.ghost_owner == t):
            self.fail("exit-without-lock",
                      f"{where}: consumer {t} left wait() with lock owner={lk.ghost_owner} locked={lk.locked()}")
        if self.combo == "pc-plock":
            ow = lk._owning() if lk._owning is not None else None
            if ow is not self.tasks[t]:
                self.fail("exit-without-lock", f"{where}: PriorityLock._owning is not consumer {t}")

    def snapshot_pending(self):
        self.pending_before = [w for w in self.waiting_now() if not self.state[w]["fut"].done()]

    def passon_check(self, t):
        """PriorityCondition: a waiter that had been notified and leaves wait() by raising must have
        handed the notification to another not-yet-notified waiter (if there is one)."""
        if not self.combo.startswith("pc"):
            return
        f = self.state[t]["fut"]
        if f is None or not f.done() or f.cancelled():
            return          # was not notified
        self.tags.add("notified-waiter-raised")
        before = [w for w in self.pending_before if w != t]
        if not before:
            return
        newly = [w for w in before if self.state[w]["fut"].done() and not self.state[w]["fut"].cancelled()]
        before.sort(key=lambda w: (self.state[w]["pri"], self.state[w]["arr"]))
        if not newly:
            self.fail("lost-notification",
                      f"consumer {t} had been notified, left wait() with an exception, and no other waiter was "
                      f"notified instead although {before} were waiting un-notified")
        elif newly != before[:1]:
            self.fail("notify-order", f"pass-on from consumer {t} woke {newly}, most urgent waiting was {before[:1]}")
        else:
            self.tags.add("notification-passed-on")

    def swallow_check(self, t):
        """an exception delivered to the waiter and raised inside wait() (at `await fut` or in the re-acquire
        loop) must leave wait(): a normal return has swallowed it"""
        if self.state[t].get("exc_in_wait"):
            self.tags.add("exception-raised-inside-wait")
            self.fail("exception-swallowed",
                      f"consumer {t}: an exception delivered to it was raised inside wait(), yet wait() returned "
                      f"normally")

    def identity_check(self, t, exc):
        if not isinstance(exc, asyncio.CancelledError):
            self.fail("foreign-exception", f"consumer {t}: wait() raised {type(exc).__name__}")
            return None
        k = self.eid_of(t, exc)
        if k is None:
            self.fail("exception-identity",
                      f"consumer {t}: wait() raised a {type(exc).__name__}{exc.args!r} that was never delivered to it")
        return k

    def my_pri(self):
        task = asyncio.current_task()
        try:
            return task.effective_priority()
        except AttributeError:
            return 0

    def mark_wait_call(self, t):
        st = self.state[t]
        self.emit("wait_call", t, self.my_pri(), self.arrival)
        self.arrival += 1
        st["inwait"] = True
        st["exc_in_wait"] = False

    async def consumer(self, t):
        st = self.state[t]
        cond = self.cond
        for _ in range(st["rounds"]):
            try:
                async with cond:
                    if st["wf"]:
                        def pred(t=t, st=st):
                            # called by Condition.wait_for with the lock held
                            if st["inwait"]:
                                # a wait() just returned normally
                                st["inwait"] = False
                                self.emit("wait_ret", t)
                                self.swallow_check(t)
                                self.owner_check(t, "wait_for predicate after wait()")
                            ok = self.tokens > 0
                            self.emit("pred", t, ok)
                            if not ok:
                                self.mark_wait_call(t)
                            return ok
                        self.emit("wf_start", t)
                        try:
                            await cond.wait_for(pred)
                        except BaseException as e:  # noqa: BLE001
                            self.keep.append(e)
                            k = self.identity_check(t, e)
                            if st["inwait"]:
                                st["inwait"] = False
                                self.emit("wait_raise", t, k)
                                self.passon_check(t)
                            self.emit("wf_raise", t, k)
                            self.owner_check(t, "wait_for raise")
                            raise
                        else:
                            self.emit("wf_ret", t)
                            self.owner_check(t, "wait_for return")
                    else:
                        while self.tokens == 0:
                            self.mark_wait_call(t)
                            try:
                                await cond.wait()
                            except BaseException as e:  # noqa: BLE001
                                self.keep.append(e)
                                st["inwait"] = False
                                k = self.identity_check(t, e)
                                self.emit("wait_raise", t, k)
                                self.owner_check(t, "wait raise")
                                self.passon_check(t)
                                raise
                            else:
                                st["inwait"] = False
                                self.emit("wait_ret", t)
                                self.swallow_check(t)
                                self.owner_check(t, "wait return")
                    self.tokens -= 1
                    self.emit("took", t)
                    await asyncio.sleep(0)      # hold the lock across an await
            except asyncio.CancelledError as e:
                self.keep.append(e)
                st["inwait"] = False
                self.emit("absorbed", t)
                if self.teardown or not st["retry"]:
                    self.emit("finished", t)
                    return
                continue
            except BaseException as e:  # noqa: BLE001
                # the code under test misbehaved (RuntimeError out of release(): the block was left without the
                # lock; AssertionError out of the lock's bookkeeping; …): recorded and judged, never a harness crash
                self.keep.append(e)
                st["inwait"] = False
                lk = self.lock
                if isinstance(e, RuntimeError) and "not acquired" in str(e):
                    self.fail("exit-without-lock",
                              f"consumer {t}: leaving `async with cond:` raised RuntimeError({e}) — the lock was not "
                              f"held (owner={lk.ghost_owner}, locked={lk.locked()})")
                else:
                    self.fail("foreign-exception", f"consumer {t}: {type(e).__name__}: {e} escaped from the "
                              f"condition/lock code")
                self.emit("finished", t)
                return
        self.emit("finished", t)

    async def producer(self, t, n, hold, tokens=None):
        try:
            await self.producer_body(t, n, hold, tokens)
        except asyncio.CancelledError:
            raise
        except BaseException as e:  # noqa: BLE001
            self.keep.append(e)
            self.fail("foreign-exception", f"producer {t}: {type(e).__name__}: {e} escaped from the condition/lock code")

    async def producer_body(self, t, n, hold, tokens=None):
        cond = self.cond
        async with cond:
            if n is None:
                self.tokens += tokens
                self.pre_notify(t, None)
                cond.notify_all()
                self.post_notify(t)
            else:
                self.tokens += n if tokens is None else tokens
                self.pre_notify(t, n)
                cond.notify(n)
                self.post_notify(t)
            if hold:
                await asyncio.sleep(0)

    # ------------------------------------------------------------------ notify-order oracle
    def waiting_now(self):
        """consumers suspended in `await fut` whose task has not run since (phase waiting)."""
        return [t for t, st in self.state.items() if st["phase"] == "waiting" and st["fut"] is not None]

    def pre_notify(self, t, n):
        self.emit("notify", t, n)
        ws = self.waiting_now()
        self._pre = {w: self.state[w]["fut"].done() for w in ws}
        cands = [w for w in ws if not self._pre[w]]
        if self.combo.startswith("pc"):
            cands.sort(key=lambda w: (self.state[w]["pri"], self.state[w]["arr"]))
        else:
            cands.sort(key=lambda w: self.state[w]["arr"])
        k = len(cands) if n is None else min(n, len(cands))
        self._expect = cands[:k]
        self._cands = cands
        if len(cands) > k >= 1:
            self.tags.add("notify-partial")
            pr = [self.state[w]["pri"] for w in cands]
            if pr != sorted(pr):
                self.tags.add("notify-order-differs-from-arrival")
            if len(set(pr)) < len(pr):
                self.tags.add("notify-tie")
        if any(self.state[w].get("thrown") for w in cands[:k]):
            self.tags.add("notify-hits-thrown-waiter")
        self._ready_before = len(self.loop._ready)

    def post_notify(self, t):
        woken = [w for w in self._pre if not self._pre[w] and self.state[w]["fut"].done()]
        if sorted(woken) != sorted(self._expect):
            self.fail("notify-order",
                      f"notify woke {sorted(woken)}, the most urgent not-yet-notified waiters are "
                      f"{self._expect} (candidates by (priority at wait start, arrival): "
                      f"{[(w, self.state[w]['pri'], self.state[w]['arr']) for w in self._cands]})")
        for w in woken:
            self.state[w]["notified"] = True
        # order in which the futures were resolved = order in which the woken tasks' wake-up callbacks were
        # appended to the ready queue by this very call (a waiter detached by task_throw has none)
        order = []
        for h in list(self.loop._ready)[self._ready_before:]:
            tid = self.tid_of(getattr(getattr(h, "_callback", None), "__self__", None))
            if tid in woken and tid not in order:
                order.append(tid)
        want = [w for w in self._expect if w in order]
        if len(order) >= 2:
            self.tags.add("notify-resolution-order-observed")
            pr = [self.state[w]["pri"] for w in sorted(order, key=lambda w: self.state[w]["arr"])]
            if pr != sorted(pr):
                self.tags.add("notify-resolution-order-differs-from-arrival")
        if order != want and sorted(order) == sorted(want):
            self.fail("notify-order",
                      f"notify resolved the futures of {order} in that order; by (priority at wait start, "
                      f"arrival) the order is {want} "
                      f"({[(w, self.state[w]['pri'], self.state[w]['arr']) for w in want]})")
        self.emit("woken", t, order)

    # ------------------------------------------------------------------ environment
    def new_exc(self, t, cls):
        I = self.I
        classes = {"I": I.InterruptException, "T": I.TimeoutInterrupt, "S": _Sub(I), "F": _Falsy(I)}
        e = classes[cls]()
        k = self.next_exc
        self.next_exc += 1
        self.delivered.setdefault(t, {})[k] = ("obj", e)
        self.keep.append(e)
        return k, e

    def phase_tag(self, t):
        st = self.state[t]
        if st["phase"] == "waiting":
            f = st["fut"]
            if f is not None and f.done() and not f.cancelled():
                return "after-notification"
            return "while-waiting"
        if st["phase"] == "acquiring":
            return "while-reacquiring"
        return None

    def do_op(self, op):
        """perform one environment op (never 'step'); returns True when it did something"""
        kind = op[0]
        if kind == "setpri":
            task = self.tasks.get(op[1])
            if task is None or task.done() or self.cons[op[1]]["py"]:
                return False
            task.priority_value = op[2]
            self.tags.add("priority-changed-while-waiting")
            return True
        if kind in ("put", "putall", "poke"):
            t = 100 + self.nprod
            self.nprod += 1
            if kind == "put":
                co = self.producer(t, op[1], op[2])
            elif kind == "poke":
                co = self.producer(t, op[1], op[2], tokens=0)
            else:
                co = self.producer(t, None, op[2], tokens=op[1])
            self.keep.append(co)
            self.tasks[t] = self.P.PriorityTask(co, loop=self.loop, priority=0)
            return True
        t = op[1]
        task = self.tasks.get(t)
        if task is None or task.done():
            return False
        ph = self.phase_tag(t)
        if kind == "cancel":
            k = self.next_exc
            self.next_exc += 1
            msg = f"c{k}"
            self.delivered.setdefault(t, {})[k] = ("msg", msg)
            if task.cancel(msg):
                self.emit("deliver", t, k, 1)
                if ph:
                    self.tags.add(f"cancel-{ph}")
            return True
        if not self.cons[t]["py"]:
            return False
        if kind == "throw":
            k, e = self.new_exc(t, op[2])
            try:
                self.I.task_throw(task, e)
            except RuntimeError:
                self.tags.add("throw-refused")
                return True
            self.emit("deliver", t, k, 0)
            self.state[t]["thrown"] = True
            if ph:
                self.tags.add(f"throw-{ph}")
            return True
        if kind == "intr":
            k, e = self.new_exc(t, op[2])

            async def agent():
                self.emit("deliver", t, k, 0)
                ph2 = self.phase_tag(t)
                try:
                    await self.I.task_interrupt(task, e)
                except RuntimeError:
                    self.emit("undeliver", t, k)
                    self.tags.add("interrupt-refused")
                    return
                if ph2:
                    self.tags.add(f"interrupt-{ph2}")

            co = agent()
            self.keep.append(co)
            a = self.loop.create_task(co)
            self.keep.append(a)
            self.agents.append(a)
            return True
        raise ValueError(op)

    def next_op(self):
        if self.chooser is not None:
            op = self.chooser(self)
            if op is not None:
                self.recorded.append(op)
            return op
        if self.script:
            return self.script.pop(0)
        return None

    # ------------------------------------------------------------------ trace construction
    def flush(self):
        """turn the low-level events of the handle that just ran into model events + one obs.
        `st["phase"]`/`st["fin"]` are the flush-time view (current up to the last finished handle)."""
        low, self.low = self.low, []
        und = {(e[1], e[2]) for e in low if e[0] == "undeliver"}
        out = []
        for e in low:
            k = e[0]
            if k == "undeliver" or (k == "deliver" and (e[1], e[2]) in und):
                continue
            t = e[1]
            st = self.state.get(t)
            if k == "deliver":
                if st is not None and st["phase"] in ("waiting", "acquiring"):
                    out.append(f"ev deliver {t} {e[2]} {e[3]}")
                continue
            if k == "notify":
                out.append(f"ev notify {t} {e[2]}" if e[2] is not None else f"ev notifyAll {t}")
                continue
            if k == "woken":
                out.append("chk woken " + (",".join(map(str, e[2])) or "-"))
                continue
            if st is None:          # a producer: only lock traffic
                if k == "acq_ok":
                    out.append(f"ev acq {t}")
                elif k == "rel":
                    out.append(f"ev rel {t}")
                continue
            ph = st["phase"]
            if k == "wait_call":
                st["fin"] = True
                st["about"] = (e[2], e[3])
            elif k == "wf_start":
                out.append(f"ev wfStart {t}")
            elif k == "pred":
                out.append(f"ev wfPred {t} {int(e[2])}")
            elif k == "wf_ret":
                out.append(f"chk wfexit {t} ret")
            elif k == "wf_raise":
                out.append(f"chk wfexit {t} raise {-1 if e[2] is None else e[2]}")
            elif k == "wait_ret":
                out.append(f"chk exit {t} ret")
                st["fin"] = False
                st["phase"] = "idle"
            elif k == "wait_raise":
                out.append(f"chk exit {t} raise {-1 if e[2] is None else e[2]}")
                st["fin"] = False
                st["phase"] = "idle"
            elif k in ("took", "absorbed", "finished"):
                if st["fin"] and k == "absorbed":
                    # wait() never got as far as releasing the lock (cannot happen: no await before it)
                    st["fin"] = False
            elif not st["fin"]:
                # lock traffic outside wait()
                if k == "acq_ok":
                    out.append(f"ev acq {t}")
                elif k == "rel":
                    out.append(f"ev rel {t}")
            elif k == "rel" and ph == "idle":
                pri, arr = st["about"]
                st.update(pri=pri, arr=arr, phase="starting", notified=False, thrown=False, fut=None)
                out.append(f"ev waitStart {t} {pri}")
            elif k == "acq_call" and ph == "waiting":
                out.append(f"ev wake {t} " + ("ok" if e[2] is None else f"exc {e[2]}"))
                st["phase"] = "reacq"
            elif k == "acq_call" and ph == "reacq":
                pass
            elif k == "acq_ok" and ph == "reacq":
                out.append(f"ev acqImm {t}")
                st["phase"] = "held"
            elif k == "acq_ok" and ph == "acquiring":
                out.append(f"ev acqOk {t}")
                st["phase"] = "held"
            elif k == "acq_exc" and ph == "acquiring":
                out.append(f"ev acqExc {t} {-1 if e[2] is None else e[2]}")
                st["phase"] = "reacq"
                self.tags.add("reacquire-retry")
            else:
                out.append(f"ev unexpected {k} {t} {ph}")
        # end of handle: settle phases
        for t, st in self.state.items():
            if st["phase"] == "starting":
                st["phase"] = "waiting"
                f = self.tasks[t]._fut_waiter
                st["fut"] = f
                if f is None:
                    out.append(f"ev unexpected nofut {t}")
            elif st["phase"] == "reacq":
                out.append(f"ev acqBlock {t}")
                st["phase"] = "acquiring"
                self.tags.add("reacquire-blocked")
        self.trace.extend(out)
        if out:
            self.trace.append("obs " + self.observe())
        self.snapshot_pending()

    def observe(self):
        ow = self.lock.ghost_owner
        parts = [f"owner={'-' if ow is None else ow}"]
        q = self.queue_futs()
        for t in sorted(self.state):
            st = self.state[t]
            ph = st["phase"]
            if ph == "idle":
                parts.append(f"{t}:idle")
                continue
            f = st["fut"]
            fs = "none" if f is None else ("cancelled" if f.cancelled() else "done" if f.done() else "pending")
            inq = int(any(f is x for x in q)) if f is not None else 0
            if ph == "acquiring":
                parts.append(f"{t}:acquiring")
            else:
                parts.append(f"{t}:{ph}:{fs}:{inq}")
        return " ".join(parts)

    def queue_futs(self):
        w = self.cond._waiters
        if self.combo.startswith("pc"):
            return [f for _, f in w.items()] if hasattr(w, "items") else [e.obj for e in w._pq]
        return list(w)

    # ------------------------------------------------------------------ the run
    def quiescent(self):
        return len(self.loop._ready) == 0 and not self.loop._scheduled

    def lost_check(self, where):
        if self.tokens > 0 and self.combo.startswith("pc"):
            blocked = [t for t in self.waiting_now()
                       if not self.state[t]["fut"].done() and not self.tasks[t].done()]
            if blocked:
                self.fail("lost-notification",
                          f"{where}: quiescent with {self.tokens} token(s) left while consumer(s) {blocked} "
                          f"are still blocked un-notified in wait()")

    def stuck_check(self, where):
        """quiescent (nothing can run), the lock is free, yet a consumer sits in wait()'s re-acquire loop: it
        will never leave wait()"""
        lk = self.lock
        if lk.locked() or lk.ghost_owner is not None:
            return
        stuck = [t for t, st in self.state.items()
                 if st["phase"] in ("acquiring", "reacq") and not self.tasks[t].done()]
        if stuck:
            self.fail("stuck-reacquiring",
                      f"{where}: nothing is runnable and the lock is free, but consumer(s) {stuck} are still blocked "
                      f"re-acquiring it inside wait(): they never leave wait()")

    async def driver(self):
        loop = self.loop
        for t, c in enumerate(self.cons):
            self.state[t] = dict(phase="idle", fut=None, pri=None, arr=None, about=None, inwait=False,
                                 fin=False, exc_in_wait=False, wf=c.get("wf", False), retry=c.get("retry", False), rounds=c.get("rounds", 1), notified=False, thrown=False)
            co = self.consumer(t)
            self.keep.append(co)
            if c["py"]:
                self.tasks[t] = self.I.create_pytask(co)
            else:
                self.tasks[t] = self.P.PriorityTask(co, loop=loop, priority=c["pri"])
        while True:
            if len(loop._ready) == 0:
                # quiescent: nothing but the driver can run
                self.lost_check("mid-run")
                self.stuck_check("mid-run")
                self.draining = False
                progressed = False
                while not progressed:
                    op = self.next_op()
                    if op is None:
                        break
                    if op[0] in ("step", "drain"):
                        continue
                    progressed = self.do_op(op) and len(loop._ready) > 0
                    self.flush()
                if not progressed:
                    break
            await asyncio.sleep(0)
        self.finished = True
        self.lost_check("end")
        self.stuck_check("end")
        # tear down: not part of the trace
        self.teardown = True
        everyone = list(self.tasks.values()) + self.agents
        for _ in range(50):
            live = [t for t in everyone if not t.done()]
            if not live:
                break
            for t in live:
                t.cancel()
            for _ in range(4):
                await asyncio.sleep(0)
        else:
            # tasks that swallow every cancellation (a waiter spinning in a re-acquire loop that can never succeed):
            # an observation about the code under test, not an infrastructure problem
            live = [k for k, t in self.tasks.items() if not t.done()]
            self.bad.append(("stuck-reacquiring", f"task(s) {live} cannot be torn down: they swallow every cancellation "
                             f"and never leave wait()"))
            for t in everyone:
                if not t.done():
                    t._log_destroy_pending = False
                    try:
                        t.get_coro().close()      # now, where what it raises can be caught (not at GC time)
                    except BaseException:  # noqa: BLE001
                        pass
            return
        await asyncio.gather(*everyone, return_exceptions=True)

    def after_handle(self, handle):
        if self.finished or self.teardown:
            self.low = []
            return
        self.handles += 1
        if self.handles > MAX_HANDLES:
            self.bad.append(("stuck-reacquiring", f"the run does not become quiescent within {MAX_HANDLES} handles"))
            raise Violation("livelock")
        cb = getattr(handle, "_callback", None)
        if getattr(cb, "__self__", None) is self.driver_task:
            self.low = []
            return
        self.flush()
        while not self.draining:
            op = self.next_op()
            if op is None or op[0] == "step":
                break
            if op[0] == "drain":
                self.draining = True     # no further environment action until the loop is idle
                break
            self.do_op(op)
            self.flush()

    def run(self):
        loop = self.loop = asyncio.SelectorEventLoop()
        loop.set_exception_handler(lambda lp, ctx: self.teardown or self.loop_errors.append(
            type(ctx.get("exception")).__name__ + ":" + str(ctx.get("message"))))
        self.lock = self.make_lock()
        if self.combo.startswith("pc"):
            self.cond = self.P.PriorityCondition(self.lock)
        else:
            self.cond = self.I.InterruptCondition(self.lock)
        orig = asyncio.events.Handle._run
        me = self

        def _run(handle):
            orig(handle)
            me.after_handle(handle)

        asyncio.events.Handle._run = _run
        try:
            co = self.driver()
            self.driver_task = loop.create_task(co)
            loop.run_until_complete(self.driver_task)
        finally:
            asyncio.events.Handle._run = orig
            try:
                loop.run_until_complete(loop.shutdown_asyncgens())
            finally:
                loop.close()
        for m in self.loop_errors:
            self.bad.append(("loop-exception-handler", m))
        return self


_FALSY = {}


def _Falsy(I):
    """an InterruptException subclass whose instances are falsy (a container-like interrupt with no payload)"""
    if I not in _FALSY:
        class EmptyBatch(I.InterruptException):
            def __len__(self):
                return 0
        _FALSY[I] = EmptyBatch
    return _FALSY[I]


def _Sub(I):
    global _SUB
    try:
        return _SUB[I]
    except (NameError, KeyError):
        pass

    class SubInterrupt(I.TimeoutInterrupt):
        pass
    try:
        _SUB[I] = SubInterrupt
    except NameError:
        _SUB = {I: SubInterrupt}
    return SubInterrupt
