"""Body programs for C01/C03: generation, canonical token text (shared with lean/Drivers/Eager.lean)
and compilation to *real* Python `async def` source (real try/except/finally/return/await).

Statement forms (JSON lists):
  ["L", n]                      log n
  ["A", f]                      v = await future f ; log G f v
  ["S"]                         await asyncio.sleep(0) ; log S
  ["Y"]                         await <object whose __await__ yields the int 1>  (a bad yield) ; log Y
  ["R", v]                      return v
  ["X", k]                      raise k()                    k in EXC
  ["T", body, hk, rr, hbody, fin]   try: body  except <hk> : log H <caught kind>; hbody; (raise if rr)
                                finally: log F; fin          hk in HK ("N" = no except clause)
  ["C", body]                   v = await sub()  where sub is a nested async def running body ; log C v
Multi-coroutine programs (oracle only) add
  ["W", j]                      v = await <awaitable of coroutine j> ; log W j v
  ["P", j]                      spawn child j  (eager(child) / create_task(child))
  ["J", j]                      v = await <spawned child j> ; log J j v

Log entries are tuples; None is rendered as 0 (the harness never uses a genuine 0 value).
"""
from __future__ import annotations

import asyncio

EXC = ["E1", "E2", "B1", "CA", "RT", "SD", "C2"]
HK = ["N", "E1", "E2", "EX", "CA", "BA", "B1", "RT"]


class E1(Exception):
    pass


class E2(Exception):
    pass


class B1(BaseException):
    """KeyboardInterrupt-like: derives from BaseException only (real KeyboardInterrupt/SystemExit
    would propagate out of the event loop)."""


class Shutdown(asyncio.CancelledError):
    """an application's CancelledError subclass carrying a reason (several args)"""


SD_ARGS = ("disk full", 28)
C2_ARGS = ("r", 7)


def make_exc(kind):
    if kind == "SD":
        return Shutdown(*SD_ARGS)
    if kind == "C2":
        return asyncio.CancelledError(*C2_ARGS)
    return EXC_CLS[kind]()


EXC_CLS = {"E1": E1, "E2": E2, "B1": B1, "CA": asyncio.CancelledError, "RT": RuntimeError}
HK_CLS = {"E1": "E1", "E2": "E2", "EX": "Exception", "CA": "CancelledError", "BA": "BaseException",
          "B1": "B1", "RT": "RuntimeError"}


def kind_of(exc) -> str:
    """canonical exception type"""
    if isinstance(exc, asyncio.CancelledError):
        # type and arguments matter: a Task hands its awaiter exactly what its coroutine raised
        if type(exc) is Shutdown:
            return "SD" if exc.args == SD_ARGS else "SD" + repr(exc.args)
        if type(exc) is asyncio.CancelledError:
            if exc.args == C2_ARGS:
                return "C2"
            return "CA" if not exc.args else "CA" + repr(exc.args)
        return "CA:" + type(exc).__name__
    if isinstance(exc, E1):
        return "E1"
    if isinstance(exc, E2):
        return "E2"
    if isinstance(exc, B1):
        return "B1"
    if isinstance(exc, RuntimeError):
        return "RT"
    return "OTHER:" + type(exc).__name__


class BadYield:
    def __await__(self):
        yield 1


# ---------------------------------------------------------------------------------------
# canonical token text


def tokens(stmts) -> list[str]:
    out = []
    for s in stmts:
        op = s[0]
        if op in ("L", "A", "R"):
            out += [op, str(s[1])]
        elif op in ("S", "Y"):
            out.append(op)
        elif op == "X":
            out += ["X", s[1]]
        elif op == "T":
            _, body, hk, rr, hbody, fin = s
            out += ["T", str(len(body))] + tokens(body) + [hk, "1" if rr else "0", str(len(hbody))] \
                + tokens(hbody) + [str(len(fin))] + tokens(fin)
        elif op == "C":
            out += ["C", str(len(s[1]))] + tokens(s[1])
        elif op in ("W", "P", "J"):
            out += [op, str(s[1])]
        else:
            raise ValueError(op)
    return out


def prog_text(stmts) -> str:
    return f"{len(stmts)} " + " ".join(tokens(stmts))


# ---------------------------------------------------------------------------------------
# real code: Python source


def _emit(stmts, ind, lines, ctr):
    pad = "    " * ind
    if not stmts:
        lines.append(pad + "pass")
    for s in stmts:
        op = s[0]
        if op == "L":
            lines.append(f"{pad}env.log.append(('L', {s[1]}))")
        elif op == "A":
            lines.append(f"{pad}_v = await env.futs[{s[1]}]")
            lines.append(f"{pad}env.log.append(('G', {s[1]}, env.val(_v)))")
        elif op == "S":
            lines.append(f"{pad}await asyncio.sleep(0)")
            lines.append(f"{pad}env.log.append(('S',))")
        elif op == "Y":
            lines.append(f"{pad}await BadYield()")
            lines.append(f"{pad}env.log.append(('Y',))")
        elif op == "R":
            lines.append(f"{pad}return {s[1]}")
        elif op == "X":
            lines.append(f"{pad}raise env.mk({s[1]!r})")
        elif op == "T":
            _, body, hk, rr, hbody, fin = s
            lines.append(f"{pad}try:")
            _emit(body, ind + 1, lines, ctr)
            if hk != "N":
                lines.append(f"{pad}except {HK_CLS[hk]} as _e:")
                lines.append(f"{pad}    env.log.append(('H', kind_of(_e)))")
                _emit(hbody, ind + 1, lines, ctr)
                if rr:
                    lines.append(f"{pad}    raise")
            lines.append(f"{pad}finally:")
            lines.append(f"{pad}    env.log.append(('F',))")
            _emit(fin, ind + 1, lines, ctr)
        elif op == "C":
            ctr[0] += 1
            name = f"_sub{ctr[0]}"
            lines.append(f"{pad}async def {name}():")
            _emit(s[1], ind + 1, lines, ctr)
            lines.append(f"{pad}_v = await {name}()")
            lines.append(f"{pad}env.log.append(('C', env.val(_v)))")
        elif op == "W":
            lines.append(f"{pad}_v = await env.top[{s[1]}]")
            lines.append(f"{pad}env.log.append(('W', {s[1]}, env.val(_v)))")
        elif op == "P":
            lines.append(f"{pad}env.spawn({s[1]})")
            lines.append(f"{pad}env.log.append(('P', {s[1]}))")
        elif op == "J":
            lines.append(f"{pad}_v = await env.children[{s[1]}]")
            lines.append(f"{pad}env.log.append(('J', {s[1]}, env.val(_v)))")
        else:
            raise ValueError(op)


_cache: dict = {}


def compile_body(stmts):
    """-> async function body(env); `env` has .log (list), .futs, .val()"""
    key = prog_text(stmts)
    fn = _cache.get(key)
    if fn is None:
        # every body first sets a ContextVar to a value of its own; every later log entry checks that the
        # value is still visible (a coroutine's steps all run in one context) - see c01_run.CheckedLog
        lines = ["async def body(env):", "    env.enter()"]
        _emit(stmts, 1, lines, [0])
        ns = {"asyncio": asyncio, "E1": E1, "E2": E2, "B1": B1, "BadYield": BadYield,
              "CancelledError": asyncio.CancelledError, "kind_of": kind_of}
        exec(compile("\n".join(lines), "<c01-body>", "exec"), ns)
        fn = ns["body"]
        fn.__source__ = "\n".join(lines)
        if len(_cache) > 20000:
            _cache.clear()
        _cache[key] = fn
    return fn


def source(stmts) -> str:
    return compile_body(stmts).__source__


# ---------------------------------------------------------------------------------------
# generation


def gen_block(rng, depth, nfut, budget, cancel_handlers=False, multi=None):
    """A statement list.  `budget` is a 1-element list holding the remaining statement count."""
    out = []
    n = rng.randint(0, 3) if depth else rng.randint(1, 4)
    for _ in range(n):
        if budget[0] <= 0:
            break
        budget[0] -= 1
        r = rng.random()
        if r < 0.16:
            out.append(["L", rng.randint(1, 9)])
        elif r < 0.46:
            out.append(["A", rng.randrange(nfut)])
        elif r < 0.56:
            out.append(["S"])
        elif r < 0.585:
            out.append(["Y"])
        elif r < 0.64:
            out.append(["R", rng.randint(1, 9)])
            break
        elif r < 0.70:
            out.append(["X", rng.choice(EXC)])
            break
        elif r < 0.90 and depth < 3:
            body = gen_block(rng, depth + 1, nfut, budget, cancel_handlers, multi)
            if cancel_handlers and rng.random() < 0.6:
                hk = rng.choice(["CA", "CA", "BA", "CA"])
            else:
                hk = rng.choice(HK)
            rr = rng.random() < 0.5
            hbody = gen_block(rng, depth + 1, nfut, budget, cancel_handlers, multi) if hk != "N" else []
            fin = gen_block(rng, depth + 1, nfut, budget, cancel_handlers, multi) if rng.random() < 0.6 else []
            # a `return`/`raise` inside finally is legal Python but swallows exceptions; keep it rare
            out.append(["T", body, hk, rr, hbody, fin])
        elif r < 0.96 and depth < 3:
            out.append(["C", gen_block(rng, depth + 1, nfut, budget, cancel_handlers, multi)])
        elif multi:
            out.append(multi(rng))
        else:
            out.append(["A", rng.randrange(nfut)])
    return out


def gen_prog(rng, nfut, size=None, cancel_handlers=False, multi=None):
    return gen_block(rng, 0, nfut, [size or rng.randint(1, 8)], cancel_handlers, multi)


def count_stmt(stmts, op) -> int:
    n = 0
    for s in stmts:
        if s[0] == op:
            n += 1
        if s[0] == "T":
            n += count_stmt(s[1], op) + count_stmt(s[4], op) + count_stmt(s[5], op)
        elif s[0] == "C":
            n += count_stmt(s[1], op)
    return n


def size(stmts) -> int:
    n = 0
    for s in stmts:
        n += 1
        if s[0] == "T":
            n += size(s[1]) + size(s[4]) + size(s[5])
        elif s[0] == "C":
            n += size(s[1])
    return n


def shrink_candidates(stmts):
    """Programs one edit smaller (for greedy shrinking)."""
    for i, s in enumerate(stmts):
        yield stmts[:i] + stmts[i + 1:]
        if s[0] == "T":
            _, body, hk, rr, hbody, fin = s
            yield stmts[:i] + body + stmts[i + 1:]
            for b2 in shrink_candidates(body):
                yield stmts[:i] + [["T", b2, hk, rr, hbody, fin]] + stmts[i + 1:]
            for h2 in shrink_candidates(hbody):
                yield stmts[:i] + [["T", body, hk, rr, h2, fin]] + stmts[i + 1:]
            for f2 in shrink_candidates(fin):
                yield stmts[:i] + [["T", body, hk, rr, hbody, f2]] + stmts[i + 1:]
            if hk != "N":
                yield stmts[:i] + [["T", body, "N", False, [], fin]] + stmts[i + 1:]
        elif s[0] == "C":
            yield stmts[:i] + s[1] + stmts[i + 1:]
            for b2 in shrink_candidates(s[1]):
                yield stmts[:i] + [["C", b2]] + stmts[i + 1:]
