"""C18 — asynkit event loops keep asyncio's thread-safety contract.

Forced-interleaving harness: the loop thread performs one queue operation of an asynkit loop while
a *real second thread* calls `loop.call_soon_threadsafe(cb)`.  The thread switch is forced at every
Python-level boundary inside asynkit code (line events of `sys.settrace`, which include every
`__lt__` comparison made by heapq): at the k-th boundary the loop thread hands over to the foreign
thread and waits until its call returned — or until it is evidently blocked on the queue's lock.
Afterwards the loop is run until idle and the oracle checks: nothing raised, every callback ran
exactly once, and the run order is a linearisation (foreign call entirely before or after the op).
"""
from __future__ import annotations

import asyncio
import sys
import threading
import time

from . import core

PROP = "C18"
LEAN_TARGETS = ["Asynkit.Props.C18", "Asynkit.Lemmas.GenEqC18"]
PROPS_FILES = ["Asynkit/Props/C18.lean", "Asynkit/Lemmas/GenEqC18.lean"]
DRIVERS = []
TRUSTED = [
    'Lean 4.33 kernel; axioms ⊆ {propext, Classical.choice, Quot.sound} (audited per theorem each run)',
    'hand-written: Model/Threads.lean (two threads, a lock, operations with an arbitrary number of internal '
    'switch points), with no correspondence driver; its assumption that only the lock holder touches the queue '
    'between acquire and release is discharged by translation: the lock-coverage table of PosPriorityQueue and '
    'the list of deque primitives used by the ready-queue helpers are regenerated from the source on every run '
    '(translator/py2lean.py -> Gen/LockCoverage.lean) and checked by `decide` (Lemmas/GenEqC18.lean, 3 theorems)',
    'collections.deque append/popleft/remove/insert/rotate and list(deque) are atomic under the GIL (C code that '
    'runs no Python-level comparison for Handle objects); threading.RLock provides mutual exclusion',
    'thread switches are *forced* at every line boundary of asynkit code by the harness; where the interpreter '
    "really switches is not modelled (partial with respect to the GIL's decisions); corroborated by a stress run",
]
ASSUMPTIONS = ["foreign threads only use call_soon_threadsafe (asyncio's contract)"]
RULE = ("case = loop kind x queue contents (1..16 entries, priorities from {-1,0,1}) x loop-thread operation x switch "
        "point k (every line event inside asynkit code during the operation) x priority of the foreign callback; "
        "non-trivial when the switch really happened inside the operation (foreign call started before the "
        "operation returned); distinct = (loop, op, n, k, foreign priority)")

import asynkit  # noqa: E402
import asynkit.loop.default as dflt  # noqa: E402
import asynkit.experimental.priority as prio  # noqa: E402
import asynkit.tools as tools  # noqa: E402
from asynkit.loop.eventloop import SchedulingSelectorEventLoop  # noqa: E402
from asynkit.experimental.priority import PrioritySelectorEventLoop, PriorityTask  # noqa: E402

ASYNKIT_FILES = tuple(m.__file__ for m in (dflt, prio, tools, asynkit.loop.eventloop, asynkit.loop.extensions,
                                           asynkit.scheduling))

BLOCK_WAIT = 0.003      # seconds after which a started foreign call is considered blocked on a lock


class Scenario:
    """One loop with n queued callbacks; `op` is run on the loop thread with a forced switch."""

    def __init__(self, kind, n, pris):
        self.kind = kind
        self.loop = {"sched": SchedulingSelectorEventLoop, "prio": PrioritySelectorEventLoop,
                     "stock": asyncio.SelectorEventLoop}[kind]()
        self.ran = []
        self.handles = []
        self.pri = {}
        if kind == "prio":
            # give callbacks priorities through a get_priority override (non-task callbacks are 0 otherwise)
            q = self.loop.ready_queue
            q.priority_boost_factor = 0
            q._get_priority = lambda h: self.pri.get(id(h), 0.0)
            orig_call_soon = self.loop._call_soon

            def _call_soon(callback, args, context):
                # the priority must be known before the handle is appended
                p = getattr(callback, "_c18_pri", 0.0)
                from asyncio import events
                handle = events.Handle(callback, args, self.loop, context)
                self.pri[id(handle)] = p
                self.loop._ready.append(handle)
                return handle
            self.loop._call_soon = _call_soon
        for i in range(n):
            self.handles.append(self.call_soon(("q", i), pris[i % len(pris)]))

    def make_cb(self, tag, pri):
        def cb():
            self.ran.append(tag)
        cb._c18_pri = float(pri)
        cb._tag = tag
        return cb

    def call_soon(self, tag, pri):
        return self.loop.call_soon(self.make_cb(tag, pri))

    def sl(self):
        from asynkit.loop.extensions import get_scheduling_loop
        return get_scheduling_loop(self.loop)

    def drain(self):
        """run the loop until idle; returns exceptions escaping the loop"""
        errs = []
        self.loop.set_exception_handler(lambda loop, ctx: errs.append(repr(ctx.get("exception") or ctx.get("message"))))
        try:
            for _ in range(200):
                if not len(self.loop._ready):
                    break
                self.loop.call_soon(self.loop.stop)
                self.loop.run_forever()
        except BaseException as e:  # noqa: BLE001
            errs.append(f"escaped:{type(e).__name__}:{e}")
        return errs

    def close(self):
        try:
            self.loop.close()
        except Exception:  # noqa: BLE001
            pass


OPS = ["popleft", "append", "call_pos0", "call_pos1", "remove_mid", "find_remove", "find", "insert_pos",
       "insert_far", "reschedule", "iterate", "iterate_partial"]


def do_op(sc: Scenario, op):
    """the loop thread's operation; returns a description of its result"""
    loop = sc.loop
    sl = sc.sl()
    hs = sc.handles
    mid = hs[len(hs) // 2]
    if op == "popleft":
        h = loop._ready.popleft()
        h._run()
        return "popped"
    if op == "append":
        sc.call_soon(("op", "append"), 0)
        return "ok"
    if op in ("call_pos0", "call_pos1"):
        sl.call_pos(int(op[-1]), sc.make_cb(("op", op), 0))
        return "ok"
    if op == "remove_mid":
        sl.queue_remove(mid)
        return ("removed", mid._callback._tag)
    if op == "find_remove":
        h = sl.queue_find(lambda x: x is mid, remove=True)
        return ("removed", h._callback._tag if h is not None else None)
    if op == "find":
        h = sl.queue_find(lambda x: x is mid, remove=False)
        return ("found", h._callback._tag if h is not None else None)
    if op == "insert_pos":
        h = sl.queue_find(lambda x: x is mid, remove=True)
        sl.queue_insert_pos(h, 0)
        return "ok"
    if op == "insert_far":
        # a position beyond the end of the queue (sleep_insert(n) on a short queue): on the priority
        # loop the insertion pops until the queue is empty
        h = sl.queue_find(lambda x: x is mid, remove=True)
        sl.queue_insert_pos(h, len(hs) + 3)
        return "ok"
    if op == "reschedule":
        if sc.kind != "prio":
            return "n/a"
        sc.pri[id(mid)] = -5.0
        loop.ready_queue.reschedule(lambda x: x is mid, -5.0)
        return "ok"
    if op == "iterate":
        return ("items", len(list(sl.queue_items())))
    if op == "iterate_partial":
        # an iteration left part-way (`for h in loop.queue_items(): ... break`, or a body that awaits):
        # the iterator object stays alive while the foreign thread submits its callback
        it = iter(sl.queue_items())
        first = next(it, None)
        sc.kept = it
        return ("first", first is not None)
    raise AssertionError(op)


def run_case(kind, n, pris, op, k, fpri):
    """Returns dict(events, switched, blocked, op_exc, foreign_exc, loop_errs, ran, expected...)"""
    sc = Scenario(kind, n, pris)
    res = {"kind": kind, "n": n, "op": op, "k": k, "fpri": fpri}
    started = threading.Event()
    done = threading.Event()
    go = threading.Event()
    ferr = []

    def foreign():
        go.wait()
        started.set()
        try:
            sc.loop.call_soon_threadsafe(sc.make_cb(("foreign", 0), fpri))
        except BaseException as e:  # noqa: BLE001
            ferr.append(f"{type(e).__name__}:{e}")
        done.set()

    th = threading.Thread(target=foreign, daemon=True)
    th.start()
    count = [0]
    switched = [False]
    blocked = [False]

    def tracer(frame, event, arg):
        if frame.f_code.co_filename not in ASYNKIT_FILES:
            return None
        return local

    def local(frame, event, arg):
        if event == "line":
            if count[0] == k and not switched[0]:
                switched[0] = True
                go.set()
                started.wait(1.0)
                if not done.wait(BLOCK_WAIT):
                    blocked[0] = True
            count[0] += 1
        return local

    op_exc = None
    op_res = None
    sys.settrace(tracer)
    try:
        op_res = do_op(sc, op)
    except BaseException as e:  # noqa: BLE001
        op_exc = f"{type(e).__name__}:{e}"
    finally:
        sys.settrace(None)
    if not switched[0]:
        go.set()
    done.wait(5.0)
    th.join(5.0)
    res["events"] = count[0]
    res["switched"] = switched[0]
    res["blocked"] = blocked[0]
    res["op_exc"] = op_exc
    res["op_res"] = op_res
    res["foreign_exc"] = ferr[0] if ferr else None
    res["foreign_done"] = done.is_set()
    ran_before = list(sc.ran)
    res["loop_errs"] = sc.drain()
    res["ran"] = ran_before + [t for t in sc.ran[len(ran_before):]]
    res["left"] = len(sc.loop._ready)
    kept = getattr(sc, "kept", None)
    if kept is not None and hasattr(kept, "close"):
        kept.close()
        if not done.is_set():
            done.wait(2.0)          # let a foreign thread that was locked out finish, so it does not linger
    sc.close()
    return res


def expected_tags(n, op):
    tags = [("q", i) for i in range(n)]
    if op in ("append", "call_pos0", "call_pos1"):
        tags.append(("op", op))
    tags.append(("foreign", 0))
    return tags


def reference_orders(res, pris):
    """The run orders the reference list model allows: the foreign call_soon_threadsafe takes
    effect entirely before or entirely after the loop thread's operation (linearisability).
    Deque loops: plain list.  Priority loop: RefPos (positional prefix, then priority, then arrival)."""
    from .refmodels import RefPos
    n, op, kind = res["n"], res["op"], res["kind"]
    mid = ("q", n // 2)
    outs = []
    for foreign_first in (True, False):
        if kind == "prio":
            m = RefPos()
            for i in range(n):
                m.append(("q", i), float(pris[i % len(pris)]))

            def foreign():
                m.append(("foreign", 0), float(res["fpri"]))

            def order():
                return list(m.prefix) + [e[2] for e in m.reg_sorted()]
        else:
            lst = [("q", i) for i in range(n)]
            m = lst

            def foreign():
                lst.append(("foreign", 0))

            def order():
                return list(lst)
        ran_inside = []
        if foreign_first:
            foreign()
        # the operation on the reference model
        if op == "popleft":
            o = order()
            ran_inside.append(o[0])
            if kind == "prio":
                m.remove_obj(o[0])
            else:
                lst.remove(o[0])
        elif op == "append":
            if kind == "prio":
                m.append(("op", op), 0.0)
            else:
                lst.append(("op", op))
        elif op in ("call_pos0", "call_pos1"):
            pos = int(op[-1])
            if kind == "prio":
                m.insert(pos, ("op", op))
            else:
                lst.insert(pos, ("op", op))
        elif op in ("remove_mid", "find_remove"):
            if kind == "prio":
                m.remove_obj(mid)
            else:
                lst.remove(mid)
        elif op == "insert_pos":
            if kind == "prio":
                m.remove_obj(mid)
                m.insert(0, mid)
            else:
                lst.remove(mid)
                lst.insert(0, mid)
        elif op == "insert_far":
            if kind == "prio":
                m.remove_obj(mid)
                m.insert(n + 3, mid)          # everything in front of it becomes positional
            else:
                lst.remove(mid)
                lst.insert(n + 3, mid)
        elif op == "reschedule" and kind == "prio":
            m.reschedule(mid, -5.0)
        if not foreign_first:
            foreign()
        outs.append(ran_inside + order())
    return outs


def judge(res, pris):
    """the property: nothing raised, nothing lost or duplicated, and the callbacks run in an order
    the reference model allows for one of the two linearisations (on the priority loop: priority
    order, positional entries first; the tie position of a rescheduled entry is unspecified)."""
    n, op = res["n"], res["op"]
    if res["op_exc"]:
        return "exception raised by the loop thread's queue operation", res["op_exc"]
    if res["foreign_exc"]:
        return "call_soon_threadsafe raised in the foreign thread", res["foreign_exc"]
    if not res["foreign_done"]:
        return "call_soon_threadsafe never returned", "deadlock"
    if res["loop_errs"]:
        return "exception escaped from / was reported by the loop", res["loop_errs"][0]
    if op in ("remove_mid", "find_remove") and isinstance(res["op_res"], tuple):
        if res["op_res"][1] != ("q", n // 2):
            return "the wrong handle was removed", res["op_res"][1]
    ran = [t for t in res["ran"]]
    orders = reference_orders(res, pris)
    exp = orders[0]
    if sorted(map(repr, ran)) != sorted(map(repr, exp)):
        lost = [t for t in exp if ran.count(t) == 0]
        dup = [t for t in set(ran) if ran.count(t) > 1]
        extra = [t for t in ran if t not in exp]
        return "callbacks lost / duplicated", {"lost": lost, "duplicated": dup, "unexpected": extra}
    if res["left"]:
        return "handles left in the ready queue", res["left"]
    if ran in orders:
        return None
    if op == "reschedule":
        # tie position of the rescheduled entry among equal priorities is unspecified: compare without it
        mid = ("q", n // 2)
        if any([t for t in ran if t != mid] == [t for t in o if t != mid] for o in orders):
            return None
    return "callbacks run in an order that is no linearisation of the reference model", \
        {"ran": ran, "allowed": orders}


def key_of(res, why):
    """defect class = which queue implementation + kind of failure"""
    fam = "heap-queue" if res["kind"] == "prio" else "deque-helpers"
    w = why.lower()
    cls = ("sequential" if w.startswith("sequential") else "exception" if "exception" in w or "raised" in w
           else "lost-or-duplicated" if "lost" in w or "wrong handle" in w or "left in" in w
           else "order" if "order" in w else "deadlock" if "never returned" in w else "other")
    return f"{fam}:{cls}"


def explore(ctx, combos, label=""):
    for kind, n, pris, op, fpri in combos:
        probe = run_case(kind, n, pris, op, -1, fpri)     # count the switch points; no switch inside
        bad = judge(probe, pris)
        ctx.case(f"{kind} {n} {pris} {op} k=-1 f={fpri}", [])
        if bad:
            ctx.violation(key_of(probe, "sequential " + bad[0]), f"{label}{bad[0]} (no switch inside the operation)",
                          {"kind": kind, "n": n, "pris": pris, "op": op, "k": -1, "fpri": fpri},
                          expected="nothing lost, nothing raised", observed=bad[1], theorem="Asynkit.C18.locked_linearizable")
            continue
        ks = range(probe["events"])
        if not ctx.thorough() and probe["events"] > 40:
            ks = sorted(set(list(range(0, 12)) + ctx.rng.sample(range(probe["events"]), 28)))
        for k in ks:
            res = run_case(kind, n, pris, op, k, fpri)
            tags = []
            if res["switched"]:
                tags.append("switch-inside-operation")
            if res["blocked"]:
                tags.append("foreign-thread-blocked-on-lock")
            ctx.case(f"{kind} {n} {pris} {op} k={k} f={fpri}", tags)
            bad = judge(res, pris)
            if bad:
                ctx.violation(key_of(res, bad[0]), f"{label}{bad[0]}",
                              {"kind": kind, "n": n, "pris": pris, "op": op, "k": k, "fpri": fpri},
                              expected="nothing lost, nothing raised, priority order",
                              observed=bad[1], theorem="Asynkit.C18.locked_linearizable")
            ctx.traces += 1


def stress(ctx, kind, seconds):
    """multi-thread stress with a minimal switch interval"""
    old = sys.getswitchinterval()
    sys.setswitchinterval(1e-6)
    loop = {"sched": SchedulingSelectorEventLoop, "prio": PrioritySelectorEventLoop}[kind]()
    ran = []
    errs = []
    loop.set_exception_handler(lambda l, c: errs.append(repr(c.get("exception") or c.get("message"))))
    stop = threading.Event()
    submitted = [0, 0, 0]

    def worker(i):
        while not stop.is_set():
            submitted[i] += 1
            v = (i, submitted[i])
            try:
                loop.call_soon_threadsafe(ran.append, v)
            except BaseException as e:  # noqa: BLE001
                errs.append(f"foreign:{type(e).__name__}:{e}")
                return
            if submitted[i] % 50 == 0:
                time.sleep(0)

    async def main():
        from asynkit.scheduling import sleep_insert
        end = time.time() + seconds
        while time.time() < end:
            await sleep_insert(1)
            await asyncio.sleep(0)
        stop.set()
        await asyncio.sleep(0.05)

    ths = [threading.Thread(target=worker, args=(i,), daemon=True) for i in range(3)]
    esc = None
    try:
        for t in ths:
            t.start()
        if kind == "prio":
            loop.run_until_complete(PriorityTask(main(), loop=loop, priority=100))
        else:
            loop.run_until_complete(main())
        for t in ths:
            t.join(2)
        # run what is left
        loop.call_soon(loop.stop)
        loop.run_forever()
    except BaseException as e:  # noqa: BLE001
        esc = f"{type(e).__name__}:{e}"
        stop.set()
    finally:
        sys.setswitchinterval(old)
        try:
            loop.close()
        except Exception:  # noqa: BLE001
            pass
    total = sum(submitted)
    ctx.case(f"stress {kind}", ["stress"])
    ctx.extra[f"stress_{kind}_submitted"] = total
    if esc:
        ctx.violation(("heap-queue" if kind == "prio" else "deque-helpers") + ":exception", f"stress: exception escaped from the {kind} loop",
                      {"stress": kind, "seconds": seconds}, expected="no exception", observed=esc,
                      theorem="Asynkit.C18.locked_linearizable")
    elif errs:
        ctx.violation(("heap-queue" if kind == "prio" else "deque-helpers") + ":exception", f"stress: errors reported on the {kind} loop",
                      {"stress": kind, "seconds": seconds}, expected="no error", observed=errs[:3],
                      theorem="Asynkit.C18.locked_linearizable")
    elif len(ran) != total or len(set(ran)) != total:
        ctx.violation(("heap-queue" if kind == "prio" else "deque-helpers") + ":lost-or-duplicated", f"stress: callbacks lost or duplicated on the {kind} loop",
                      {"stress": kind, "seconds": seconds}, expected=total, observed=len(ran),
                      theorem="Asynkit.C18.locked_linearizable")


def run(ctx):
    rng = ctx.rng
    if ctx.thorough():
        sizes = [1, 2, 3, 4, 5, 6, 8, 11, 16]
        fpris = [-2, 0, 2]
    else:
        sizes = [1, 2, 3, 5, 8]
        fpris = [-2, 0, 2]
    combos = []
    for kind in ("prio", "sched", "stock"):
        for n in sizes:
            for op in OPS:
                if op == "reschedule" and kind != "prio":
                    continue
                if kind != "prio" and not ctx.thorough() and n not in (2, 5):
                    continue
                pris = rng.choice([[0], [1, 0, -1], [0, 1], [-1, 0, 0, 1]]) if kind == "prio" else [0]
                fp = fpris if (ctx.thorough() and kind == "prio") else [rng.choice(fpris) if kind == "prio" else 0]
                for f in fp:
                    combos.append((kind, n, pris, op, f))
    ctx.sample({"combos": len(combos), "first": [str(c) for c in combos[:3]]})
    explore(ctx, combos)
    for kind in ("prio", "sched"):
        stress(ctx, kind, 3.0 if ctx.thorough() else 0.7)


def replay(ctx, data):
    c = data["case"]
    if "stress" in c:
        stress(ctx, c["stress"], c.get("seconds", 1.0))
        return
    res = run_case(c["kind"], c["n"], c["pris"], c["op"], c["k"], c["fpri"])
    ctx.case(str(c), ["replay"])
    bad = judge(res, c["pris"])
    if bad:
        ctx.violation(key_of(res, bad[0]), f"replay: {bad[0]}", c, expected="nothing lost, nothing raised",
                      observed=bad[1], theorem="Asynkit.C18.locked_linearizable")
