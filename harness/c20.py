"""C20 — coroutine state helpers classify every state of every coroutine kind.

Real coroutines, generator-based coroutines (types.coroutine) and async generators are driven
through histories (send/throw/close; asend/athrow/aclose awaitables driven by send/throw/close,
abandoned half-way); before/after every step and from inside the running body (also from inside
a callee the body is awaiting) the harness records what CPython exposes, what the three helpers
answer, and the ground truth kept by the body itself.  Oracle = helpers vs ground truth;
correspondence = attributes, helper answers and phase transitions vs lean/Drivers/CoroState.lean.
"""
from __future__ import annotations

import inspect
import json
import types
import warnings

import asynkit.coroutine as ac

from . import core

PROP = "C20"
LEAN_TARGETS = ["Asynkit.Props.C20", "Asynkit.Lemmas.GenEqC20"]
PROPS_FILES = ["Asynkit/Props/C20.lean", "Asynkit/Lemmas/GenEqC20.lean"]
DRIVERS = ["CoroState"]
TRUSTED = [
    'Lean 4.33 kernel; axioms ⊆ {propext, Classical.choice, Quot.sound} (audited per theorem each run)',
    'hand-written and tied only by the differential correspondence of this run (lean/Drivers/CoroState.lean): the'
    ' table Kind x Phase -> attributes CPython 3.12 exposes (`expose`) and the phase transitions of '
    'send/throw/close and of the asend/athrow/aclose awaitables (`deliver`) of Asynkit/Model/CoroState.lean; the '
    'helper definitions in that file are no longer trusted (next entry)',
    'translated, not trusted: coro_get_frame, _asyncgen_frame_state, coro_is_new, coro_is_suspended, '
    'coro_is_finished (with _coro_getattr and _RETURN_GENERATOR) are re-translated statement by statement from '
    'coroutine.py on every run (translator/corostate2lean.py -> Gen/CoroState.lean) and proved equal to the '
    "model's helpers on every object view the table can produce - all kinds, phases, ag_running values, prologue "
    'lengths, frame positions (Lemmas/GenEqC20.lean, 11 theorems)',
    'inspect.iscoroutine/isgenerator/isasyncgen/getcoroutinestate/getgeneratorstate/getasyncgenstate: verbatim '
    "text of CPython 3.12 Lib/inspect.py inside the translator (compared with the running interpreter's source "
    'when that is 3.12), translated by the same translator; Model/PyView.lean: which attributes an object of each'
    " type has, AttributeError on None / foreign attributes, opcode.opmap['RETURN_GENERATOR'] = 75, co_code[i] "
    'total',
    'modelled, not verified: which attribute values CPython exposes in each phase (cr_/gi_/ag_ frame, running, '
    "await, suspended, f_lasti, f_back, inspect.get*state), and genobject.c's rules for async-generator "
    'awaitables (ag_running is set by send() on a new awaitable, cleared when a value is yielded or the generator'
    ' exits)',
]
ASSUMPTIONS = [
    'CPython 3.12 attribute semantics (the harness reports any deviation as a correspondence disagreement)',
    'sequential drivers; no garbage-collection-driven finalisation during a history (objects are kept alive)',
    'the code-object stream (functions recompiled from source, >256 locals) is checked by the oracle only; the '
    'model covers prologue lengths through the universally quantified `pro` of GenEqC20',
]
RULE = ("case = kind {coroutine, generator-based coroutine, async generator} x body script (items: await, yield, "
        "observe-self, call a callee that observes the caller, await a callee that observes and suspends; per "
        "suspension a handler policy propagate/catch Exception/catch BaseException; ends by return or raise) x drive "
        "history (send/throw/close, or new asend/athrow/aclose awaitable + send/throw/close on the current awaitable, "
        "abandoning awaitables at any point); observed after every op and at every observe item; non-trivial when the "
        "run itself reached one of: paused at a yield, observed while executing (top frame / from a callee), awaitable "
        "abandoned while the generator is suspended in an await (ag_running stuck), throw through a not-started "
        "awaitable (executing with ag_running false), closed before start, GeneratorExit ignored, finished by raise; "
        "distinct = hash of the canonical case text")

KINDS = ("co", "gc", "ag")


class E1(Exception):
    pass


class Halt(BaseException):
    """used only to dispose of bodies at the end of a case"""


@types.coroutine
def tok():
    return (yield "tok")


# ---------------------------------------------------------------------------------------
# observation


def attrs_of(obj, kind):
    pre = {"co": "cr_", "gc": "gi_", "ag": "ag_"}[kind]
    frame = getattr(obj, pre + "frame")
    code = getattr(obj, pre + "code")
    if frame is None:
        fresh = onstack = 0
    else:
        li = frame.f_lasti
        fresh = int(li < 0 or code.co_code[li] == ac_opcode("RETURN_GENERATOR"))
        onstack = int(frame.f_back is not None)
    aw = getattr(obj, pre + ("yieldfrom" if kind == "gc" else "await"))
    st = {"co": inspect.getcoroutinestate, "gc": inspect.getgeneratorstate,
          "ag": getattr(inspect, "getasyncgenstate", lambda o: "AGEN_?")}[kind](obj)
    return dict(frame=int(frame is not None), running=int(bool(getattr(obj, pre + "running"))),
                awaiting=int(aw is not None), suspended=int(bool(getattr(obj, pre + "suspended", False))),
                fresh=fresh, onstack=onstack, inspect=st.split("_")[1].lower())


def ac_opcode(name):
    import opcode
    return opcode.opmap.get(name, -1)


def helpers_of(obj):
    out = []
    for f in (ac.coro_is_new, ac.coro_is_suspended, ac.coro_is_finished):
        try:
            out.append(int(bool(f(obj))))
        except Exception as e:  # noqa: BLE001
            out.append("exc:" + type(e).__name__)
    return out


def fmt_obs(a, h):
    return (f"f{a['frame']} r{a['running']} a{a['awaiting']} s{a['suspended']} n{a['fresh']} k{a['onstack']} "
            f"{a['inspect']} new={h[0]} susp={h[1]} fin={h[2]}")


class Harness:
    """Ground truth kept by the body itself and by the driver."""

    def __init__(self, kind):
        self.kind = kind
        self.obj = None
        self.started = False      # some body code has run
        self.exited = False       # the body's outermost finally has run / it returned or raised
        self.killed = False       # closed/thrown-into before any body code ran
        self.depth = 0            # >0 while the body (or a callee of it) is on the stack
        self.events = []          # body log of the current op: 'await' | 'yield' | 'exit' | ('obs', where, text, truth)
        self.dead = False

    def truth(self):
        if self.exited or self.killed:
            return "finished"
        if self.depth > 0:
            return "executing"
        return "suspended" if self.started else "new"

    def observe(self, where):
        a = attrs_of(self.obj, self.kind)
        h = helpers_of(self.obj)
        self.events.append(("obs", where, fmt_obs(a, h), self.truth(), h))


# ---------------------------------------------------------------------------------------
# bodies (one interpreter per kind; identical structure)


def parse_script(text):
    items = []
    for w in text.split():
        if ":" in w:
            k, p = w.split(":")
        else:
            k, p = w, "p"
        items.append((k, p))
    return items


async def _callee_co(H, suspend):
    H.observe("nested")
    if suspend:
        H.events.append("await")
        H.depth -= 1
        try:
            await tok()
        except BaseException:
            # clean-up code of the callee, run while the caller is being thrown into / closed
            H.depth += 1
            H.observe("cleanup")
            H.depth -= 1
            raise
        finally:
            H.depth += 1
        H.observe("nested")


@types.coroutine
def _callee_gc(H, suspend):
    H.observe("nested")
    if suspend:
        H.events.append("await")
        H.depth -= 1
        try:
            yield "tok"
        except BaseException:
            H.depth += 1
            H.observe("cleanup")
            H.depth -= 1
            raise
        finally:
            H.depth += 1
        H.observe("nested")


async def body_co(H, items):
    H.started = True
    H.depth += 1
    try:
        for k, p in items:
            if H.dead:
                return None
            try:
                if k == "o":
                    H.observe("top")
                elif k == "a":
                    H.events.append("await")
                    H.depth -= 1
                    try:
                        await tok()
                    finally:
                        H.depth += 1
                elif k == "n":
                    await _callee_co(H, False)
                elif k == "N":
                    await _callee_co(H, True)
                elif k == "r":
                    return 1
                elif k == "x":
                    raise E1()
            except Halt:
                raise
            except Exception:
                if p == "p":
                    raise
                H.observe("top")
            except BaseException:
                if p != "b":
                    raise
                H.observe("top")
    finally:
        H.events.append("exit")
        H.exited = True
        H.depth -= 1


@types.coroutine
def body_gc(H, items):
    H.started = True
    H.depth += 1
    try:
        for k, p in items:
            if H.dead:
                return None
            try:
                if k == "o":
                    H.observe("top")
                elif k == "a":
                    H.events.append("await")
                    H.depth -= 1
                    try:
                        yield from tok()
                    finally:
                        H.depth += 1
                elif k == "y":
                    H.events.append("yield")
                    H.depth -= 1
                    try:
                        yield "val"
                    finally:
                        H.depth += 1
                elif k == "n":
                    yield from _callee_gc(H, False)
                elif k == "N":
                    yield from _callee_gc(H, True)
                elif k == "r":
                    return 1
                elif k == "x":
                    raise E1()
            except Halt:
                raise
            except Exception:
                if p == "p":
                    raise
                H.observe("top")
            except BaseException:
                if p != "b":
                    raise
                H.observe("top")
    finally:
        H.events.append("exit")
        H.exited = True
        H.depth -= 1


async def body_ag(H, items):
    H.started = True
    H.depth += 1
    try:
        for k, p in items:
            if H.dead:
                return
            try:
                if k == "o":
                    H.observe("top")
                elif k == "a":
                    H.events.append("await")
                    H.depth -= 1
                    try:
                        await tok()
                    finally:
                        H.depth += 1
                elif k == "y":
                    H.events.append("yield")
                    H.depth -= 1
                    try:
                        yield "val"
                    finally:
                        H.depth += 1
                elif k == "n":
                    await _callee_co(H, False)
                elif k == "N":
                    await _callee_co(H, True)
                elif k == "r":
                    return
                elif k == "x":
                    raise E1()
            except Halt:
                raise
            except Exception:
                if p == "p":
                    raise
                H.observe("top")
            except BaseException:
                if p != "b":
                    raise
                H.observe("top")
    finally:
        H.events.append("exit")
        H.exited = True
        H.depth -= 1


BODIES = {"co": body_co, "gc": body_gc, "ag": body_ag}

SHAPES = ("plain", "free", "cell", "freecell", "args", "nested")


def _make_shapes():
    """The same three interpreters with other code-object shapes: a free variable (closure), a
    cell variable (local captured by a lambda), both, a rich signature (defaults, *args,
    keyword-only, **kwargs), a nested function definition.  Built from the source of the plain
    ones, so that the bodies stay identical."""
    import textwrap
    out = {}
    for kind, fn in BODIES.items():
        src = textwrap.dedent(inspect.getsource(fn))
        lines = src.split("\n")
        d = next(i for i, ln in enumerate(lines) if ln.startswith(("async def ", "def ")))
        deco, head, body = lines[:d], lines[d], lines[d + 1:]
        for shape in SHAPES:
            if shape == "plain":
                out[kind, shape] = fn
                continue
            h = head
            pre = []
            if shape in ("free", "freecell"):
                pre.append("    _free[0] += 1")
            if shape in ("cell", "freecell"):
                pre.append("    _k = lambda: (items, H)")
            if shape == "args":
                h = head.replace("(H, items)", "(H, items, a=1, b=(2, 3), *args, c=None, **kw)")
            if shape == "nested":
                pre += ["    def _inner(x, y=items):", "        return (x, y)"]
            fsrc = "\n".join(deco + [h] + pre + body)
            wrapper = "def _mk():\n    _free = [0]\n" + textwrap.indent(fsrc, "    ") + f"\n    return {fn.__name__}\n"
            ns = dict(globals())
            exec(compile(wrapper, f"<c20 body {kind}/{shape}>", "exec"), ns)
            out[kind, shape] = ns["_mk"]()
    return out


SHAPED = _make_shapes()

MACHINERY = ("cannot reuse", "already running", "can't send non-None", "already executing")


# ---------------------------------------------------------------------------------------
# real runner


class Real:
    def __init__(self, case):
        self.case = case
        self.kind = case["kind"]
        self.H = Harness(self.kind)
        self.obj = SHAPED[self.kind, case.get("shape", "plain")](self.H, parse_script(case["script"]))
        self.H.obj = self.obj
        self.aw = None            # current awaitable (async generators)
        self.keep = [self.obj]
        self.lines = [f"new {self.kind}"]
        self.outs = []            # per line: dict(resumed, resp, inside=[(where,text)], after=text, result=...)
        self.records = []         # for the oracle: (line, where, helpers, truth, text)
        self._after("new " + self.kind, None, "-")

    def _after(self, line, result, resp_hint):
        H = self.H
        ev = H.events
        H.events = []
        resp = "-"
        inside = []
        for e in ev:
            if isinstance(e, str):
                resp = e
            else:
                inside.append((e[1], e[2]))
                self.records.append((line, "inside-" + e[1], e[4], e[3], e[2]))
        resumed = int(bool(ev))
        a = attrs_of(self.obj, self.kind)
        h = helpers_of(self.obj)
        text = fmt_obs(a, h)
        self.records.append((line, "after", h, H.truth(), text))
        self.outs.append(dict(resumed=resumed, resp=resp, inside=inside, after=text, result=result))

    def _deliver(self, fn, throwing):
        """Run one driver call; classify the result; maintain the driver part of the ground truth."""
        H = self.H
        was_started = H.started
        try:
            v = fn()
            res = "yield" if v is not None else "none"
        except StopIteration:
            res = "stop"
        except StopAsyncIteration:
            res = "stopasync"
        except BaseException as e:  # noqa: BLE001
            msg = str(e)
            if isinstance(e, (RuntimeError, TypeError, ValueError)) and any(m in msg for m in MACHINERY):
                res = "rejected"
            else:
                res = "raise:" + type(e).__name__
        if throwing and not was_started and not H.started and res != "rejected" and res != "none-noop":
            H.killed = True
        return res

    def op(self, o):
        t = o.split()
        k = t[0]
        obj = self.obj
        if self.kind in ("co", "gc"):
            if k == "send":
                res = self._deliver(lambda: obj.send(None), False)
            elif k == "throw":
                res = self._deliver(lambda: obj.throw(E1()), True)
            elif k == "throwx":
                res = self._deliver(lambda: obj.throw(GeneratorExit()), True)
            elif k == "close":
                res = self._deliver(lambda: obj.close(), True)
            elif k == "csclose" and self.kind == "co":
                # the library's own way to abandon a coroutine: CoroStart.close()
                cs = object.__new__(ac.CoroStart)
                cs.coro, cs.context, cs.start_result = obj, None, None
                res = self._deliver(cs.close, True)
                k = "close"
            else:
                return
            line = k
        else:
            if k in ("asend", "athrow", "aclose"):
                self.aw = (obj.asend(None) if k == "asend" else obj.athrow(E1()) if k == "athrow" else obj.aclose())
                self.keep.append(self.aw)
                self.aw_mode = k
                self.aw_used = False
                self.lines.append("aw " + k)
                self._after("aw " + k, "none", "-")
                return
            if self.aw is None or k not in ("send", "throw", "throwx", "close"):
                return
            aw = self.aw
            if k == "send":
                # first send on an athrow()/aclose() awaitable delivers the exception
                throwing = self.aw_mode != "asend" and not self.aw_used
                res = self._deliver(lambda: aw.send(None), throwing)
            elif k == "throw":
                res = self._deliver(lambda: aw.throw(E1()), True)
            elif k == "throwx":
                res = self._deliver(lambda: aw.throw(GeneratorExit()), True)
            else:
                res = self._deliver(lambda: aw.close(), False)
                if res == "none":
                    res = "none"
            self.aw_used = True
            line = "a." + k
        self.lines.append(line)
        self._after(line, res, "-")

    def run(self):
        for o in self.case["ops"]:
            self.op(o)
        self.dispose()
        return self

    def dispose(self):
        self.H.dead = True
        with warnings.catch_warnings():
            warnings.simplefilter("ignore")
            for _ in range(4):
                try:
                    if self.kind == "ag":
                        a = self.obj.asend(None)
                        try:
                            a.throw(Halt())
                        except BaseException:  # noqa: BLE001
                            pass
                    else:
                        try:
                            self.obj.throw(Halt())
                        except BaseException:  # noqa: BLE001
                            pass
                except BaseException:  # noqa: BLE001
                    pass
        self.keep.clear()


# ---------------------------------------------------------------------------------------
# oracle: exactly one of new / suspended / finished / executing, and the true one


def oracle(real: Real, tags: set):
    """All misclassifications of the run, one per defect class (see key_of)."""
    bads, seen = [], set()

    def add(b):
        k = key_of(real.case, b)
        if k not in seen:
            seen.add(k)
            bads.append(b)

    for idx, (line, where, h, truth, text) in enumerate(real.records):
        if any(isinstance(x, str) for x in h):
            add(dict(rec=idx, line=line, where=where, truth=truth, what=f"a helper raised: {h}", text=text, h=h))
            continue
        verdicts = [n for n, v in zip(("new", "suspended", "finished"), h) if v]
        got = verdicts[0] if len(verdicts) == 1 else ("executing" if not verdicts else "+".join(verdicts))
        if got != truth:
            add(dict(rec=idx, line=line, where=where, truth=truth, got=got, text=text, h=h,
                     what=f"{real.kind}: after/inside `{line}` ({where}) the helpers say {got} "
                          f"(new,suspended,finished={h}) but the object is {truth}"))
        if where == "inside-top":
            tags.add("observed-executing")
        if where == "inside-nested":
            tags.add("observed-executing-from-callee")
        if where == "inside-cleanup":
            tags.add("observed-from-callee-cleanup" + ("-frame-unlinked" if " k0 " in text else ""))
        if idx == 0 and real.case.get("shape", "plain") != "plain":
            tags.add("new-with-prologue-" + real.case["shape"])
    for o, line in zip(real.outs, real.lines):
        if o["resp"] == "yield":
            tags.add("paused-at-yield")
        if o["result"] and o["result"].startswith("raise:RuntimeError"):
            tags.add("GeneratorExit-ignored-or-runtime-error")
        if o["result"] == "raise:E1" and o["resumed"]:
            tags.add("finished-by-raise")
        if o["result"] == "rejected":
            tags.add("op-rejected-by-interpreter")
        if " r1 " in o["after"] and " s1 " in o["after"]:
            tags.add("suspended-with-ag_running-set")
        if any(" r0 " in t and " k1 " in t for _, t in o["inside"]) and real.kind == "ag":
            tags.add("executing-with-ag_running-clear")
    if real.H.killed:
        tags.add("closed-before-start")
    return bads


def judge(case):
    real = Real(case).run()
    tags = set()
    return real, tags, oracle(real, tags)


def key_of(case, bad):
    """defect class = kind + true phase + what the helpers said there"""
    return f"{case['kind']}:{bad['truth']}-reported-as-{bad.get('got', 'error')}"


def shrink(case, bad):
    key = key_of(case, bad)

    def fails(c):
        return any(key_of(c, b) == key for b in judge(c)[2])

    def one_by_one(lst, mk):
        i = 0
        while i < len(lst):
            cand = lst[:i] + lst[i + 1:]
            if fails(mk(cand)):
                lst = cand
            else:
                i += 1
        return lst

    cur = dict(case)
    while True:
        before = (cur["script"], tuple(cur["ops"]))
        if len(cur["ops"]) >= 2:
            cur["ops"] = core.ddmin(cur["ops"], lambda ops: fails(dict(cur, ops=ops)))
        cur["ops"] = one_by_one(cur["ops"], lambda ops: dict(cur, ops=ops))
        items = cur["script"].split()
        if len(items) >= 2:
            items = core.ddmin(items, lambda it: fails(dict(cur, script=" ".join(it))))
        items = one_by_one(items, lambda it: dict(cur, script=" ".join(it)))
        for i, w in enumerate(items):          # drop handler policies that do not matter
            if ":" in w:
                cand = items[:i] + [w.split(":")[0]] + items[i + 1:]
                if fails(dict(cur, script=" ".join(cand))):
                    items = cand
        cur["script"] = " ".join(items)
        # remove one script item together with one op (a suspension and the send that passes it)
        done = False
        for i in range(len(items)):
            for j in range(len(cur["ops"])):
                cand = dict(cur, script=" ".join(items[:i] + items[i + 1:]), ops=cur["ops"][:j] + cur["ops"][j + 1:])
                if fails(cand):
                    cur, done = cand, True
                    break
            if done:
                break
        if cur.get("shape", "plain") != "plain" and fails(dict(cur, shape="plain")):
            cur["shape"] = "plain"
        if (cur["script"], tuple(cur["ops"])) == before:
            break
    return cur


# ---------------------------------------------------------------------------------------
# generation


def gen_case(rng, kind=None):
    kind = kind or rng.choice(KINDS)
    items = []
    for _ in range(rng.randint(0, 6)):
        r = rng.random()
        pol = rng.choice(["p", "p", "c", "b"])
        if r < 0.25:
            items.append("o")
        elif r < 0.5:
            items.append("a:" + pol)
        elif r < 0.72 and kind != "co":
            items.append("y:" + pol)
        elif r < 0.82:
            items.append("n:" + pol)
        else:
            items.append("N:" + pol)
    items.append(rng.choice(["r", "r", "x"]))
    ops = []
    for _ in range(rng.randint(0, 10)):
        r = rng.random()
        if kind != "ag":
            ops.append("send" if r < 0.6 else "throw" if r < 0.75 else "throwx" if r < 0.85 else "close" if r < 0.95
                       else "csclose")
        else:
            ops.append("asend" if r < 0.25 else "athrow" if r < 0.32 else "aclose" if r < 0.39
                       else "send" if r < 0.76 else "throw" if r < 0.86 else "throwx" if r < 0.94 else "close")
    return {"kind": kind, "script": " ".join(items), "ops": ops, "shape": rng.choice(SHAPES)}


def case_text(case):
    return json.dumps(case, sort_keys=True)


def model_lines(real: Real):
    """Driver lines: the op plus what the body did (its response), as logged by the body itself."""
    out = []
    for ln, o in zip(real.lines, real.outs):
        out.append(ln if ln.startswith("new") else f"op {ln} {o['resp']}")
    return out


def explore(ctx, cases, label=""):
    all_lines, spans, reals = [], [], []
    for case in cases:
        real, tags, bads = judge(case)
        ctx.case(case_text(case), sorted(tags))
        ctx.tag("kind-" + case["kind"])
        for bad in bads:
            k0 = key_of(case, bad)
            if any(v["key"] == k0 for v in ctx.violations):
                ctx.violation(k0, "", None)
            else:
                small = shrink(case, bad)
                b2 = next((b for b in judge(small)[2] if key_of(small, b) == k0), None)
                if b2 is None:
                    small, b2 = case, bad
                ctx.violation(key_of(small, b2), label + b2["what"],
                              dict(small, failing_op=b2["line"], observed_from=b2["where"], attributes=b2["text"]),
                              expected=b2["truth"], observed=b2.get("got"),
                              theorem="Asynkit.C20.helpers_exact")
        ml = model_lines(real)
        spans.append((len(all_lines) + 1, len(ml)))
        all_lines.append("reset")
        all_lines.extend(ml)
        reals.append(real)
    if not getattr(ctx, "lean_ok", True) or not cases:
        return
    mouts = ctx.lean_driver("CoroState", all_lines)
    if len(mouts) != len(all_lines):
        raise core.InfraError(f"driver returned {len(mouts)} lines for {len(all_lines)}")
    reported = 0
    for (start, n), real in zip(spans, reals):
        mo = mouts[start:start + n]
        for i, (ln, o, m) in enumerate(zip(real.lines, real.outs, mo)):
            # model line:  resumed=<0/1> | <top> | <nested> | <cleanup> | <after>
            parts = [x.strip() for x in m.split("|")]
            exp = None
            if len(parts) != 5:
                exp, got = "well-formed answer", m
            elif parts[0] != f"resumed={o['resumed']}":
                exp, got = parts[0], f"resumed={o['resumed']}"
            elif parts[4] != o["after"]:
                exp, got = parts[4], o["after"]
            else:
                for where, text in o["inside"]:
                    want = parts[{"top": 1, "nested": 2, "cleanup": 3}[where]]
                    if text != want:
                        exp, got = f"{where}: {want}", f"{where}: {text}"
                        break
            if exp is not None:
                if reported < 3:
                    ctx.disagreement(f"{label}model and interpreter/helpers differ at `{ln}` ({real.kind})",
                                     dict(real.case, driver_lines=model_lines(real)[: i + 1]),
                                     expected=exp, observed=got, theorem="correspondence Drivers/CoroState")
                reported += 1
                break
    ctx.traces += len(cases)


def corpus_cases():
    d = core.ROOT / "corpus" / PROP
    out = []
    if d.exists():
        for f in sorted(d.glob("*.json")):
            out.append(json.loads(f.read_text()))
    return out


def exhaustive_cases(maxlen):
    import itertools
    scripts = {"co": ["o a N r", "a:c a x", "o n a:b a r", "r"],
               "gc": ["o a y N r", "y:c a x", "y:b y r", "r"],
               "ag": ["o a y N r", "y:c a x", "a:b y:b y r", "y y r", "r"]}
    alpha = {"co": ["send", "throw", "close"], "gc": ["send", "throw", "close"],
             "ag": ["asend", "athrow", "aclose", "send", "throw", "close"]}
    for kind in KINDS:
        for sc in scripts[kind]:
            for n in range(0, maxlen + 1):
                for ops in itertools.product(alpha[kind], repeat=n):
                    yield {"kind": kind, "script": sc, "ops": list(ops)}
    # every body shape (code-object prologue / signature), short histories
    first = {"co": ["send", "throw", "throwx", "close", "csclose"], "gc": ["send", "throw", "throwx", "close"],
             "ag": ["asend", "athrow", "aclose"]}
    for kind in KINDS:
        for shape in SHAPES:
            for sc in ("o a r", "N:c y r" if kind != "co" else "N:c a r"):
                yield {"kind": kind, "script": sc, "ops": [], "shape": shape}
                for o1 in first[kind]:
                    for o2 in (["send", "throw", "throwx", "close"]):
                        yield {"kind": kind, "script": sc, "ops": [o1, o2], "shape": shape}
    # an operation arriving while the object delegates to a callee that has clean-up code
    for kind in KINDS:
        start = ["send"] if kind != "ag" else ["asend", "send"]
        ends = (["close"], ["throwx"], ["throw"], ["csclose"]) if kind == "co" else \
            (["close"], ["throwx"], ["throw"]) if kind == "gc" else \
            (["throwx"], ["throw"], ["asend", "throwx"], ["aclose", "throwx"], ["athrow", "throwx"],
             ["aclose", "send"], ["athrow", "send"], ["close", "asend", "throwx"])
        for sc in ("N r", "N:c o a r", "N:b N:b r", "o N:b a:b r"):
            for e in ends:
                for tail in ([], ["send"], ["throwx"]):
                    yield {"kind": kind, "script": sc, "ops": start + list(e) + tail, "shape": "plain"}
    # multi-step fault sequences on an async generator: run to a yield, throw an exception through a
    # NOT-YET-STARTED awaitable (ag_running stays clear) so that the body handles it and suspends in a
    # callee, then throw / close the same way
    for sc in ("y:c N r", "y:b N:b y r", "o y:c N:c N r", "y:c a N r"):
        for shape in ("plain", "freecell"):
            for aw1 in ("asend", "athrow", "aclose"):
                for mid in (["throw"], ["throw", "send"], ["throw", "throw"]):
                    for aw2 in ([], ["asend"], ["athrow"], ["aclose"]):
                        for end in (["throwx"], ["throw"], ["send"], ["close", "asend", "throwx"]):
                            yield {"kind": "ag", "script": sc, "shape": shape,
                                   "ops": ["asend", "send", aw1] + mid + aw2 + end}


# ---------------------------------------------------------------------------------------
# code objects: functions compiled from source again and again in a fixed sequence of shapes
# (a freed code object's address is reused by the next one), and one function with more than 256
# local variables whose captured variable needs an EXTENDED_ARG in the prologue

def _wide(kind, nlocals=300, captured=None):
    """a function of `kind` with `nlocals` locals v0.. whose local number `captured` (default: the last)
    is captured by a lambda, i.e. is a cell: the prologue has `MAKE_CELL <captured>`"""
    captured = nlocals - 1 if captured is None else captured
    body = "".join(f"    v{i} = {i}\n" for i in range(nlocals))
    tail = {"ag": "    yield k()\n", "co": "    await tok()\n    return k()\n",
            "gc": "    yield 'tok'\n    return k()\n"}[kind]
    head = {"ag": "async def f():\n", "co": "async def f():\n", "gc": "@types.coroutine\ndef f():\n"}[kind]
    return head + body + f"    k = lambda: v{captured}\n" + tail


def _manyfree(kind, nfree):
    """a function of `kind` closing over `nfree` variables of its maker: `COPY_FREE_VARS <nfree>`"""
    outer = "".join(f"    w{i} = {i}\n" for i in range(nfree))
    use = " + ".join(f"w{i}" for i in range(nfree))
    inner = {"ag": f"    async def f():\n        yield {use}\n",
             "co": f"    async def f():\n        await tok()\n        return {use}\n",
             "gc": f"    @types.coroutine\n    def f():\n        yield 'tok'\n        return {use}\n"}[kind]
    return "def mk():\n" + outer + inner + "    return f\nf = mk()\n"


CODE_TEMPLATES = {
    "ag-plain": "async def f():\n    yield 1\n",
    "ag-free": "def mk():\n    t = [0]\n    async def f():\n        t[0] += 1\n        yield t[0]\n    return f\nf = mk()\n",
    "ag-cell": "async def f():\n    a = 1\n    k = lambda: a\n    yield k()\n",
    "ag-two-cells-free": ("def mk():\n    t = [0]\n    async def f():\n        a = 1\n        b = 2\n"
                          "        k = lambda: (a, b, t)\n        yield k()\n    return f\nf = mk()\n"),
    "ag-wide-cell": _wide("ag"),
    "co-plain": "async def f():\n    await tok()\n",
    "co-cell": "async def f():\n    a = 1\n    k = lambda: a\n    await tok()\n    return k()\n",
    "co-wide-cell": _wide("co"),
    "gc-free": "def mk():\n    t = [0]\n    @types.coroutine\n    def f():\n        t[0] += 1\n        yield 'tok'\n    return f\nf = mk()\n",
    "gc-wide-cell": _wide("gc"),
}
# operands of the prologue instructions around the value of the RETURN_GENERATOR opcode itself (75 in
# CPython 3.12): the captured variable is local number 74 / 75 / 76, or there are 74 / 75 / 76 free variables
for _k in ("ag", "co", "gc"):
    for _n, _c in ((75, 74), (76, 75), (77, 75), (77, 76)):
        CODE_TEMPLATES[f"{_k}-cell{_c}-of-{_n}"] = _wide(_k, _n, _c)
    for _n in (74, 75, 76):
        CODE_TEMPLATES[f"{_k}-free{_n}"] = _manyfree(_k, _n)
CODE_SEQUENCE = ["ag-plain", "ag-free", "ag-cell", "ag-two-cells-free", "co-plain", "ag-free", "ag-plain", "co-cell",
                 "gc-free", "ag-two-cells-free", "ag-cell", "ag-plain", "ag-wide-cell", "co-wide-cell", "gc-wide-cell"]
CODE_SEQUENCE += [n for n in CODE_TEMPLATES if "-cell7" in n or "-free7" in n]


def code_stream(ctx, rounds, upto=None):
    """Each step: compile a template, create the object, check new / (after one resume) suspended /
    (after close) finished, drop everything, collect garbage."""
    import gc
    n = 0
    passed = set()           # templates that were classified correctly earlier in the stream
    for r in range(rounds):
        for name in CODE_SEQUENCE:
            n += 1
            if upto is not None and n > upto:
                return
            ns = {"tok": tok, "types": types}
            exec(compile(CODE_TEMPLATES[name], f"<c20 code {name} #{n}>", "exec"), ns)
            obj = ns["f"]()
            kind = name[:2]
            seen = []

            def look(truth):
                h = helpers_of(obj)
                verdicts = [v for v, b in zip(("new", "suspended", "finished"), h) if b is True or b == 1]
                got = verdicts[0] if len(verdicts) == 1 and not any(isinstance(x, str) for x in h) else (
                    "executing" if not verdicts and not any(isinstance(x, str) for x in h) else str(h))
                seen.append((truth, got, fmt_obs(attrs_of(obj, kind), h)))

            look("new")
            try:
                if kind == "ag":
                    a = obj.asend(None)
                    try:
                        a.send(None)
                    except StopIteration:
                        pass
                else:
                    obj.send(None)
                look("suspended")
                if kind == "ag":
                    a = obj.aclose()
                    try:
                        a.send(None)
                    except StopIteration:
                        pass
                else:
                    obj.close()
                look("finished")
            except Exception as e:  # noqa: BLE001
                raise core.InfraError(f"code stream {name}: {type(e).__name__}: {e}")
            ctx.case(f"code:{name}:{n}", ["code-object-shape-" + name, "recompiled-code-object"] if r else
                     ["code-object-shape-" + name])
            for truth, got, text in seen:
                if got != truth:
                    ctx.violation(f"{kind}:{truth}-reported-as-{got}" + (":recompiled-code" if name in passed
                                                                        else ":code-shape-" + name.split("-", 1)[1]),
                                  f"code stream: a {name} object that is {truth} is reported {got} "
                                  f"(compilation #{n} of the fixed sequence)",
                                  {"stream": "code", "template": name, "step": n, "attributes": text},
                                  expected=truth, observed=got, theorem="Asynkit.C20.helpers_exact")
                    break
            else:
                passed.add(name)
            obj = ns = a = None
            gc.collect()
    ctx.extra["code_stream_steps"] = n


def run(ctx):
    warnings.filterwarnings("ignore", category=RuntimeWarning)
    rng = ctx.rng
    explore(ctx, corpus_cases(), label="corpus: ")
    explore(ctx, list(exhaustive_cases(5 if ctx.thorough() else 4)), label="exhaustive: ")
    code_stream(ctx, 40 if ctx.thorough() else 12)
    n = 300000 if ctx.thorough() else 30000
    cases = [gen_case(rng) for _ in range(n)]
    for i in range(0, n, 5000):
        explore(ctx, cases[i:i + 5000])
    for c in cases[:3]:
        ctx.sample(c)


def replay(ctx, data):
    warnings.filterwarnings("ignore", category=RuntimeWarning)
    if data["case"].get("stream") == "code":
        code_stream(ctx, 1000, upto=data["case"]["step"])
        return
    case = {k: data["case"][k] for k in ("kind", "script", "ops", "shape") if k in data["case"]}
    explore(ctx, [case], label="replay: ")
