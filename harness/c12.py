"""C12 — PriorityLock hands over in effective-priority order."""
from __future__ import annotations

from . import c13_stepper as S

PROP = "C12"
LEAN_TARGETS = ["Asynkit.Props.C12", "Asynkit.Lemmas.GenEqLock", "Asynkit.Lemmas.GenEqContextlib"]
PROPS_FILES = ["Asynkit/Props/C12.lean", "Asynkit/Lemmas/GenEqLock.lean", "Asynkit/Lemmas/GenEqContextlib.lean"]
DRIVERS = ["Lock"]
TRUSTED = [
    'Lean 4.33 kernel; axioms ⊆ {propext, Classical.choice, Quot.sound} (audited per theorem each run)',
    'translated, not trusted: PriorityTask/PriorityLock effective_priority and propagate_priority (mutually '
    'recursive, with a recursion bound), _take_lock, _wake_up_first, release and the three segments of acquire '
    'are re-translated from priority.py on every run (translator/lock2lean.py -> Gen/Lock.lean) and proved equal '
    'to effT/effL, propT/propL and the acquire/resume/release events of Asynkit/Model/{PrioGraph,Lock}.lean '
    '(Lemmas/GenEqLock.lean, 53 theorems)',
    'hand-written and tied only by trace acceptance through lean/Drivers/Lock.lean (every real trace replayed: '
    'each event enabled, each observation equal): the kernel half of Model/Lock.lean (task stepping, cancel / '
    'throw delivery, Event) and the representation choices of Model/LockPrims.lean (locks, tasks, futures as '
    'indices; weakrefs never die while queued; _waiters None = empty; arrival-order iteration); after every '
    "handle the waiter order, every waiter key and every effective priority must equal the model's",
    'asyncio kernel modelled, not verified (see C13); the waiter PriorityQueue pops in (key, arrival) order and '
    'reschedule() keeps the arrival rank (property C17)',
]
ASSUMPTIONS = [
    "locks are acquired in a fixed order (acyclic wait-for graph); priorities of a task do not change by "
    "assignment while it is queued",
    "'waiting' lasts from queueing until the lock is handed over (the waiter's future is set): a task that "
    "arrives while a woken waiter has not run yet does not take the lock from it",
    "plain asyncio Tasks and Python tasks count as priority 0 and do not transmit inherited priority",
]
RULE = ("cases: C11's programs (random scripts over acquire/release/sleep/wait with 1..3 locks in a fixed "
        "order, directed 'urgent task waits on a lock held by a queued waiter' shapes, chains), 2..6 "
        "contenders, int/float/Priority-enum priorities with ties, plain and Python tasks mixed in, cancels (also of a waiter that inherited while queued), crowded locks (9..25 waiters) in a chain; "
        "both loops.  Non-trivial = the run reached a hand-over with at least two queued waiters, or one "
        "decided by a priority inherited while queued, or a tie, or a hand-over caused by a waiter giving up.  "
        "distinct = hash of the canonical case.  The corpus and a fixed grid of directed cases (a few "
        "instances per directed generator kind, private generator with a constant seed) run first on every run")

KINDS = {
    "handover-order": "the future that is set belongs to the (effective priority, arrival)-minimal queued waiter",
    "handover-order-after-giveup": "the future that is set belongs to the (effective priority, arrival)-minimal "
                                   "queued waiter, also after an earlier waiter was cancelled or interrupted",
}
THEOREM = {"handover-order": "Asynkit.C12.handover_most_urgent / waiter_key_inv_partial",
           "handover-order-after-giveup": "Asynkit.C12.handover_most_urgent / waiter_key_inv_partial"}
NONTRIVIAL = {"handover-contended", "handover-decided-by-inherited-priority", "handover-tie",
              "handover-by-giveup", "rekeyed-while-queued", "handover-inherited-through-chain-2",
              "handover-inherited-through-chain-3"}


def gen(rng, n):
    out = []
    for _ in range(n):
        g = rng.random()
        if g < 0.01:
            # a crowded lock (9..12 or 17..25 waiters) in the middle of a chain
            out.append(S.gen_chain_contended_case(rng, "C12", crowd=S.crowd_size(rng) - 1))
        elif g < 0.04:
            out.append(S.gen_inherited_giveup_case(rng))
        elif g < 0.07:
            out.append(S.gen_tie_rekey_case(rng))
        elif g < 0.10:
            out.append(S.gen_plain_donor_case(rng))
        elif g < 0.40:
            out.append(S.gen_case(rng, "C12"))
        elif g < 0.70:
            out.append(S.gen_inherit_case(rng, "C12"))
        elif g < 0.85:
            out.append(S.gen_chain_contended_case(rng, "C12"))
        elif g < 0.90:
            out.append(S.gen_reuse_case(rng))
        elif g < 0.93:
            out.append(S.gen_between_owners_case(rng))
        elif g < 0.96:
            out.append(S.gen_chain_giveup_case(rng))
        elif g < 0.985:
            out.append(S.gen_two_episodes_case(rng))
        else:
            out.append(S.gen_chain_case(rng))
    return out


def run(ctx):
    rng = ctx.rng
    S.explore(ctx, S.corpus_cases(PROP) + S.grid_cases(PROP), KINDS, THEOREM, label="corpus/grid: ", nontrivial=NONTRIVIAL)
    cases = gen(rng, 30000 if ctx.thorough() else 2500)
    runs = S.explore(ctx, cases, KINDS, THEOREM, nontrivial=NONTRIVIAL)
    for c in cases[:2]:
        ctx.sample(c)
    ctx.extra["handovers_judged"] = sum(r.handovers for r in runs)


def replay(ctx, data):
    S.explore(ctx, [data["case"]], KINDS, THEOREM, label="replay: ", nontrivial=NONTRIVIAL)
