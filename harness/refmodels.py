"""Independent reference models used as *oracles* (they state the property, not the code).

RefPQ  : C17's reference for tools.PriorityQueue — a list in arrival order; pop = smallest
         priority, earliest arrival among equals.
RefPos : C17/C08/C10's reference for PosPriorityQueue with boosting disabled — a positional
         prefix (in insertion-position order) followed by the regular entries by
         (priority, arrival).  After reschedule() the tie position of the entry is unspecified
         ("fuzzy"): any place inside its equal-priority group is accepted.
Neither knows anything about heaps, sequence numbers or counters.
"""
from __future__ import annotations

import itertools


class RefPQ:
    def __init__(self):
        self.items = []          # [pri, stamp, obj] in arrival order
        self.stamp = itertools.count()

    def copy(self):
        c = RefPQ()
        c.items = [list(e) for e in self.items]
        c.stamp = itertools.count(max([e[1] for e in self.items], default=-1) + 1)
        return c

    def add(self, p, o):
        self.items.append([p, next(self.stamp), o])

    def order(self):
        return sorted(self.items, key=lambda e: (e[0], e[1]))

    def head(self):
        return self.order()[0] if self.items else None

    def pop(self):
        h = self.head()
        if h is None:
            return None
        self.items.remove(h)
        return h

    def matches(self, key):
        return [e for e in self.items if key(e[2])]

    def drain_pairs(self):
        return [(e[0], e[2]) for e in self.order()]


class RefPos:
    def __init__(self):
        self.prefix = []         # objects, positional, in order
        self.reg = []            # [pri, stamp, obj, fuzzy]
        self.stamp = itertools.count()

    def __len__(self):
        return len(self.prefix) + len(self.reg)

    def reg_sorted(self):
        return sorted(self.reg, key=lambda e: (e[0], e[1]))

    def objs(self):
        return self.prefix + [e[2] for e in self.reg]

    def append(self, o, p):
        self.reg.append([p, next(self.stamp), o, False])

    def insert(self, pos, o):
        """list.insert(min(pos, len)) on the pop order; everything at or before the insertion
        point becomes part of the positional prefix.  Only exact when no regular entry that
        gets promoted is fuzzy (callers check `promotes_fuzzy`)."""
        k = min(pos, len(self))
        if k <= len(self.prefix):
            self.prefix.insert(k, o)
        else:
            take = self.reg_sorted()[: k - len(self.prefix)]
            for e in take:
                self.reg.remove(e)
            self.prefix = self.prefix + [e[2] for e in take] + [o]

    def promotes_ambiguous(self, pos):
        """True when an insert at `pos` would promote part of an equal-priority group that
        contains a fuzzy entry (the promoted set is then not determined by the property)."""
        k = min(pos, len(self)) - len(self.prefix)
        if k <= 0:
            return False
        rs = self.reg_sorted()
        groups_touched = {e[0] for e in rs[:k]}
        return any(e[3] for e in rs if e[0] in groups_touched)

    def valid_heads(self):
        """objects that may legitimately be popped next"""
        if self.prefix:
            return {self.prefix[0]}
        if not self.reg:
            return set()
        m = min(e[0] for e in self.reg)
        grp = [e for e in self.reg if e[0] == m]
        ok = {e[2] for e in grp if e[3]}
        firm = [e for e in grp if not e[3]]
        if firm:
            ok.add(min(firm, key=lambda e: e[1])[2])
        return ok

    def remove_obj(self, o):
        if o in self.prefix:
            self.prefix.remove(o)
            return True
        for e in self.reg:
            if e[2] == o:
                self.reg.remove(e)
                return True
        return False

    def has(self, o):
        return o in self.prefix or any(e[2] == o for e in self.reg)

    def reschedule(self, o, p):
        for e in self.reg:
            if e[2] == o:
                if e[0] != p:
                    e[0] = p
                    e[3] = True     # tie position now unspecified
                return
        # positional entries keep their place

    def reschedule_all(self, gp):
        for e in self.reg:
            e[0] = gp(e[2])

    def clear(self):
        self.prefix, self.reg = [], []

    def check_order(self, objs):
        """None if `objs` is an admissible pop order for the current state, else a reason."""
        n = len(self.prefix)
        if sorted(objs) != sorted(self.objs()):
            return f"multiset differs: got {objs}, model holds {self.objs()}"
        if objs[:n] != self.prefix:
            return f"positional prefix {self.prefix} expected first, got {objs[:n]}"
        by = {e[2]: e for e in self.reg}
        rest = [by[o] for o in objs[n:]]
        for a, b in zip(rest, rest[1:]):
            if a[0] > b[0]:
                return f"priority order broken: {a[2]}@{a[0]} before {b[2]}@{b[0]}"
        last = {}
        for e in rest:
            if e[3]:
                continue
            if e[0] in last and last[e[0]] > e[1]:
                return f"arrival order broken inside priority {e[0]} at obj {e[2]}"
            last[e[0]] = e[1]
        return None
