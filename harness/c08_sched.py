"""Shared machinery of C08 / C10: deterministic multi-task scheduling programs.

A *program* is JSON:

    {"tasks": [{"kind": "prio"|"plain", "pri": "i:0"|"f:0.5"|"e:HIGH", "ops": [[op, args...], ...]}, ...],
     "init":  [["t", sid] | ["c", k], ...],          # created / call_soon'ed before the loop starts
     "locks": n}

Every op list is a valid program: ops whose precondition does not hold answer "nop"
identically in all three interpreters (real code, reference list model, Lean model), so
programs can be shrunk freely.

Op alphabet (script of one task; `t`/`s` are script ids, `p`/`q` positions, `k` a label):

    sleep0                 await asyncio.sleep(0)
    si p                   await asynkit.sleep_insert(p)
    sw t p|None            await asynkit.task_switch(task t, insert_pos=p)
    ri t p                 asynkit.task_reinsert(task t, p)
    cp p k                 call_pos(p, cb, k)
    cs k                   loop.call_soon(cb, k)
    cm t k                 loop.call_soon(task_t.set_name, "k<k>")  (a callback *bound to* task t, not its step)
    cr p t q               call_pos(p, asynkit.task_reinsert, task t, q)   (ValueError inside a callback)
    cr8 s / de s / st s    create_task / create_task_descend / create_task_start of script s
    fi t                   pocket = ready_find(task t)
    me t                   h = ready_find(task t, remove=True); ready_insert(h)
    rmi                    ready_remove(pocket); ready_insert(pocket)      (ValueError when stale)
    sp v                   self.priority_value = v                          (PriorityTask only)
    bl / wk t              await a fresh future / resolve task t's future
    aq l / rl l            PriorityLock acquire / release                   (C10 only)
    it                     list(get_ready_queue()) as labels
    itk k                  it = iter(get_ready_queue()); k × next(it); await sleep(0); it.close()
    spi s                  aw = sleep_insert(p) made here; create_task of script s (= [si p, …]) which awaits aw

Three interpreters of the same programs:
  * RealRunner  - the real asynkit code on one of three loop configurations;
  * RefSched    - reference model: the ready queue is a plain Python list (C08 oracle);
  * the Lean model (lean/Drivers/Sched.lean), fed by `encode`.
The priority-loop oracle of C10 (`Shadow`) is a lock-step reference of the *stated order*
(positional entries first in requested order, then (priority, arrival)), driven only through the
public loop API and `effective_priority()`.
"""
from __future__ import annotations

import asyncio
import asyncio.events
import logging
from enum import Enum
from fractions import Fraction

import asynkit
import asynkit.experimental.priority as prio_mod
from asynkit.experimental.priority import (PriorityLock, PrioritySelectorEventLoop,
                                           PriorityTask)
from asynkit.loop import extensions as ext
from asynkit.loop.eventloop import SchedulingSelectorEventLoop

logging.getLogger("asyncio").disabled = True

CONFIGS = ("stock", "sched", "prio")
# one more, used by c08 for the long programs only: "prio-seq" = "prio" with the heap's arrival counter preset to 65 530
# (white-box; see RealRunner.make_loop and notes/C08.md round 9)


# ---------------------------------------------------------------------------------------
# priorities


def pri_obj(spec: str):
    k, v = spec.split(":")
    if k == "i":
        return int(v)
    if k == "f":
        return float(v)
    if k == "e":
        return getattr(prio_mod.Priority, v)
    raise ValueError(spec)


ENUM_VALUES = {"LOW": 10, "NORMAL": 0, "HIGH": -10}


def pri_frac(spec: str) -> Fraction:
    k, v = spec.split(":")
    if k == "e":
        return Fraction(ENUM_VALUES[v])
    return Fraction(v)


def numval(x) -> float:
    """numeric value of a priority object, whatever its representation"""
    if isinstance(x, Enum) and not isinstance(x, float):
        return float(x.value)
    return float(x)


def rat(fr: Fraction) -> str:
    return f"{fr.numerator}/{fr.denominator}"


# ---------------------------------------------------------------------------------------
# encoding for lean/Drivers/Sched.lean


def enc_op(op) -> str:
    o = op[0]
    if o in ("sleep0", "rmi", "bl", "it"):
        return o
    if o == "sw":
        return f"sw:{op[1]}:{'n' if op[2] is None else op[2]}"
    if o == "sp":
        return f"sp:{rat(pri_frac(op[1]))}"
    if o == "spi":
        return f"cr8:{op[1]}"            # for the model: a plain create_task (see RealRunner.do)
    return ":".join([o] + [str(a) for a in op[1:]])


def encode(prog, mode: str, factor: Fraction = Fraction(0), draw: Fraction = Fraction(1, 2)) -> list[str]:
    """Lines for the Lean driver: `reset`, one `task` line per script, `locks`, `init`, `run`
    (the answer to the last line is the log)."""
    lines = ["reset"]
    for sid, t in enumerate(prog["tasks"]):
        ops = ";".join(enc_op(o) for o in t["ops"]) or "-"
        lines.append(f"task {sid} {t['kind']} {rat(pri_frac(t['pri']))} {ops}")
    init = " ".join(f"{a}{b}" for a, b in prog["init"]) or "-"
    lines.append(f"locks {prog.get('locks', 0)}")
    lines.append(f"init {init}")
    lines.append("run list" if mode == "list" else f"run prio {rat(factor)} {rat(draw)}")
    return lines


# ---------------------------------------------------------------------------------------
# the C10 oracle: lock-step reference of the stated order on the real priority loop


class Shadow:
    """Reference ready queue: `pinned` = positional entries in their requested order, `regular` =
    entries ordered by (priority when queued / last re-prioritised, arrival)."""

    def __init__(self, runner):
        self.r = runner
        self.pinned = []      # handles
        self.regular = []     # [handle, key, arrival]
        self.arr = 0
        self.fail = None
        self.tags = set()

    def key_of(self, handle):
        task = ext.default.task_from_handle(handle)
        if task is not None:
            try:
                return numval(task.effective_priority())
            except AttributeError:
                pass
        return 0.0

    def add(self, handle):
        self.regular.append([handle, self.key_of(handle), self.arr])
        self.arr += 1

    def order(self):
        return self.pinned + [e[0] for e in sorted(self.regular, key=lambda e: (e[1], e[2]))]

    def insert(self, handle, pos):
        n = len(self.pinned)
        if pos <= n:
            self.pinned.insert(pos, handle)
            return
        promoted = sorted(self.regular, key=lambda e: (e[1], e[2]))[: pos - n]
        for e in promoted:
            self.regular.remove(e)
            self.pinned.append(e[0])
        self.pinned.append(handle)

    def discard(self, handle):
        for i, h in enumerate(self.pinned):
            if h is handle:
                del self.pinned[i]
                return True
        for e in self.regular:
            if e[0] is handle:
                self.regular.remove(e)
                return True
        return False

    def rekey(self, task):
        for e in self.regular:
            if ext.default.task_from_handle(e[0]) is task:
                k = self.key_of(e[0])
                if k != e[1]:
                    self.tags.add("re-keyed-through-inheritance")
                e[1] = k
        lock = getattr(self.r, "cur_acq", None)
        chain = lock is not None and lock._owning is not None and lock._owning() is not task
        if chain:
            self.tags.add("re-evaluated-through-chain")
        for h in self.pinned:
            if ext.default.task_from_handle(h) is task:
                self.tags.add("positional-entry-re-evaluated")
                if chain:
                    self.tags.add("positional-entry-re-evaluated-through-chain")

    def describe(self, handle):
        for h in self.pinned:
            if h is handle:
                return f"{self.r.label(handle)}(positional)"
        for e in self.regular:
            if e[0] is handle:
                return f"{self.r.label(handle)}(pri={Fraction(e[1])},arrival={e[2]})"
        return f"{self.r.label(handle)}(unknown)"

    def _situations(self, handle):
        if any(h is handle for h in self.pinned):
            k = self.key_of(handle)
            if any(e[1] < k for e in self.regular):
                self.tags.add("position-overrides-priority")
            return
        for e in self.regular:
            if e[0] is handle:
                if any(o is not e and o[1] == e[1] for o in self.regular):
                    self.tags.add("tie-resolved-by-arrival")
                if any(o[1] > e[1] and o[2] < e[2] for o in self.regular):
                    self.tags.add("overtook-earlier-arrival")
                task = ext.default.task_from_handle(handle)
                if task is not None and hasattr(task, "priority_value") and numval(task.priority_value) != e[1]:
                    self.tags.add("inherited-priority-used")

    def refresh(self):
        """Inheritance, decided by the oracle itself: a queued regular entry of a PriorityTask whose
        effective priority has become more urgent since it was keyed (somebody started waiting, directly
        or through a chain of locks, for a lock it holds) counts as re-prioritised at that moment —
        whether or not the code under test told the loop.  (In these programs — no cancellation — the
        effective priority of a queued task never becomes less urgent, so nothing else is re-keyed.)"""
        for e in self.regular:
            try:
                k = self.key_of(e[0])
            except Exception:  # noqa: BLE001 - the domain oracle reports exceptions
                continue
            if k < e[1]:
                e[1] = k
                self.tags.add("re-prioritised-by-oracle")

    def running(self, handle):
        """called when the loop runs `handle`"""
        self.refresh()
        try:
            self._situations(handle)
        except Exception:  # noqa: BLE001 - statistics only
            pass
        if self.fail is None:
            order = self.order()
            if not order or order[0] is not handle:
                want = self.describe(order[0]) if order else "nothing"
                self.fail = {"ran": self.describe(handle), "should_run": want,
                             "queue": [self.describe(h) for h in order],
                             "at_log_index": len(self.r.log)}
        self.discard(handle)


# ---------------------------------------------------------------------------------------
# real code


class Crash(Exception):
    pass


class RealRunner:
    """Runs one program on the real code.  config: stock | sched | prio."""

    def __init__(self, prog, config, boost=None, draws=None, shadow=False, check_runnable=False):
        self.prog, self.config = prog, config
        self.boost, self.draws = boost, draws
        self.log = []
        self.tags = set()
        self.tasks = {}            # sid -> Task
        self.sid_of = {}           # Task -> sid
        self.coros = []            # keep alive until the log is taken
        self.futs = {}             # sid -> future it is blocked on
        self.pocket = {}
        self.holding = {}
        self.locks = []
        self.crash = None
        self.cb_exc = None
        self.shadow = Shadow(self) if (shadow and config == "prio") else None
        self.check_runnable = check_runnable
        self.runnable_fail = None
        self.next_sid = None
        self.ndraw = 0
        self.maint = 0
        self.pre = {}              # sid -> awaitable made for its first op by its creator

    # ---- labels
    def label(self, handle):
        task = ext.default.task_from_handle(handle)
        if task is not None:
            return f"t{self.sid_of.get(task, '?')}"
        cb = handle._callback
        if cb == self._cb:
            return f"c{handle._args[0]}"
        owner = getattr(cb, "__self__", None)
        if owner in self.sid_of and getattr(cb, "__name__", "") == "set_name":
            return f"m{self.sid_of[owner]}.{handle._args[0][1:]}"
        if cb is asynkit.task_reinsert:
            return f"r{self.sid_of.get(handle._args[0], '?')}.{handle._args[1]}"
        return "x"

    def _cb(self, k):
        self.log.append(f"c{k}/{ext.ready_len()}")

    # ---- loop set-up
    def make_loop(self):
        if self.config == "stock":
            loop = asyncio.SelectorEventLoop()
        elif self.config == "sched":
            loop = SchedulingSelectorEventLoop()
        else:
            loop = PrioritySelectorEventLoop()
            if self.boost is not None:
                loop.ready_queue.priority_boost_factor = self.boost
            if self.config == "prio-seq":
                # WHITE-BOX NUDGE (the only one): the arrival counter of the (empty) heap starts just below
                # 2**16 instead of at 0, as it would after ~65 000 insertions without the queue running empty.
                # Sequence numbers only matter relative to each other, so nothing observable changes.
                try:
                    loop.ready_queue._pq._sequence = 65530
                except AttributeError:
                    pass
            try:      # statistics only: count maintenance rounds
                orig_maint = loop.ready_queue.do_maintenance

                def do_maintenance():
                    self.maint += 1
                    return orig_maint()
                loop.ready_queue.do_maintenance = do_maintenance
            except AttributeError:
                pass
        loop.set_task_factory(self._factory)
        loop.set_exception_handler(self._exc_handler)
        return loop

    def _factory(self, loop, coro, **kw):
        sid = self.next_sid
        self.next_sid = None
        spec = self.prog["tasks"][sid]
        if self.config.startswith("prio") and spec["kind"] == "prio":
            task = PriorityTask(coro, loop=loop, priority=pri_obj(spec["pri"]), **kw)
        else:
            task = asyncio.Task(coro, loop=loop, **kw)
        self.tasks[sid] = task
        self.sid_of[task] = sid
        return task

    def _exc_handler(self, loop, context):
        self.cb_exc = context.get("exception")

    def _spawn(self, sid, how):
        coro = self.body(sid)
        self.coros.append(coro)
        self.next_sid = sid
        return how(coro)

    # ---- instrumentation (C10 oracle)
    def _instrument(self, loop):
        sh = self.shadow
        o_call_soon, o_ins, o_inspos = loop.call_soon, loop.queue_insert, loop.queue_insert_pos
        o_find, o_rem, o_resched = loop.queue_find, loop.queue_remove, loop.task_reschedule

        def call_soon(cb, *a, context=None):
            h = o_call_soon(cb, *a, context=context)
            sh.add(h)
            return h

        def queue_insert(h):
            o_ins(h)
            sh.add(h)

        def queue_insert_pos(h, pos):
            o_inspos(h, pos)
            sh.insert(h, pos)

        def queue_find(key, remove=False):
            h = o_find(key, remove)
            if remove and h is not None:
                sh.discard(h)
            return h

        def queue_remove(h):
            o_rem(h)
            sh.discard(h)

        def task_reschedule(task):
            o_resched(task)
            sh.rekey(task)

        loop.call_soon, loop.queue_insert, loop.queue_insert_pos = call_soon, queue_insert, queue_insert_pos
        loop.queue_find, loop.queue_remove, loop.task_reschedule = queue_find, queue_remove, task_reschedule

    # ---- running
    def run(self):
        loop = self.make_loop()
        if self.shadow is not None:
            self._instrument(loop)
        self.loop = loop
        self.locks = [PriorityLock() for _ in range(self.prog.get("locks", 0))]
        orig_run = asyncio.events.Handle._run
        orig_random = prio_mod.random
        runner = self

        class _Rand:
            def random(self_inner):
                d = runner.draws or [0.5]
                v = d[runner.ndraw % len(d)]
                runner.ndraw += 1
                return v

        def handle_run(h):
            if h._loop is not loop:
                return orig_run(h)
            lab = runner.label(h)
            if runner.shadow is not None:
                runner.shadow.running(h)
            if runner.check_runnable and runner.shadow is not None and lab.startswith("t"):
                runner._check_runnable()
            runner.cb_exc = None
            orig_run(h)
            if lab.startswith("r"):
                res = "ok" if runner.cb_exc is None else type(runner.cb_exc).__name__[0]
                runner.log.append(f"{lab}={res}/{len(loop._ready)}")
            elif lab.startswith("m") and runner.cb_exc is None:
                runner.log.append(f"{lab}/{len(loop._ready)}")
            elif runner.cb_exc is not None:
                runner.log.append(f"!{lab}:{type(runner.cb_exc).__name__}")

        orig_once = loop._run_once

        def run_once():
            if len(loop._ready) == 0:
                loop._stopping = True
            orig_once()

        loop._run_once = run_once
        asyncio.events.Handle._run = handle_run
        prio_mod.random = _Rand()
        try:
            try:
                for kind, x in self.prog["init"]:
                    if kind == "t":
                        if x not in self.tasks:
                            self._spawn(x, loop.create_task)
                    else:
                        loop.call_soon(self._cb, x)
                loop.run_forever()
            except Exception as e:  # noqa: BLE001 - the loop itself failed
                self.crash = type(e).__name__
                self.log.append(f"!crash:{self.crash}")
            log = list(self.log)
            ndraw = self.ndraw
        finally:
            asyncio.events.Handle._run = orig_run
            prio_mod.random = orig_random
            self._cleanup(loop)
        self.ndraw = ndraw
        self.log = log
        return log

    def _cleanup(self, loop):
        try:
            for t in list(self.tasks.values()):
                if not t.done():
                    t.cancel()
            for _ in range(50):
                if not len(loop._ready):
                    break
                loop._stopping = True
                try:
                    loop.run_forever()
                except Exception:  # noqa: BLE001
                    break
        except Exception:  # noqa: BLE001
            pass
        for c in list(self.pre.values()):
            try:
                c.close()
            except Exception:  # noqa: BLE001
                pass
        for c in self.coros:
            try:
                c.close()
            except Exception:  # noqa: BLE001
                pass
        try:
            loop._ready.clear()
            loop.close()
        except Exception:  # noqa: BLE001
            pass

    def _check_runnable(self):
        """the tasks the reference says are queued are exactly runnable_tasks()"""
        if self.runnable_fail is not None:
            return
        try:
            real = {self.sid_of.get(t, "?") for t in asynkit.runnable_tasks(self.loop)}
        except Exception as e:  # noqa: BLE001
            self.runnable_fail = f"runnable_tasks() raised {type(e).__name__}"
            return
        want = set()
        for h in self.shadow.order():
            t = ext.default.task_from_handle(h)
            if t is not None:
                want.add(self.sid_of.get(t, "?"))
        if real != want:
            self.runnable_fail = f"runnable_tasks()={sorted(real, key=str)} reference={sorted(want, key=str)}"

    # ---- task bodies
    async def body(self, sid):
        ops = self.prog["tasks"][sid]["ops"]
        for i, op in enumerate(ops):
            try:
                res = await self.do(sid, op)
            except ValueError:
                res = "V"
            except asyncio.CancelledError:
                raise
            except Exception as e:  # noqa: BLE001
                res = "E:" + type(e).__name__
            try:
                n = ext.ready_len()
            except Exception as e:  # noqa: BLE001
                n = "E:" + type(e).__name__
            self.log.append(f"t{sid}.{i}={res}/{n}")

    def _state(self, t):
        task = self.tasks.get(t)
        if task is None:
            return "unborn"
        if task.done():
            return "done"
        if task is asyncio.current_task():
            return "self"
        return "blocked" if asynkit.task_is_blocked(task) else "runnable"

    def _postag(self, o, p):
        n = len(self.loop._ready)
        self.tags.add(f"{o}-pos{'<' if p < n else '=' if p == n else '>'}len")

    async def do(self, sid, op):
        o = op[0]
        loop = self.loop
        if o in ("si", "cp", "cr"):
            self._postag(o, op[1])
        elif o == "ri" or (o == "sw" and op[2] is not None):
            self._postag(o, op[2])
        if o == "sleep0":
            await asyncio.sleep(0)
            return "ok"
        if o == "si":
            if sid in self.pre:
                await self.pre.pop(sid)
            else:
                await asynkit.sleep_insert(op[1])
            return "ok"
        if o in ("sw", "ri", "fi", "me"):
            t = op[1]
            st = self._state(t)
            self.tags.add(f"{o}-target-{st}")
            if st == "unborn":
                return "nop"
            task = self.tasks[t]
            if o == "sw":
                await asynkit.task_switch(task, insert_pos=op[2])
                return "ok"
            if o == "ri":
                asynkit.task_reinsert(task, op[2])
                return "ok"
            if o == "fi":
                h = ext.ready_find(task)
                self.pocket[sid] = h
                return "some" if h is not None else "none"
            h = ext.ready_find(task, remove=True)
            if h is None:
                return "m0"
            mid = ext.ready_len()
            ext.ready_insert(h)
            return f"m1.{mid}"
        if o == "cp":
            ext.call_pos(op[1], self._cb, op[2])
            return "ok"
        if o == "cm":
            # a plain callback that is a bound method of the task: not the task's step
            if op[1] not in self.tasks:
                return "nop"
            self.tags.add(f"cm-target-{self._state(op[1])}")
            loop.call_soon(self.tasks[op[1]].set_name, f"k{op[2]}")
            return "ok"
        if o == "cs":
            loop.call_soon(self._cb, op[1])
            return "ok"
        if o == "cr":
            if op[2] not in self.tasks:
                return "nop"
            self.tags.add(f"cr-target-{self._state(op[2])}")
            ext.call_pos(op[1], asynkit.task_reinsert, self.tasks[op[2]], op[3])
            return "ok"
        if o == "spi":
            # create_task of script s whose first op `si p` awaits an awaitable that *this* task creates now:
            # `aw = asynkit.sleep_insert(p)`; the new task does `await aw`.  For a coroutine function that is
            # the same as the new task calling sleep_insert itself.
            s = op[1]
            if s in self.tasks or s >= len(self.prog["tasks"]):
                return "nop"
            ops_s = self.prog["tasks"][s]["ops"]
            if ops_s and ops_s[0][0] == "si":
                self.pre[s] = asynkit.sleep_insert(ops_s[0][1])
                self.tags.add("awaitable-made-by-another-task")
            self._spawn(s, asynkit.tools.create_task)
            return "ok"
        if o == "itk":
            # a partially consumed iterator over the ready queue kept open across a sleep(0)
            it = iter(ext.get_ready_queue())
            labs = []
            for _ in range(op[1]):
                try:
                    labs.append(self.label(next(it)))
                except StopIteration:
                    break
            self.tags.add("iterator-kept-open")
            try:
                await asyncio.sleep(0)
            finally:
                if hasattr(it, "close"):
                    it.close()
            return "[" + ",".join(labs) + "]"
        if o in ("cr8", "de", "st"):
            s = op[1]
            if s in self.tasks or s >= len(self.prog["tasks"]):
                return "nop"
            if o == "cr8":
                self._spawn(s, asynkit.tools.create_task)
            elif o == "de":
                await self._spawn(s, asynkit.create_task_descend)
            else:
                await self._spawn(s, asynkit.create_task_start)
            return "ok"
        if o == "rmi":
            h = self.pocket.get(sid)
            if h is None:
                return "nop"
            ext.ready_remove(h)
            ext.ready_insert(h)
            return "ok"
        if o == "sp":
            me = self.tasks[sid]
            if isinstance(me, PriorityTask):
                me.priority_value = pri_obj(op[1])
            return "ok"
        if o == "bl":
            fut = loop.create_future()
            self.futs[sid] = fut
            await fut
            return "ok"
        if o == "wk":
            fut = self.futs.get(op[1])
            if fut is None or fut.done():
                return "w0"
            fut.set_result(None)
            return "w1"
        if o == "aq":
            held = self.holding.setdefault(sid, [])
            # harness discipline: locks are taken in increasing order (no deadlock), never twice
            if any(h >= op[1] for h in held) or op[1] >= len(self.locks):
                return "nop"
            held.append(op[1])
            if len(held) > 1:
                self.tags.add("nested-acquire")
            self.cur_acq = self.locks[op[1]]
            try:
                await self.locks[op[1]].acquire()
            except BaseException:
                held.remove(op[1])
                raise
            return "ok"
        if o == "rl":
            held = self.holding.setdefault(sid, [])
            if op[1] not in held:
                return "nop"
            self.locks[op[1]].release()
            held.remove(op[1])
            return "ok"
        if o == "it":
            return "[" + ",".join(self.label(h) for h in ext.get_ready_queue()) + "]"
        raise Crash(f"unknown op {op}")


# ---------------------------------------------------------------------------------------
# reference model (C08 oracle): the ready queue is a plain Python list


class RefSched:
    """Same program interpreter, ready queue = Python list with list.insert / list.remove.
    No priorities, no locks (C08 programs have neither)."""

    def __init__(self, prog):
        self.prog = prog
        self.q = []                 # handles: ("t", sid) | ("c", k) | ("r", t, q); identity matters
        self.state = {}             # sid -> ready | blocked | done | running   (absent = unborn)
        self.pc = {}
        self.pend = {}
        self.pocket = {}
        self.log = []
        self.steps = 0

    @staticmethod
    def lab(h):
        if h[0] == "t":
            return f"t{h[1]}"
        if h[0] == "c":
            return f"c{h[1]}"
        if h[0] == "m":
            return f"m{h[1]}.{h[2]}"
        return f"r{h[1]}.{h[2]}"

    def new_handle(self, *a):
        return list(a)               # a fresh object per call_soon

    def find_task(self, t):
        for h in self.q:
            if h[0] == "t" and h[1] == t:
                return h
        return None

    def remove_id(self, h):
        for i, x in enumerate(self.q):
            if x is h:
                del self.q[i]
                return True
        return False

    def insert(self, pos, h):
        self.q.insert(min(pos, len(self.q)), h)

    def reinsert(self, t, pos):
        h = self.find_task(t)
        if h is None:
            raise ValueError
        self.remove_id(h)
        self.insert(pos, h)

    def spawn(self, s):
        self.state[s] = "ready"
        self.pc[s] = 0
        self.q.append(self.new_handle("t", s))

    def run(self, max_steps=100000):
        for kind, x in self.prog["init"]:
            if kind == "t":
                if x not in self.state:
                    self.spawn(x)
            else:
                self.q.append(self.new_handle("c", x))
        while self.q:
            self.steps += 1
            if self.steps > max_steps:
                self.log.append("!diverge")
                break
            h = self.q.pop(0)
            if h[0] == "c":
                self.log.append(f"c{h[1]}/{len(self.q)}")
            elif h[0] == "m":
                self.log.append(f"m{h[1]}.{h[2]}/{len(self.q)}")
            elif h[0] == "r":
                try:
                    self.reinsert(h[1], h[2])
                    res = "ok"
                except ValueError:
                    res = "V"
                self.log.append(f"r{h[1]}.{h[2]}={res}/{len(self.q)}")
            else:
                self.step_task(h[1])
        return self.log

    def suspend_sleep(self, me):
        self.q.append(self.new_handle("t", me))

    def sleep_insert(self, me, pos):
        self.insert(0, self.new_handle("r", me, pos))
        self.suspend_sleep(me)

    def step_task(self, me):
        ops = self.prog["tasks"][me]["ops"]
        self.state[me] = "running"
        if me in self.pend:
            res = self.pend.pop(me)
            self.log.append(f"t{me}.{self.pc[me]}={res}/{len(self.q)}")
            self.pc[me] += 1
        while self.pc[me] < len(ops):
            op = ops[self.pc[me]]
            res, susp = self.do(me, op)
            if susp:
                self.pend[me] = res
                if self.state[me] == "running":
                    self.state[me] = "ready"
                return
            self.log.append(f"t{me}.{self.pc[me]}={res}/{len(self.q)}")
            self.pc[me] += 1
        self.state[me] = "done"

    def do(self, me, op):
        """-> (result, suspended?)"""
        o = op[0]
        if o == "sleep0":
            self.suspend_sleep(me)
            return "ok", True
        if o == "si":
            self.sleep_insert(me, op[1])
            return "ok", True
        if o in ("sw", "ri", "fi", "me"):
            t = op[1]
            if t not in self.state:
                return "nop", False
            if o == "sw":
                try:
                    self.reinsert(t, 0)
                except ValueError:
                    return "V", False
                if op[2] is None:
                    self.suspend_sleep(me)
                else:
                    self.sleep_insert(me, op[2])
                return "ok", True
            if o == "ri":
                try:
                    self.reinsert(t, op[2])
                except ValueError:
                    return "V", False
                return "ok", False
            if o == "fi":
                h = self.find_task(t)
                self.pocket[me] = h
                return ("some" if h is not None else "none"), False
            h = self.find_task(t)
            if h is None:
                return "m0", False
            self.remove_id(h)
            mid = len(self.q)
            self.q.append(h)
            return f"m1.{mid}", False
        if o == "cp":
            self.insert(op[1], self.new_handle("c", op[2]))
            return "ok", False
        if o == "cm":
            if op[1] not in self.state:
                return "nop", False
            self.q.append(self.new_handle("m", op[1], op[2]))
            return "ok", False
        if o == "cs":
            self.q.append(self.new_handle("c", op[1]))
            return "ok", False
        if o == "cr":
            if op[2] not in self.state:
                return "nop", False
            self.insert(op[1], self.new_handle("r", op[2], op[3]))
            return "ok", False
        if o == "spi":
            s = op[1]
            if s in self.state or s >= len(self.prog["tasks"]):
                return "nop", False
            self.spawn(s)
            return "ok", False
        if o == "itk":
            res = "[" + ",".join(self.lab(h) for h in self.q[:op[1]]) + "]"
            self.suspend_sleep(me)
            return res, True
        if o in ("cr8", "de", "st"):
            s = op[1]
            if s in self.state or s >= len(self.prog["tasks"]):
                return "nop", False
            self.spawn(s)
            if o == "cr8":
                return "ok", False
            if o == "de":
                self.reinsert(s, 0)
                self.sleep_insert(me, 1)
            else:
                self.suspend_sleep(me)
            return "ok", True
        if o == "rmi":
            h = self.pocket.get(me)
            if h is None:
                return "nop", False
            if not self.remove_id(h):
                return "V", False
            self.q.append(h)
            return "ok", False
        if o == "sp":
            return "ok", False
        if o == "bl":
            self.state[me] = "blocked"
            return "ok", True
        if o == "wk":
            t = op[1]
            if self.state.get(t) != "blocked":
                return "w0", False
            self.state[t] = "ready"
            self.q.append(self.new_handle("t", t))
            return "w1", False
        if o == "it":
            return "[" + ",".join(self.lab(h) for h in self.q) + "]", False
        return "nop", False


# ---------------------------------------------------------------------------------------
# program generation, shrinking


ZERO_SPECS = ["i:0", "f:0.0", "e:NORMAL", "f:-0.0"]
PRI_SPECS = ["i:-10", "i:-1", "i:0", "f:0.5", "i:1", "i:10", "f:-1.0", "f:0.0", "f:1.0", "f:10.0",
             "e:HIGH", "e:NORMAL", "e:LOW"]


def gen_program(rng, flavour="c08", n_tasks=None, max_ops=8, long=False):
    """flavour c08: equal priorities (all zero, any representation), no locks;
    c10: priorities from PRI_SPECS, PriorityLock ops, priority changes;
    c10eq: like c10 but all priorities zero (equal-priority clause)."""
    n = n_tasks or rng.randint(2, 6)
    prio_flavour = flavour in ("c10", "c10eq")
    specs = PRI_SPECS if flavour == "c10" else ZERO_SPECS
    nlocks = rng.randint(1, 3) if prio_flavour and rng.random() < 0.7 else 0
    tasks = []
    label = [100]

    def lab():
        label[0] += 1
        return label[0]

    def pos():
        r = rng.random()
        if r < 0.35:
            return 0
        if r < 0.6:
            return 1
        if r < 0.9:
            return rng.randint(2, n + 2)
        return rng.randint(n + 2, n + 8)

    def gen_op(me):
        r = rng.random()
        t = rng.randrange(n)
        if long:
            if r < 0.30:
                return ["sleep0"]
            if r < 0.55:
                return ["si", pos()]
            if r < 0.75:
                return ["cp", rng.choice([0, 0, 1, 2]), lab()]
            if r < 0.80:
                return ["cs", lab()]
            if r < 0.82:
                return ["cm", t, lab()]
            if r < 0.90:
                return ["sw", t, rng.choice([None, 0, 1, 2])]
            if r < 0.95:
                return ["ri", t, pos()]
            return ["me", t]
        if r < 0.14:
            return ["sleep0"]
        if r < 0.26:
            return ["si", pos()]
        if r < 0.38:
            return ["sw", t, rng.choice([None, None, 0, 1, 1, 2, pos()])]
        if r < 0.47:
            return ["ri", t, pos()]
        if r < 0.55:
            return ["cp", pos(), lab()]
        if r < 0.58:
            return ["cs", lab()]
        if r < 0.61:
            return ["cm", t, lab()]
        if r < 0.65:
            return ["cr", pos(), t, pos()]
        if r < 0.70:
            return ["fi", t]
        if r < 0.75:
            return ["me", t]
        if r < 0.80:
            return ["rmi"]
        if r < 0.85:
            return ["bl"]
        if r < 0.91:
            return ["wk", t]
        if r < 0.935:
            return ["it"]
        if r < 0.95:
            return ["itk", rng.randint(1, 3)]
        if prio_flavour:
            if nlocks and r < 0.97:
                return ["aq", rng.randrange(nlocks)]
            if flavour == "c10" and r < 0.985:
                return ["sp", rng.choice(specs)]
        return ["sleep0"]

    for sid in range(n):
        k = rng.randint(20, 45) if long else rng.randint(1, max_ops)
        ops = [gen_op(sid) for _ in range(k)]
        if nlocks:
            # give lock sections a shape: acquire ... (work) ... release; nested sections take
            # the locks in increasing order (the interpreters answer "nop" otherwise)
            out, held = [], []
            for op in ops:
                if op[0] == "aq":
                    while held and held[-1] >= op[1]:
                        out.append(["rl", held.pop()])
                    held.append(op[1])
                out.append(op)
                if held and rng.random() < 0.25:
                    out.append(["rl", held.pop(rng.randrange(len(held)))])
            while held:
                out.append(["rl", held.pop()])
            ops = out
        kind = "plain" if rng.random() < (0.25 if prio_flavour else 0.4) else "prio"
        tasks.append({"kind": kind, "pri": rng.choice(specs), "ops": ops})
    n_init = rng.randint(1, n)
    order = list(range(n))
    rng.shuffle(order)
    init_t, later = order[:n_init], order[n_init:]
    init = [["t", s] for s in init_t]
    for _ in range(rng.randint(0, 2)):
        init.insert(rng.randint(0, len(init)), ["c", lab()])
    # every other script is created by an op of an earlier-born script
    born = list(init_t)
    for s in later:
        creator = rng.choice(born)
        ops = tasks[creator]["ops"]
        how = rng.choice(["cr8", "de", "de", "st"])
        if rng.random() < 0.25:
            # the new task first awaits a sleep_insert awaitable made by its creator
            tasks[s]["ops"].insert(0, ["si", pos()])
            how = "spi"
        ops.insert(rng.randint(0, len(ops)), [how, s])
        born.append(s)
    return {"tasks": tasks, "init": init, "locks": nlocks}


def gen_contention(rng):
    """create_task_descend under PriorityLock contention: the caller holds a lock, descends into
    a new task that blocks on that lock; more urgent tasks are runnable meanwhile."""
    specs = PRI_SPECS
    hi, lo = rng.choice(["i:-10", "e:HIGH", "f:-1.0", "i:-1"]), rng.choice(["i:1", "i:10", "e:LOW", "f:0.5"])
    mid = rng.choice(["i:0", "f:0.0", "e:NORMAL", "f:0.5", "i:-1", "i:1"])
    caller = [["aq", 0]] + [["sleep0"]] * rng.randint(0, 1) + [["de", 1]] + \
             [rng.choice([["sleep0"], ["cs", 201], ["it"]])] + [["rl", 0], ["sleep0"]]
    child = [rng.choice([["sleep0"], ["cs", 202]])] * rng.randint(0, 1) + [["aq", 0], ["sleep0"], ["rl", 0]]
    others = []
    for i in range(rng.randint(1, 3)):
        ops = [rng.choice([["sleep0"], ["si", rng.randint(0, 2)], ["cs", 210 + i], ["sleep0"]])
               for _ in range(rng.randint(2, 5))]
        others.append({"kind": rng.choice(["prio", "prio", "plain"]), "pri": rng.choice([hi, mid, lo] + specs), "ops": ops})
    tasks = [{"kind": "prio", "pri": rng.choice([lo, mid]), "ops": caller},
             {"kind": rng.choice(["prio", "prio", "plain"]), "pri": rng.choice([hi, mid, lo]), "ops": child}] + others
    init = [["t", 0]] + [["t", 2 + i] for i in range(len(others))]
    rng.shuffle(init)
    return {"tasks": tasks, "init": init, "locks": 1}


def gen_bound(rng, flavour="c08"):
    """plain callbacks that are *bound methods of a task* (`loop.call_soon(task.set_name, …)`) queued behind the
    task's own step, or while the task is blocked: `task_switch` / `task_reinsert` / `ready_find` must pick the
    task's step only, and moving the blocked task must still raise ValueError."""
    specs = PRI_SPECS if flavour == "c10" else ZERO_SPECS
    blocked = rng.random() < 0.5
    k = [500]

    def lab():
        k[0] += 1
        return k[0]
    target = [["bl"], ["cs", lab()]] if blocked else [["sleep0"], ["cs", lab()], ["sleep0"]]
    mover = []
    if rng.random() < 0.5:
        mover.append(["sleep0"])                     # let the target start (and block / re-queue itself)
    for _ in range(rng.randint(1, 2)):
        mover.append(["cm", 1, lab()])
        if rng.random() < 0.5:
            mover.append(["cs", lab()])
    move = rng.choice([["sw", 1, None], ["sw", 1, 1], ["ri", 1, 0], ["ri", 1, rng.randint(1, 4)], ["me", 1], ["fi", 1],
                       ["cr", 0, 1, 0]])
    mover += [move, ["it"]]
    if move[0] == "fi":
        mover.append(["rmi"])
    mover += [["wk", 1], ["sleep0"]]
    others = [{"kind": rng.choice(["prio", "plain"]), "pri": rng.choice(specs),
               "ops": [rng.choice([["sleep0"], ["cs", lab()], ["si", rng.randint(0, 2)]]) for _ in range(rng.randint(1, 3))]}
              for _ in range(rng.randint(0, 2))]
    tasks = [{"kind": rng.choice(["prio", "plain"]), "pri": rng.choice(specs), "ops": mover},
             {"kind": rng.choice(["prio", "plain"]), "pri": rng.choice(specs), "ops": target}] + others
    init = [["t", 1], ["t", 0]] + [["t", 2 + i] for i in range(len(others))]
    if rng.random() < 0.5:
        init[0], init[1] = init[1], init[0]
    return {"tasks": tasks, "init": init, "locks": 0}


def gen_chain(rng):
    """positional scheduling combined with inheritance *through a chain* of 2-3 locks (fixed lock
    order): the owner O of the last lock is queued positionally (it is the caller of
    create_task_descend / sleep_insert, or the target of a task_switch) while tasks further down
    the chain start waiting, so that O's effective priority is re-evaluated through
    W1 -> lock -> ... -> O before it runs; other tasks of assorted priorities are runnable meanwhile."""
    depth = rng.choice([2, 2, 3])                  # number of locks in the chain
    top = depth - 1
    urgent = ["i:-10", "e:HIGH", "f:-1.0", "i:-1"]
    lazy = ["i:1", "i:10", "e:LOW", "f:0.5", "i:0"]
    tasks = []
    # script ids: 0 = O (owner of the top lock), 1..depth-1 = links W_k (hold lock k-1, wait for lock k),
    # depth = X (the urgent task that waits on lock 0), then bystanders
    def how_positional(target):
        r = rng.random()
        if r < 0.45:
            return [["de", target]]
        if r < 0.7:
            return [["cr8", target], ["sw", target, rng.choice([1, 1, 2])]]
        return [["cr8", target], ["si", rng.choice([1, 2])]]
    o_ops = [["aq", top]]
    for k in range(top, 0, -1):                    # start the links, highest first: W_k holds k-1, waits k
        o_ops += how_positional(k)
        if rng.random() < 0.3:
            o_ops.append(rng.choice([["sleep0"], ["cs", 300 + k], ["it"]]))
    o_ops += how_positional(depth)                 # X arrives while O is positional again
    o_ops += [rng.choice([["it"], ["cs", 320], ["sleep0"]]), ["rl", top], ["sleep0"]]
    tasks.append({"kind": "prio", "pri": rng.choice(lazy), "ops": o_ops})
    for k in range(1, depth):
        ops = [["aq", k - 1]] + ([["sleep0"]] if rng.random() < 0.2 else []) + [["aq", k]] + \
              [rng.choice([["sleep0"], ["cs", 330 + k]]), ["rl", k], ["rl", k - 1]]
        tasks.append({"kind": rng.choice(["prio", "prio", "prio", "plain"]), "pri": rng.choice(lazy + urgent), "ops": ops})
    tasks.append({"kind": rng.choice(["prio", "prio", "prio", "plain"]), "pri": rng.choice(urgent),
                  "ops": [["aq", 0], ["cs", 340], ["rl", 0]]})
    nb = rng.randint(1, 3)
    for i in range(nb):
        ops = [rng.choice([["sleep0"], ["si", rng.randint(0, 2)], ["cs", 350 + i], ["sleep0"], ["cp", rng.randint(0, 1), 360 + i]])
               for _ in range(rng.randint(2, 6))]
        if i == 0 and rng.random() < 0.5:
            # a competitor for the top lock: who gets it at release depends on the link's re-keyed
            # entry in the lock's waiter queue (PriorityLock.propagate_priority)
            ops = [["sleep0"]] * rng.randint(0, 2) + [["aq", top]] + ops[:2] + [["rl", top]]
        tasks.append({"kind": rng.choice(["prio", "prio", "plain"]), "pri": rng.choice(urgent + lazy + PRI_SPECS), "ops": ops})
    init = [["t", 0]] + [["t", depth + 1 + i] for i in range(nb)]
    rng.shuffle(init)
    return {"tasks": tasks, "init": init, "locks": depth}


HUGE = ["f:1152921504606846976.0", "f:1152921504606847232.0", "f:1152921504606847488.0",      # 2**60 + k * 2**8
        "f:9007199254740992.0", "f:9007199254740994.0", "i:1152921504606846976"]                  # 2**53, 2**53 + 2


def gen_huge(rng):
    """priorities of huge magnitude (EDF deadlines from time_ns(): >= 2**53, where `x - 1 == x` in floating
    point) at the head of the queue while two or more callbacks are stacked positionally: positional entries
    must still run first, in their requested order.  Only PriorityTasks are queued when the inserts happen
    (a plain callback at priority 0 would be the head)."""
    n = rng.randint(2, 4)
    k = [600]

    def lab():
        k[0] += 1
        return k[0]
    stack = [["cp", 0, lab()], ["cp", 0, lab()]]
    for _ in range(rng.randint(0, 2)):
        stack.append(["cp", rng.randint(0, len(stack)), lab()])
    first = stack + [rng.choice([["it"], ["sleep0"], ["si", rng.randint(0, 3)]]), ["sleep0"]]
    tasks = [{"kind": "prio", "pri": HUGE[0] if rng.random() < 0.7 else HUGE[3], "ops": first}]
    for i in range(1, n):
        ops = [rng.choice([["sleep0"], ["si", rng.randint(0, 2)], ["cp", rng.randint(0, 1), lab()]]) for _ in range(rng.randint(1, 3))]
        tasks.append({"kind": "prio", "pri": rng.choice(HUGE), "ops": ops})
    return {"tasks": tasks, "init": [["t", i] for i in range(n)], "locks": 0}


def gen_inflight(rng):
    """a lock waiter that has been woken but has not run yet inherits a priority: W holds lock 0 and waits
    for lock 1; its owner O releases lock 1 (W's wake-up is queued at W's own, lazy, priority) and, before
    W runs, an urgent X starts waiting for lock 0 while a task M of intermediate priority is ready: W must
    be re-prioritised where it is queued and run before M."""
    urgent = rng.choice(["i:-10", "e:HIGH", "f:-1.0"])
    lazy = rng.choice(["i:10", "e:LOW", "f:10.0"])
    mid = rng.choice(["i:0", "f:0.0", "e:NORMAL", "f:0.5", "i:1"])
    o_pri = rng.choice(["i:1", "f:0.5", "i:0", "i:10", mid])
    nmid = rng.randint(1, 2)
    o_ops = [["aq", 1], ["de", 1]] + ([["cs", 400]] if rng.random() < 0.3 else []) + [["rl", 1]]
    late = [["cr8", 2 + i] for i in range(nmid)] + [["cr8", 2 + nmid]]
    rng.shuffle(late)
    o_ops += late + [rng.choice([["sleep0"], ["it"], ["si", rng.randint(2, 4)]]), ["sleep0"]]
    tasks = [{"kind": "prio", "pri": o_pri, "ops": o_ops},
             {"kind": "prio", "pri": lazy, "ops": [["aq", 0], ["aq", 1], ["cs", 401], ["rl", 1], ["rl", 0]]}]
    for i in range(nmid):
        tasks.append({"kind": rng.choice(["prio", "prio", "plain"]), "pri": mid,
                      "ops": [["cs", 410 + i]] + [["sleep0"]] * rng.randint(0, 2)})
    tasks.append({"kind": "prio", "pri": urgent, "ops": [["aq", 0], ["cs", 420], ["rl", 0]]})
    return {"tasks": tasks, "init": [["t", 0]], "locks": 2}


def zeroed(prog):
    """the same program with every priority replaced by a zero of the same representation"""
    def z(spec):
        k = spec.split(":")[0]
        return {"i": "i:0", "f": "f:0.0", "e": "e:NORMAL"}[k]
    tasks = []
    for t in prog["tasks"]:
        ops = [(["sp", z(o[1])] if o[0] == "sp" else list(o)) for o in t["ops"]]
        tasks.append({"kind": t["kind"], "pri": z(t["pri"]), "ops": ops})
    return {"tasks": tasks, "init": [list(i) for i in prog["init"]], "locks": prog.get("locks", 0)}


def flatten(prog):
    items = [("i", i) for i in range(len(prog["init"]))]
    for sid, t in enumerate(prog["tasks"]):
        items += [("o", sid, i) for i in range(len(t["ops"]))]
    return items


def rebuild(prog, items):
    keep_i = {x[1] for x in items if x[0] == "i"}
    keep_o = {(x[1], x[2]) for x in items if x[0] == "o"}
    tasks = []
    for sid, t in enumerate(prog["tasks"]):
        tasks.append({"kind": t["kind"], "pri": t["pri"],
                      "ops": [o for i, o in enumerate(t["ops"]) if (sid, i) in keep_o]})
    return {"tasks": tasks, "init": [x for i, x in enumerate(prog["init"]) if i in keep_i],
            "locks": prog.get("locks", 0)}


def op_kinds(prog):
    ks = set()
    for t in prog["tasks"]:
        for o in t["ops"]:
            if o[0] not in ("it",):
                ks.add(o[0])
    return "+".join(sorted(ks))


def prog_text(prog):
    import json
    return json.dumps(prog, sort_keys=True, separators=(",", ":"))
