"""C11 — priority inheritance bounds priority inversion."""
from __future__ import annotations

from . import c13_stepper as S

PROP = "C11"
LEAN_TARGETS = ["Asynkit.Props.C11", "Asynkit.Lemmas.GenEqLock", "Asynkit.Lemmas.GenEqContextlib"]
PROPS_FILES = ["Asynkit/Props/C11.lean", "Asynkit/Lemmas/GenEqLock.lean", "Asynkit/Lemmas/GenEqContextlib.lean"]
DRIVERS = ["Lock"]
TRUSTED = [
    'Lean 4.33 kernel; axioms ⊆ {propext, Classical.choice, Quot.sound} (audited per theorem each run)',
    'translated, not trusted: PriorityTask/PriorityLock effective_priority and propagate_priority (mutually '
    'recursive, with a recursion bound), _take_lock, _wake_up_first, release and the three segments of acquire '
    'are re-translated from priority.py on every run (translator/lock2lean.py -> Gen/Lock.lean) and proved equal '
    'to effT/effL, propT/propL and the acquire/resume/release events of Asynkit/Model/{PrioGraph,Lock}.lean '
    '(Lemmas/GenEqLock.lean, 53 theorems)',
    'hand-written and tied only by trace acceptance through lean/Drivers/Lock.lean (every real trace replayed: '
    'each event enabled, each observation equal): the kernel half of Model/Lock.lean (task stepping, cancel / '
    'throw delivery, Event) and the representation choices of Model/LockPrims.lean (locks, tasks, futures as '
    'indices; weakrefs never die while queued; _waiters None = empty; arrival-order iteration); after every '
    'handle the real effective_priority() of every task, _holding_locks/_waiting_on and the class-1 ready-queue '
    "key of every runnable task must equal the model's",
    'asyncio kernel modelled, not verified (see C13); PosPriorityQueue pops the least (class, key, arrival) entry'
    ' (properties C10/C17); starvation boosting is switched off in these runs (priority_boost_factor = 0), it is '
    'property C19',
]
ASSUMPTIONS = [
    "locks are acquired in a fixed order, so the wait-for graph is acyclic (explicit hypothesis `Ranked` of the "
    "theorems; on a cyclic graph effective_priority() recurses without bound)",
    "all tasks are PriorityTasks, no cancellation or interruption (the quantifier of C11); a task's own "
    "priority is not reassigned",
]
RULE = ("cases: random scripts over acquire/release/sleep/wait with 1..3 locks in a fixed order and 2..5 "
        "PriorityTasks, directed chains of length 1..4 whose top holder is runnable / blocked on an event / "
        "blocked on another lock, directed 'urgent task arrives behind a queued holder' shapes, also with 17..25 waiters on one lock of the chain, a user priority() that raises once inside acquire; all arrival "
        "orders through random sleeps; both loops.  Non-trivial = some task inherited a priority (directly or "
        "through a chain), or a scheduling decision was taken on the priority loop while a runnable holder "
        "blocked a waiter.  distinct = hash of the canonical case.  The corpus and a fixed grid of directed cases (a few "
        "instances per directed generator kind, private generator with a constant seed) run first on every run")

KINDS = {
    "eff-raises": "effective_priority() returns a value (acyclic wait-for graph)",
    "eff-mismatch": "effective_priority() == min(own, priorities of all tasks transitively waiting on held locks)",
    "holder-less-urgent": "the holder of a lock is at least as urgent as every task waiting for it",
    "inversion-on-priority-loop": "no runnable task less urgent than a waiter W runs before a runnable "
                                  "holder that blocks W",
}
THEOREM = {
    "eff-raises": "Asynkit.C11.eff_fuel_independent",
    "eff-mismatch": "Asynkit.C11.eff_closed_form",
    "holder-less-urgent": "Asynkit.C11.holder_at_least_as_urgent",
    "inversion-on-priority-loop": "Asynkit.C11.inherit_immediate",
}
NONTRIVIAL = {"inherits", "inherits-through-chain-2", "inherits-through-chain-3", "inherits-through-chain-4",
              "sched-decision-with-runnable-holder", "holder-ran-ahead-of-medium-task",
              "holder-blocked-on-lock", "holder-blocked-on-event"}


def gen(rng, n):
    out = []
    for _ in range(n):
        g = rng.random()
        if g < 0.01:
            # a crowded lock (17..25 waiters) in the middle of a chain
            out.append(S.gen_chain_contended_case(rng, "C11", crowd=rng.randint(16, 24)))
        elif g < 0.02:
            out.append(S.gen_headkey_case(rng, crowd=rng.choice([rng.randint(7, 10), rng.randint(15, 23)])))
        elif g < 0.05:
            out.append(S.gen_raising_callback_case(rng))
        elif g < 0.07:
            out.append(S.gen_stale_key_case(rng))
        elif g < 0.30:
            out.append(S.gen_case(rng, "C11"))
        elif g < 0.50:
            out.append(S.gen_inherit_case(rng, "C11"))
        elif g < 0.65:
            out.append(S.gen_chain_contended_case(rng, "C11"))
        elif g < 0.73:
            out.append(S.gen_headkey_case(rng))
        elif g < 0.81:
            out.append(S.gen_fallback_case(rng))
        elif g < 0.87:
            out.append(S.gen_woken_holder_case(rng))
        else:
            out.append(S.gen_chain_case(rng))
    return out


def run(ctx):
    rng = ctx.rng
    S.explore(ctx, S.corpus_cases(PROP) + S.grid_cases(PROP), KINDS, THEOREM, sched_oracle=True, label="corpus/grid: ",
              nontrivial=NONTRIVIAL)
    cases = gen(rng, 30000 if ctx.thorough() else 2500)
    S.explore(ctx, cases, KINDS, THEOREM, sched_oracle=True, nontrivial=NONTRIVIAL)
    for c in cases[:2]:
        ctx.sample(c)


def replay(ctx, data):
    S.explore(ctx, [data["case"]], KINDS, THEOREM, sched_oracle=True, label="replay: ", nontrivial=NONTRIVIAL)
