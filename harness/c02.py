"""C02 — coroutine wrappers are transparent to the await protocol."""
from __future__ import annotations

import asyncio
import itertools

from . import core
from . import c02_common as cm

PROP = "C02"
LEAN_TARGETS = ["Asynkit.Props.C02", "Asynkit.Lemmas.GenEqC02"]
PROPS_FILES = ["Asynkit/Props/C02.lean", "Asynkit/Lemmas/GenEqC02.lean"]
DRIVERS = ["Proto"]
TRUSTED = [
    'translated, not trusted: coro_iter, coro_await, awaitmethod, awaitmethod_iter are re-translated from '
    'coroutine.py on every run, statement by statement and segment by segment (translator/wrappers2lean.py -> '
    "Gen/Wrappers.lean), and proved equal to the model's wrapper transformers (Lemmas/GenEqC02.lean, 10 "
    'theorems); CoroStart and the Monitor/BoundMonitor awaitables are translated by the units of C01 (GenEqC01W) '
    'and C07 (GenEqC07), audited by those checks',
    'Lean 4.33 kernel; axioms ⊆ {propext, Classical.choice, Quot.sound} (audited per theorem each run)',
    'hand-written: Asynkit/Model/Proto.lean (coroutine-object envelope, nativeAwait) and the runtime vocabulary '
    'Model/WrapRt.lean (what x.send/throw/close, CoroStart(...) and a tail `await x` mean); every wrapper, '
    "translated or not, is additionally run against the code by this run's differential correspondence "
    '(lean/Drivers/Proto.lean; bodies via Model/ProtoProg.lean)',
    'MODELLED, NOT VERIFIED: CPython 3.12 generator/coroutine object envelope (send/throw/close on '
    "created/suspended/finished objects, PEP 479, 'ignored GeneratorExit', 'cannot reuse'), coroutine_wrapper "
    'forwarding, PEP-380 delegation as the meaning of `await` (validated by the `ref` stream of the '
    'correspondence), asyncio.Future.__await__ handshake flag',
]
ASSUMPTIONS = [
    "no out-of-band data is sent through a Monitor and the awaited coroutine's first step does not itself raise OOBData "
    "(NoOOBFirst; theorem monitor_oob_first_excluded says what happens otherwise)",
    "CoroStart-based wrappers are compared from their first send(None) (the inner coroutine is started eagerly; "
    "reference = delegation to the already started coroutine); athrow(E) is compared for E != GeneratorExit; "
    "aclose() up to 'coroutine ignored GeneratorExit'",
    "context=None paths only (contexts are property C04)",
]
RULE = ("case = (body program, wrapper stack of depth 1..3, drive sequence of 1..7 send/throw/close); bodies are random "
        "trees over {await token/Future/bare, nested call, try/except(E1,E2,CancelledError,GeneratorExit,Exception,"
        "BaseException)/finally, re-raise, return, raise}; every case runs on the real wrappers, on CPython's own "
        "`async def ref(c): return await c` (oracle) and through the Lean model (correspondence, also for `ref`); "
        "non-trivial = the run itself shows one of: exception delivered into a handler, close/throw running a finally "
        "or handler, 'ignored GeneratorExit', wrapper stack depth >= 2, a real Future passing through (flag observed), "
        "a value held by CoroStart, athrow/aclose entry; distinct = hash of the canonical case line")

PURE = ["citer", "coro_await", "am", "ami", "mon", "bmon", "masend", "ref"]
EAGER = ["cs_await", "cs_ascoro"]
SENDS = ["s:0", "s:0", "s:3", "s:4", "s:0", "s:3", "s:9001", "s:9003"]


def gen_case(rng, thorough=False):
    stmts = cm.gen_prog(rng, allow_fut=rng.random() < 0.25, p_await=rng.choice([0.3, 0.4, 0.5]))
    depth = rng.choice([1, 1, 1, 2, 2, 3])
    layers = [rng.choice(PURE + EAGER + EAGER) for _ in range(depth)]
    special = rng.random()
    if special < 0.08:
        layers[0] = "cs_athrow:" + rng.choice(["E1", "E2", "BE", "Cancelled"])
    elif special < 0.14:
        layers[0] = "cs_aclose"
    eager = any(cm.is_eager(x) for x in layers)
    n = rng.randint(1, 7)
    drives = []
    for i in range(n):
        r = rng.random()
        if i == 0 and (eager or r < 0.85):
            drives.append("s:0")
        elif r < 0.55:
            drives.append(rng.choice(SENDS))
        elif r < 0.9:
            drives.append("t:" + rng.choice(cm.THROWABLE))
        else:
            drives.append("c")
    if layers[0] == "cs_aclose":
        drives = ["s:0"]
    return layers, stmts, drives, (eager and rng.random() < 0.5)


def ref_drives(layers, drives):
    if layers[0].startswith("cs_athrow:"):
        return ["s:0", "t:" + layers[0].split(":")[1]] + drives[1:]
    if layers[0] == "cs_aclose":
        return ["s:0", "c"]
    return drives


def judge(layers, stmts, drives, loop, resolve_held=False):
    """Oracle: real wrapper stack vs CPython's native await.  Returns (real_line, ref_line, tags, bad)."""
    real, info = cm.run_real(layers, stmts, drives, loop, resolve_held)
    rd = ref_drives(layers, drives)
    ref, rinfo = cm.run_real(["ref"], stmts, rd, loop)
    tags = set()
    a, b = cm.parse_line(real), cm.parse_line(ref)
    outs_a, outs_b = a["outs"].split(), b["outs"].split()
    bad = None
    special = layers[0].startswith("cs_athrow:") or layers[0] == "cs_aclose"
    if "c" in a["log"].replace("-", ""):
        tags.add("exception-delivered-into-handler")
    if any(d == "c" or d == "t:GenExit" for d in rd) and a["log"] != "-":
        tags.add("close-or-GeneratorExit-with-body-activity")
    if "x:RT.ignoredGE" in outs_b:
        tags.add("ignored-GeneratorExit")
    if len(layers) >= 2:
        tags.add(f"stack-depth-{len(layers)}")
    if info.get("out_flags"):
        tags.add("future-through-wrapper")
    if info.get("held_flags"):
        tags.add("future-held-by-CoroStart")
    if any(cm.is_eager(x) for x in layers):
        tags.add("eager-layer")
    if special:
        tags.add("athrow-or-aclose")
    if info.get("resolved_while_held"):
        tags.add("future-completed-while-held")
    for fl in info.get("out_flags", []):
        if not fl:
            bad = ("future yielded outward with its blocking flag clear", "flag True", "flag False")
    mon_excluded = any(x in ("mon", "bmon", "masend") for x in layers) and outs_b[:1] == ["x:OOBData"]
    if mon_excluded:
        # the awaited coroutine itself raises OOBData from its very first step: outside "no out-of-band
        # data is sent" (NoOOBFirst; theorem monitor_oob_first_excluded); model correspondence still compares
        tags.add("excluded:OOBData-from-first-step-under-Monitor")
    if "x:OOBData" in outs_b or "cOOBData" in b["log"]:
        tags.add("OOBData-not-addressed-to-a-monitor")
    if any(d == "t:FE" for d in rd):
        tags.add("falsy-exception-thrown")
    if any(d in ("s:9001", "s:9002", "s:9003") for d in rd[1:]):
        tags.add("exception-instance-sent-as-value")
    if bad is None and info.get("held_probe_fail"):
        bad = ("a Future held by CoroStart cannot be awaited by anybody else (blocking flag left set)",
               "second awaiter is suspended on the future", info["held_probe_fail"])
    if bad is None and not mon_excluded:
        if special:
            if not outs_b or not outs_b[0].startswith("y:"):
                tags.add("skipped:coroutine-finished-in-start")
            elif layers[0] == "cs_aclose" and outs_b[-1] == "x:RT.ignoredGE":
                tags.add("skipped:aclose-async-cleanup")
            else:
                if outs_a != outs_b[1:]:
                    bad = ("values yielded outward / final result differ from native await", outs_b[1:], outs_a)
                elif a["log"] != b["log"] or a["phase"] != b["phase"]:
                    bad = ("values/exceptions arriving inside differ from native await",
                           f"{b['phase']} {b['log']}", f"{a['phase']} {a['log']}")
        else:
            if outs_a != outs_b:
                bad = ("values yielded outward / final result differ from native await", outs_b, outs_a)
            elif a["log"] != b["log"] or a["phase"] != b["phase"]:
                bad = ("values/exceptions arriving inside differ from native await",
                       f"{b['phase']} {b['log']}", f"{a['phase']} {a['log']}")
    held = list(info.get("held_flags", []))
    cm.finalize(info)
    cm.finalize(rinfo)
    return real, ref, tags, bad, held


def shrink(layers, stmts, drives, loop, rh=False):
    def fails_l(ls):
        try:
            return judge(ls, stmts, drives, loop, rh)[3] is not None
        except Exception:  # noqa: BLE001
            return False
    # fewest layers first
    for k in range(1, len(layers)):
        done = False
        for sub in itertools.combinations(range(len(layers)), k):
            ls = [layers[i] for i in sub]
            if (layers[0].startswith("cs_athrow") or layers[0] == "cs_aclose") and 0 not in sub:
                continue
            if fails_l(ls):
                layers, done = ls, True
                break
        if done:
            break
    head, tail = drives[:1], drives[1:]
    tail = core.ddmin(tail, lambda t: judge(layers, stmts, head + t, loop, rh)[3] is not None) if len(tail) > 1 else tail
    if tail and judge(layers, stmts, head, loop, rh)[3] is not None:
        tail = []
    drives = head + tail
    stmts = cm.shrink_prog(stmts, lambda p: judge(layers, p, drives, loop, rh)[3] is not None)
    return layers, stmts, drives


def key_of(layers, drives, bad):
    if "FE" in str(bad[1]) and "FE" not in str(bad[2]) and any(cm.is_eager(x) or x == "coro_await" for x in layers):
        return "c02:CoroStart:falsy-exception"        # a falsy exception instance tested with `if exc:`
    if "held by CoroStart" in bad[0]:
        return "c02:CoroStart:held-future-blocking"
    kinds = sorted({x.split(":")[0] for x in layers})
    last = drives[-1].split(":")
    lastk = {"s": "send", "t": "genexit" if last[-1] == "GenExit" else "throw", "c": "genexit"}[last[0]]
    if "blocking flag clear" in bad[0]:
        return "c02:future-yielded-outward-unblocked"
    what = "flag" if "flag" in bad[0] else ("inside" if "inside" in bad[0] else "outward")
    return f"c02:{'+'.join(kinds)}:{lastk}:{what}"


def explore(ctx, cases, loop, label=""):
    lines, reals, held_stats = [], [], []
    for case in cases:
        layers, stmts, drives = case[:3]
        rh = bool(case[3]) if len(case) > 3 else False
        try:
            real, ref, tags, bad, held = judge(layers, stmts, drives, loop, rh)
        except SyntaxError as e:
            raise core.InfraError(f"generated program does not compile: {e}\n{cm.source(stmts)}")
        held_stats += held
        line = cm.case_line(layers, stmts, drives)
        ctx.case(line + (" #resolve-held" if rh else ""), sorted(t for t in tags))
        if bad is not None:
            l2, s2, d2 = shrink(layers, stmts, drives, loop, rh)
            r2 = judge(l2, s2, d2, loop, rh)
            b2 = r2[3] or bad
            ctx.violation(key_of(l2, d2, b2), f"{label}{b2[0]}",
                          {"layers": l2, "prog": s2, "drives": d2, "resolve_held": rh, "source": cm.source(s2)},
                          expected=b2[1], observed=b2[2],
                          theorem="Asynkit.C02.stack_trace_eq / *_trace_eq")
        lines.append(line)
        reals.append(real)
        lines.append(cm.case_line(["ref"], stmts, ref_drives(layers, drives)))
        reals.append(ref)
    ctx.extra["held_future_flag_values"] = {
        "True": ctx.extra.get("_hT", 0) + sum(1 for h in held_stats if h),
        "False": ctx.extra.get("_hF", 0) + sum(1 for h in held_stats if not h)}
    ctx.extra["_hT"] = ctx.extra["held_future_flag_values"]["True"]
    ctx.extra["_hF"] = ctx.extra["held_future_flag_values"]["False"]
    if not ctx.lean_ok or not lines:
        return
    mouts = ctx.lean_driver("Proto", lines)
    if len(mouts) != len(lines):
        raise core.InfraError(f"driver returned {len(mouts)} lines for {len(lines)}")
    reported = 0
    for ln, r, m in zip(lines, reals, mouts):
        if r != m:
            if reported < 3:
                which = "reference model nativeAwait vs CPython await" if ln.startswith("run | ref |") \
                    else "wrapper model vs real wrapper"
                ctx.disagreement(f"{label}{which}: `{ln}`", {"line": ln}, expected=m, observed=r,
                                 theorem="correspondence Drivers/Proto")
            reported += 1
    ctx.traces += len(lines)


def reawait(ctx, rng, loop, n):
    """A finished CoroStart awaited again must behave like a finished coroutine awaited again
    ("cannot reuse already awaited coroutine"); oracle = CPython on the coroutine itself."""
    for _ in range(n):
        stmts = cm.gen_prog(rng, p_await=0.3)
        env = cm.Env(stmts, loop)
        c = env.main()
        cs = cm.CoroStart(c)
        it = cs.__await__()
        outs = cm.drive(it, ["s:0"] + [rng.choice(SENDS) for _ in range(12)], {})
        if outs[-1].startswith("y:"):
            cm.finalize({"keep": ([c, it], it, env)})
            continue
        it2 = cs.__await__()
        got = cm.drive(it2, ["s:0"], {})
        env2 = cm.Env(stmts, loop)
        c2 = env2.main()
        r1 = cm._ref(c2)
        cm.drive(r1, ["s:0"] + ["s:0"] * 12, {})
        r2 = cm._ref(c2)
        exp = cm.drive(r2, ["s:0"], {})
        line = "reawait | " + cm.sexp(stmts)
        ctx.case(line, ["re-await-of-finished-CoroStart"])
        if got != exp:
            ctx.violation("c02:cs_await:re-await", "awaiting a finished CoroStart again differs from awaiting the "
                          "finished coroutine again", {"kind": "reawait", "prog": stmts, "source": cm.source(stmts)},
                          expected=exp, observed=got, theorem="Asynkit.Proto.coroStartAwaitB (start_result = None branch)")
        for x in (it, it2, r1, r2):
            x.close()


LOOP_LAYERS = ["citer", "coro_await", "am", "ami", "mon", "bmon", "ref", "cs_await", "cs_ascoro", "cs_await",
               "cs_ascoro"]


async def _outcome(t):
    try:
        r = await asyncio.wait_for(t, 5)
        return f"r:{cm.val(r)}"
    except asyncio.TimeoutError:
        return "timeout"
    except BaseException as e:  # noqa: BLE001
        return "x:" + cm.cname(e)


async def _loop_scenario(layers, stmts, early, loop):
    """Run the body under a real Task.  `layers=None`: native `ref(c)`.  The first Future the body
    blocks on is resolved by hand — for a wrapper stack with `early`, in the window between the
    eager start and the moment the stack is awaited; later futures resolve themselves."""
    env = cm.Env(stmts, loop, auto_after=1)
    keep, info = [], {}
    c = env.main()
    keep.append(c)

    def resolve_first():
        if env.F.order and not env.F.order[0].done():
            f = env.F.order[0]
            f.set_result(100 + f._verif_k)
            return True
        return False
    held_done = False
    if layers is None:
        t = asyncio.ensure_future(cm._ref(c))
        await asyncio.sleep(0)
        resolve_first()
    else:
        obj = cm.build(layers, c, keep, info)
        if early:
            held_done = resolve_first() and bool(info.get("held_flags"))
        t = asyncio.ensure_future(cm._ref(obj))
        if not early:
            await asyncio.sleep(0)
            resolve_first()
    out = await _outcome(t)
    res = f"out={out} ; phase={cm.phase(c)} ; log={env.log()}"
    info["keep"] = (keep, None, env)
    cm.finalize(info)
    return res, held_done


def loop_stream(ctx, rng, loop, n, fixed=None):
    """Real event loop, real Tasks, real Futures: wrapper stacks with an eagerly starting layer vs a
    native Task, including the schedule where the held Future completes before the stack is awaited."""
    cases = fixed or []
    for _ in range(n):
        stmts = cm.gen_prog(rng, p_await=rng.choice([0.4, 0.5]), fut_only=True,
                            catches=["E1", "E2", "Exception", "BaseException", "Cancelled"])
        depth = rng.choice([1, 1, 2, 3])
        layers = [rng.choice(LOOP_LAYERS) for _ in range(depth)]
        if not any(cm.is_eager(x) for x in layers):
            layers[rng.randrange(depth)] = rng.choice(["cs_await", "cs_ascoro"])
        cases.append((layers, stmts, rng.random() < 0.7))

    def run(layers, stmts, early):
        return loop.run_until_complete(_loop_scenario(layers, stmts, early, loop))
    for layers, stmts, early in cases:
        got, held_done = run(layers, stmts, early)
        exp, _ = run(None, stmts, early)
        tags = ["real-loop"] + (["future-completed-while-held"] if held_done else []) + \
            ([f"stack-depth-{len(layers)}"] if len(layers) > 1 else [])
        ctx.case("loop | %s | %s | early=%d" % (",".join(layers), cm.sexp(stmts), early), tags)
        if got != exp:
            def fails(ls, p):
                try:
                    return run(ls, p, early)[0] != run(None, p, early)[0]
                except Exception:  # noqa: BLE001
                    return False
            for one in layers:
                if cm.is_eager(one) and fails([one], stmts):
                    layers = [one]
                    break
            small = cm.shrink_prog(stmts, lambda p: fails(layers, p))
            g2, e2 = run(layers, small, early)[0], run(None, small, early)[0]
            kinds = "+".join(sorted(set(layers)))
            ctx.violation(f"c02:loop:{kinds}:{'held-future-completed' if early else 'task'}",
                          "wrapper stack awaited by a real Task differs from a native Task"
                          + (" when the Future it held completed before it was awaited" if early else ""),
                          {"kind": "loop", "layers": layers, "prog": small, "early": early,
                           "source": cm.source(small)}, expected=e2, observed=g2,
                          theorem="Asynkit.C02.coroStart_trace_eq / held_future_reyielded_blocking")


def corpus_cases():
    import json
    d = core.ROOT / "corpus" / PROP
    out = []
    if d.exists():
        for f in sorted(d.glob("*.json")):
            c = json.loads(f.read_text())
            out.append((c["layers"], _tuplify(c["prog"]), c["drives"], c.get("resolve_held", False)))
    return out


def _tuplify(p):
    out = []
    for s in p:
        k = s[0]
        if k == "call":
            out.append(("call", _tuplify(s[1])))
        elif k == "try":
            out.append(("try", _tuplify(s[1]), [(c, _tuplify(hb)) for c, hb in s[2]], _tuplify(s[3])))
        else:
            out.append(tuple(s))
    return out


def grid_cases():
    """Deterministic grid, run first on every run whatever the seed: every wrapper kind (and a few stacks) x
    fixed bodies x fixed drive sequences, one or two instances per directed situation (first op throw / close /
    non-None send, handler hit, GeneratorExit with and without awaited clean-up, falsy exception, OOBData through
    a monitor, exception instance sent as a value, KeyboardInterrupt / SystemExit, Future held and completed before
    the await, athrow / aclose)."""
    bodies = [
        [("try", [("tok", 1)], [("E1", [("tok", 2)])], [("log", 1)]), ("ret", 5)],
        [("try", [("tok", 1)], [("GenExit", [("tok", 2)])], []), ("ret", 5)],
        [("try", [("call", [("tok", 1), ("ret", 7)])], [("BaseException", [("log", 2), ("reraise",)])], [("tok", 3)])],
        [("try", [("tok", 1)], [("BaseException", [("log", 1), ("tok", 2)])], []), ("ret", 5)],
        [("tok", 1), ("raise", "OOBData")],
        [("fut", 1), ("tok", 2), ("ret", 5)],
        [("try", [("tok", 1)], [], [("bare",)])],
        [("raise", "FE")],
        [("try", [("tok", 1)], [("Exception", [("log", 1)])], []), ("ret", 7)],
    ]
    seqs = [["t:E1"], ["c"], ["s:3"], ["s:0", "t:E1", "s:3"], ["s:0", "t:GenExit"], ["s:0", "c"], ["s:0", "t:FE"],
            ["s:0", "t:OOBData"], ["s:0", "s:9001"], ["s:0", "t:KI", "s:3"], ["s:0", "t:SE"],
            ["s:0", "t:Cancelled", "c"], ["s:0", "s:0", "s:0"], ["s:0", "t:E1", "t:GenExit"]]
    stacks = [[x] for x in PURE + EAGER] + [["citer", "mon"], ["mon", "cs_await"], ["cs_ascoro", "citer"],
                                           ["bmon", "ami", "coro_await"], ["masend", "ref", "cs_ascoro"]]
    for b in bodies:
        for layers in stacks:
            eager = any(cm.is_eager(x) for x in layers)
            for seq in seqs:
                if eager and seq[0] != "s:0":
                    continue
                yield layers, b, seq, False
                if eager and b[0][0] == "fut":
                    yield layers, b, seq, True
        for special, rest in (("cs_athrow:E1", []), ("cs_athrow:BE", ["citer"]), ("cs_aclose", []), ("cs_aclose", ["mon"])):
            for seq in (["s:0"], ["s:0", "s:3"], ["s:0", "t:E2"], ["s:0", "c"]):
                yield [special] + rest, b, (["s:0"] if special == "cs_aclose" else seq), False


def exhaustive_small():
    """Every single-layer wrapper x a few fixed bodies x all drive sequences of length <= 3."""
    bodies = [
        [("try", [("tok", 1)], [("E1", [("tok", 2)])], [("log", 1)]), ("ret", 5)],
        [("try", [("tok", 1)], [("GenExit", [("tok", 2)])], []), ("ret", 5)],
        [("try", [("call", [("tok", 1), ("ret", 7)])], [("BaseException", [("log", 2), ("reraise",)])],
          [("tok", 3)])],
        [("try", [("tok", 1), ("raise", "E2")], [("Exception", [("ret", 7)])], [("log", 3)])],
    ]
    alpha = ["s:0", "s:3", "t:E1", "t:GenExit", "t:Cancelled", "c"]
    for b in bodies:
        for layer in PURE + EAGER:
            for n in (1, 2, 3):
                for seq in itertools.product(alpha, repeat=n):
                    if cm.is_eager(layer) and seq[0] != "s:0":
                        continue
                    yield [layer], b, list(seq)


def run(ctx):
    rng = ctx.rng
    loop = asyncio.new_event_loop()
    try:
        explore(ctx, corpus_cases(), loop, label="corpus: ")
        grid = list(grid_cases())
        explore(ctx, grid, loop, label="grid: ")
        ctx.extra["deterministic_grid_cases"] = len(grid)
        import random as _random
        fixed = _random.Random(20250502)
        asyncio.set_event_loop(loop)
        loop_stream(ctx, fixed, loop, 60)
        reawait(ctx, fixed, loop, 30)
        n = 120000 if ctx.thorough() else 5000
        batch = 3000
        first = True
        while n > 0:
            cases = [gen_case(rng, ctx.thorough()) for _ in range(min(batch, n))]
            explore(ctx, cases, loop)
            if first:
                for c in cases[:3]:
                    ctx.sample(cm.case_line(*c[:3]))
                first = False
            n -= len(cases)
        reawait(ctx, rng, loop, 1500 if ctx.thorough() else 200)
        asyncio.set_event_loop(loop)
        loop_stream(ctx, rng, loop, 6000 if ctx.thorough() else 600)
        ex = list(exhaustive_small())
        if not ctx.thorough():
            ex = rng.sample(ex, 600)
        explore(ctx, ex, loop, label="small-exhaustive: ")
        ctx.extra["small_exhaustive_cases"] = len(ex)
        ctx.extra.pop("_hT", None)
        ctx.extra.pop("_hF", None)
    finally:
        asyncio.set_event_loop(None)
        loop.close()


def replay(ctx, data):
    c = data["case"]
    loop = asyncio.new_event_loop()
    asyncio.set_event_loop(loop)
    try:
        if "line" in c and "layers" not in c:
            # a correspondence disagreement: re-run the line on both sides
            parts = [p.strip() for p in c["line"].split("|")]
            raise core.InfraError("replay of raw correspondence lines: re-run ./check C02 (line: %s)" % parts)
        if c.get("kind") == "loop":
            loop_stream(ctx, None, loop, 0, fixed=[(c["layers"], _tuplify(c["prog"]), c["early"])])
            return
        explore(ctx, [(c["layers"], _tuplify(c["prog"]), c["drives"], c.get("resolve_held", False))], loop,
                label="replay: ")
    finally:
        loop.close()
