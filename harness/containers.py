"""Real-code executor for the container line protocol (same lines as lean/Drivers/PQ.lean)."""
from __future__ import annotations

import copy as _copy
from fractions import Fraction

from asynkit.tools import PriorityQueue
import asynkit.experimental.priority as prio
from asynkit.experimental.priority import PosPriorityQueue


class OnlyLt:
    """A priority type that defines nothing but `<` (every other comparison raises)."""
    __slots__ = ("v",)

    def __init__(self, v):
        self.v = v

    def __lt__(self, o):
        return self.v < o.v

    def _no(self, o):  # pragma: no cover
        raise TypeError("only < is defined")

    __le__ = __gt__ = __ge__ = _no
    __eq__ = _no
    __ne__ = _no
    __hash__ = None

    def __repr__(self):
        return f"P({self.v})"


class Box:
    """Queued objects: compared by value, never by identity — every call builds a fresh instance,
    so `x in q`, `remove(x)` and `find` see an object that is equal to, but not the same as, the queued one."""
    __slots__ = ("v",)

    def __init__(self, v):
        self.v = v

    def __eq__(self, o):
        return isinstance(o, Box) and self.v == o.v

    def __hash__(self):
        return hash(("Box", self.v))

    def __repr__(self):
        return str(self.v)

    __str__ = __repr__


class _Rand:
    def __init__(self):
        self.value = 0.5

    def random(self):
        return self.value


def frac(s: str) -> Fraction:
    return Fraction(s)


def show_rat(x) -> str:
    f = Fraction(x)
    return f"{f.numerator}/{f.denominator}"


def pv(p):
    return p.v if isinstance(p, OnlyLt) else p


class RealContainers:
    def __init__(self, only_lt: bool = False):
        self.pqs = {}
        self.poss = {}
        self.only_lt = only_lt
        self.rand = _Rand()
        self.kept = {}

    # -- helpers
    def P(self, v: int):
        return OnlyLt(v) if self.only_lt else v

    def pq(self, i):
        if i not in self.pqs:
            self.pqs[i] = PriorityQueue()
        return self.pqs[i]

    def pos(self, i):
        if i not in self.poss:
            self._newpos(i, Fraction(6, 5))
        return self.poss[i]

    def _newpos(self, i, factor):
        gp = {}
        q = PosPriorityQueue(lambda o: gp.get(o, 0.0))
        q.priority_boost_factor = float(factor)
        self.poss[i] = (q, gp)

    @staticmethod
    def items(entries):
        return "list " + ",".join(f"{pv(p)}:{o}" for p, o in entries)

    def step(self, line: str) -> str:
        t = line.split()
        try:
            if t[0] == "pq":
                return self.step_pq(int(t[1]), t[2:])
            if t[0] == "pos":
                saved = prio.random
                prio.random = self.rand
                try:
                    return self.step_pos(int(t[1]), t[2:])
                finally:
                    prio.random = saved
            if t == ["reset"]:
                self.pqs.clear()
                self.poss.clear()
                return "ok"
        except IndexError:
            return "err IndexError"
        except ValueError:
            return "err ValueError"
        return "bad-op"

    def step_pq(self, i, a):
        q = self.pq(i)
        op = a[0]
        if op == "new":
            self.pqs[i] = PriorityQueue()
            return "ok"
        if op == "add":
            q.add(self.P(int(a[1])), Box(int(a[2])))
            return "ok"
        if op == "extend":
            es = [] if a[1] == "-" else [(self.P(int(p)), Box(int(o))) for p, o in
                                         (x.split(":") for x in a[1].split(","))]
            q.extend(iter(es))
            return "ok"
        if op == "pop":
            return f"obj {q.pop()}"
        if op == "popitem":
            p, o = q.popitem()
            return f"item {pv(p)} {o}"
        if op == "peek":
            return f"obj {q.peek()}"
        if op == "peekitem":
            p, o = q.peekitem()
            return f"item {pv(p)} {o}"
        if op == "len":
            return f"n {len(q)}"
        if op == "bool":
            return f"b {1 if q else 0}"
        if op == "in":
            return f"b {1 if Box(int(a[1])) in q else 0}"
        if op == "remove":
            return f"pri {pv(q.remove(Box(int(a[1]))))}"
        if op == "find":
            x = Box(int(a[1]))
            r = q.find(lambda o: o == x, remove=a[2] == "1")
            return "none" if r is None else f"item {pv(r[0])} {r[1]}"
        if op == "findmod":
            m, rr = int(a[1]), int(a[2])
            r = q.find(lambda o: o.v % m == rr, remove=a[3] == "1")
            return "none" if r is None else f"item {pv(r[0])} {r[1]}"
        if op == "resched":
            x = Box(int(a[1]))
            r = q.reschedule(lambda o: o == x, self.P(int(a[2])))
            return "none" if r is None else f"obj {r}"
        if op == "reschedmod":
            m, rr = int(a[1]), int(a[2])
            r = q.reschedule(lambda o: o.v % m == rr, self.P(int(a[3])))
            return "none" if r is None else f"obj {r}"
        if op == "refresh":
            q.refresh()
            return "ok"
        if op == "sort":
            q.sort()
            return "ok"
        if op == "clear":
            q.clear()
            return "ok"
        if op == "copy":
            self.pqs[int(a[1])] = q.copy()
            return "ok"
        if op == "copysorted":
            # sorted() = an independent, sorted copy (the model: copy, then sort — the generator
            # follows this line with `pq <j> sort`, a no-op on the real snapshot)
            self.pqs[int(a[1])] = q.sorted()
            return "ok"
        if op == "ordered":
            k = int(a[1])
            g = q.ordereditems()
            out = []
            try:
                for _ in range(k):
                    try:
                        out.append(next(g))
                    except StopIteration:
                        break
            finally:
                g.close()
            return self.items(out)
        if op == "ordopen":
            # an ordered iteration advanced k steps and left open while another one runs
            g = q.ordereditems()
            for _ in range(int(a[1])):
                try:
                    next(g)
                except StopIteration:
                    break
            self.kept.setdefault(("pq", i), []).append(g)
            return "ok"
        if op == "ordclose":
            for g in self.kept.pop(("pq", i), []):
                g.close()
            return "ok"
        if op == "drain":
            c = q.copy()
            out = []
            while c:
                out.append(c.popitem())
            return self.items(out)
        if op == "sorteditems":
            return self.items(list(q.sorted().items()))
        if op == "items":
            return self.items(sorted(((pv(p), o.v) for p, o in q.items())))
        if op == "layout":
            return self.items(list(q.items()))
        if op == "seq":
            return f"n {q._sequence}"
        return "bad-op"

    def step_pos(self, i, a):
        op = a[0]
        if op == "new":
            self._newpos(i, frac(a[1]))
            return "ok"
        q, gp = self.pos(i)
        if op == "gp":
            gp[Box(int(a[1]))] = float(frac(a[2]))
            return "ok"
        if op == "draw":
            self.rand.value = float(frac(a[1]))
            return "ok"
        if op == "append":
            q.append(Box(int(a[1])))
            return "ok"
        if op == "appendpri":
            q.append_pri(Box(int(a[1])), float(frac(a[2])))
            return "ok"
        if op == "insert":
            q.insert(int(a[1]), Box(int(a[2])))
            return "ok"
        if op == "popleft":
            return f"obj {q.popleft()}"
        if op == "remove":
            q.remove(Box(int(a[1])))
            return "ok"
        if op == "find":
            x = Box(int(a[1]))
            r = q.find(lambda o: o == x, remove=a[2] == "1")
            return "none" if r is None else f"obj {r}"
        if op == "resched":
            x = Box(int(a[1]))
            r = q.reschedule(lambda o: o == x, float(frac(a[2])))
            return "none" if r is None else f"obj {r}"
        if op == "reschedall":
            q.reschedule_all()
            return "ok"
        if op == "clear":
            q.clear()
            return "ok"
        if op == "iter":
            return "list " + ",".join(str(o) for o in q)
        if op == "iteropen":
            # an iteration advanced k steps and then kept alive (a `for` loop left by `break` whose
            # iterator is still referenced, a body that awaits): the queue must not care
            it = iter(q)
            got = []
            for _ in range(int(a[1])):
                try:
                    got.append(next(it))
                except StopIteration:
                    break
            self.kept.setdefault(i, []).append(it)
            return "list " + ",".join(str(o) for o in got)
        if op == "iterclose":
            for it in self.kept.pop(i, []):
                it.close()
            return "ok"
        if op == "len":
            return f"n {len(q)}"
        if op == "bool":
            return f"b {1 if q else 0}"
        if op == "in":
            return f"b {1 if Box(int(a[1])) in q else 0}"
        if op == "drain":
            # non-destructive: drain a copy of the underlying priority queue (popleft on the real
            # object would touch the counters; the object holds a lock and cannot be deep-copied)
            c = q._pq.copy()
            out = []
            while c:
                out.append(c.popitem()[1])
            return "list " + ",".join(map(str, out))
        if op == "prios":
            c = q._pq.copy()
            c.sort()
            return "list " + ",".join(
                f"{o}:{p.priority_class}:{show_rat(p.base_priority)}:{show_rat(p.priority_boost)}"
                for p, o in c.items())
        if op == "counters":
            return f"ctr {q.n_inserted} {q.n_removed} {q.last_maintenance}"
        return "bad-op"


def run_real(lines, only_lt=False):
    rc = RealContainers(only_lt=only_lt)
    return [rc.step(ln) for ln in lines]
