"""C10 — priority loop: most urgent first, FIFO among equals, positions override."""
from __future__ import annotations

import json
from fractions import Fraction

from . import core
from . import c08_sched as S

PROP = "C10"
LEAN_TARGETS = ["Asynkit.Props.C10", "Asynkit.Lemmas.GenEqSched", "Asynkit.Lemmas.GenEqPosPQ", "Asynkit.Lemmas.GenEqPQ", "Asynkit.Lemmas.GenEqLoopStd"]
PROPS_FILES = ["Asynkit/Props/C10.lean", "Asynkit/Lemmas/GenEqSched.lean", "Asynkit/Lemmas/GenEqPosPQ.lean", "Asynkit/Lemmas/GenEqPQ.lean", "Asynkit/Lemmas/GenEqLoopStd.lean"]
DRIVERS = ["Sched"]
TRUSTED = [
    'Lean 4.33 kernel; axioms ⊆ {propext, Classical.choice, Quot.sound} (audited per theorem each run)',
    'translated, not trusted: the ready queue (every method of PosPriorityQueue and of tools.PriorityQueue: '
    'translator/pospq2lean.py, pq2lean.py -> Gen/PosPQ.lean, Gen/PQ.lean; Lemmas/GenEqPosPQ.lean 41, GenEqPQ.lean'
    " 29 theorems) and PrioritySchedulingMixin's queue_* / call_pos / get_priority / task_reschedule with the "
    'scheduling helpers (translator/sched2lean.py -> Gen/SchedOps.lean; Lemmas/GenEqSched.lean, 18 theorems) are '
    're-translated from the source on every run and proved equal to Model/{PosPQ,PQ,Sched}',
    'hand-written and tied only by the differential correspondence of this run (lean/Drivers/Sched.lean): '
    "asyncio's stepping and the program interpreter of Asynkit/Model/Sched.lean, and the evaluation of "
    "PriorityTask/PriorityLock effective priorities at queueing time (the lock layer itself is C11-C13's "
    'translation unit)',
    'CPython heapq meets its documented contract (HeapLib.Lawful hypothesis of the theorems; the executable model'
    " transcribes heapq's sift loops)",
    'modelled, not verified: asyncio call_soon / Task.__step / Future.set_result / _run_once as in C08; '
    'asyncio.Lock base class fields used by PriorityLock',
    'priorities are exact rationals in the model; the harness only uses values exactly representable as floats',
]
ASSUMPTIONS = [
    "nested PriorityLock sections take the locks in increasing index order (no deadlock; the wait-for graph is "
    "acyclic), chains of up to three locks",
    "no timers, I/O or cancellation; a handle is queued at most once at a time",
    "exact-order clause: priority_boost_factor = 0; equal-priority clause: default factor with "
    "asynkit.experimental.priority.random stubbed to a fixed cycle of draws",
]
RULE = ("case = multi-task program as in C08 with per-task priorities from {-10,-1,0,0.5,1,10} given as ints, floats "
        "or Priority members, PriorityTasks, plain Tasks and callbacks mixed, tasks changing priority_value, "
        "PriorityLock sections (nested, fixed lock order), create_task_descend under lock contention, positional entries "
        "re-evaluated through inheritance chains of 2-3 locks, long histories (maintenance); each program "
        "is run (a) on the priority loop with boosting off under the lock-step reference of the stated order, (b) with "
        "all priorities zeroed on the priority loop (default boosting) and on SchedulingSelectorEventLoop; "
        "non-trivial = the run itself had a positional entry ahead of a more urgent one, a tie resolved by arrival, "
        "a re-keyed entry, an inherited priority, a maintenance round; distinct = hash of the canonical program text")

DRAWS = [0.9, 0.1, 0.5, 0.3, 0.7]


def exc_in(log):
    for e in log:
        if "=E:" in e or e.startswith("!"):
            return e
    return None


def run_exact(prog):
    """priority loop, boosting off, lock-step reference -> (log, failure or None, tags)"""
    r = S.RealRunner(prog, "prio", boost=0.0, shadow=True, check_runnable=True)
    log = r.run()
    bad = exc_in(log)
    if bad is not None:
        kind = bad.split(":")[-1].split("/")[0]
        return log, ("domain", kind, bad), r
    if r.shadow.fail is not None:
        return log, ("order", "", r.shadow.fail), r
    if r.runnable_fail is not None:
        if "raised" in r.runnable_fail:
            return log, ("domain", r.runnable_fail.split()[-1], r.runnable_fail), r
        return log, ("runnable", "", r.runnable_fail), r
    return log, None, r



def run_equal(prog):
    z = S.zeroed(prog)
    ra = S.RealRunner(z, "prio", draws=DRAWS)
    a = ra.run()
    b = S.RealRunner(z, "sched").run()
    bad = exc_in(a)
    if bad is not None:
        return z, a, b, ("domain", bad.split(":")[-1].split("/")[0], bad), ra
    if a != b:
        return z, a, b, ("equal", "", None), ra
    return z, a, b, None, ra


def pri_kinds(prog):
    ks = set()
    for t in prog["tasks"]:
        if t["kind"] == "prio":
            ks.add(t["pri"].split(":")[0])
        for o in t["ops"]:
            if o[0] == "sp":
                ks.add(o[1].split(":")[0])
    return "".join(sorted(ks))


def shrink(prog, pred):
    items = S.flatten(prog)
    return S.rebuild(prog, core.ddmin(items, lambda sub: pred(S.rebuild(prog, sub))))


def simplify_pris(prog, pred):
    """second shrinking pass: replace priorities by plain ints where the failure persists"""
    cur = json.loads(json.dumps(prog))
    for t in cur["tasks"]:
        for cand in ("i:0", "i:1", "i:-1"):
            if t["pri"] == cand:
                break
            old = t["pri"]
            t["pri"] = cand
            if pred(cur):
                break
            t["pri"] = old
    return cur


def report_exact(ctx, prog, fail, label):
    cls = fail[0]

    def pred(p):
        f = run_exact(p)[1]
        return f is not None and f[0] == cls
    small = shrink(prog, pred)
    if cls != "domain":
        small = simplify_pris(small, pred)
    log, f2, _ = run_exact(small)
    if f2 is None or f2[0] != cls:
        small, f2 = prog, fail
        log = run_exact(prog)[0]
    if cls == "domain":
        ctx.violation(f"domain:{f2[1]}",
                      f"{label}a priority of the documented domain (kinds used: {pri_kinds(small)}) is not accepted "
                      f"by the priority loop: {f2[2]}",
                      {"prog": small, "clause": "exact"}, expected="no exception", observed=log,
                      theorem="Asynkit.C10.priority_domain_total")
    elif cls == "order":
        ctx.violation("order",
                      f"{label}the priority loop ran {f2[2]['ran']} while {f2[2]['should_run']} was due "
                      f"(positional entries first in requested order, then lowest priority, then arrival)",
                      {"prog": small, "clause": "exact"}, expected=f2[2], observed=log,
                      theorem="Asynkit.C10.popleft_min / positional_first / fifo_among_equals / reschedule_keeps_class")
    else:
        ctx.violation("runnable",
                      f"{label}runnable_tasks() disagrees with the reference ready set: {f2[2]}",
                      {"prog": small, "clause": "exact"}, expected="same task set", observed=f2[2],
                      theorem="Asynkit.C10.popleft_min")


def report_equal(ctx, prog, fail, label):
    cls = fail[0]

    def pred(p):
        f = run_equal(p)[3]
        return f is not None and f[0] == cls
    small = shrink(prog, pred)
    z, a, b, f2, _ = run_equal(small)
    if f2 is None:
        small = prog
        z, a, b, f2, _ = run_equal(prog)
    if cls == "domain":
        ctx.violation(f"domain:{f2[1]}",
                      f"{label}a priority of the documented domain is not accepted by the priority loop: {f2[2]}",
                      {"prog": z, "clause": "equal"}, expected="no exception", observed=a,
                      theorem="Asynkit.C10.priority_domain_total")
        return
    i = next((k for k, (x, y) in enumerate(zip(a, b)) if x != y), min(len(a), len(b)))
    ctx.violation("equal",
                  f"{label}with all priorities equal the priority loop (default boosting) schedules differently from "
                  f"SchedulingSelectorEventLoop at event {i}: {a[i:i+1]} vs {b[i:i+1]}",
                  {"prog": z, "clause": "equal"}, expected=b, observed=a,
                  theorem="Asynkit.C10.equal_pri_like_plain_loop")


def situation_tags(prog, log, runner, eq_runner):
    tags = set()
    pris = {S.pri_frac(t["pri"]) for t in prog["tasks"] if t["kind"] == "prio"}
    if len(pris) > 1:
        tags.add("distinct-priorities")
    kinds = {t["pri"].split(":")[0] for t in prog["tasks"] if t["kind"] == "prio"}
    for k in kinds:
        tags.add({"i": "int-priority", "f": "float-priority", "e": "enum-priority"}[k])
    if any(t["kind"] == "plain" for t in prog["tasks"]):
        tags.add("plain-task")
    ops = {o[0] for t in prog["tasks"] for o in t["ops"]}
    done = {e.split("=")[0] for e in log if "=ok/" in e}
    for sid, t in enumerate(prog["tasks"]):
        for i, o in enumerate(t["ops"]):
            if f"t{sid}.{i}" in done:
                if o[0] == "sp":
                    tags.add("priority-changed-while-running")
                if o[0] == "de":
                    tags.add("descend")
                if o[0] == "aq":
                    tags.add("lock-acquired")
    if runner is not None and runner.shadow is not None:
        tags |= runner.shadow.tags
    if "cp" in ops or "si" in ops or "sw" in ops:
        tags.add("positional")
    if eq_runner is not None and len(eq_runner.log) > 120:
        tags.add("long-history")
    return tags


def n_ops(prog):
    return sum(len(t["ops"]) for t in prog["tasks"]) + len(prog["init"])


def flush(ctx, pending, label):
    """shrink the three smallest failing programs of each class, report the smallest result
    (further failures of the class only add to its count)"""
    for (clause, cls), cands in pending.items():
        cands.sort(key=lambda c: n_ops(c[0]))
        sub = Collector(ctx)
        for prog, fail in cands[:3]:
            (report_exact if clause == "exact" else report_equal)(sub, prog, fail, label)
        sub.emit(extra=len(cands) - 1)


class Collector:
    """stands in for ctx while candidates are shrunk; emits the smallest case per key"""

    def __init__(self, ctx):
        self.ctx, self.best = ctx, {}

    def violation(self, key, what, case, expected=None, observed=None, theorem=""):
        cur = self.best.get(key)
        if cur is None or n_ops(case["prog"]) < n_ops(cur[1]["prog"]):
            self.best[key] = (what, case, expected, observed, theorem)

    def emit(self, extra=0):
        for key, (what, case, expected, observed, theorem) in self.best.items():
            self.ctx.violation(key, what, case, expected=expected, observed=observed, theorem=theorem)
        for key in list(self.best)[:1]:
            for _ in range(extra):
                self.ctx.violation(key, "", None)


def explore(ctx, progs, label=""):
    jobs = []
    pending = {}
    for prog in progs:
        log, fail, runner = run_exact(prog)
        z, a, b, efail, era = run_equal(prog)
        tags = situation_tags(prog, log, runner, era)
        if getattr(era, "maint", 0):
            tags.add("maintenance-round")
        static = {"distinct-priorities", "int-priority", "float-priority", "enum-priority", "plain-task",
                  "positional", "long-history"}
        for t in tags & static:
            ctx.tag(t)
        ctx.case(S.prog_text(prog), sorted(tags - static))
        if fail is not None:
            pending.setdefault(("exact", fail[0]), []).append((prog, fail))
        if efail is not None and not (fail is not None and fail[0] == "domain" and efail[0] == "domain"):
            pending.setdefault(("equal", efail[0]), []).append((prog, efail))
        jobs.append((prog, log, z, a, b))
    flush(ctx, pending, label)
    if not ctx.lean_ok or not jobs:
        return
    lines, idx = [], []
    for prog, log, z, a, b in jobs:
        lines += S.encode(prog, "prio", Fraction(0))
        idx.append(len(lines) - 1)
        lines += S.encode(z, "prio", Fraction(6, 5))
        idx.append(len(lines) - 1)
        lines.append("run list")
        idx.append(len(lines) - 1)
    mo = ctx.lean_driver("Sched", lines)
    if len(mo) != len(lines):
        raise core.InfraError(f"driver returned {len(mo)} lines for {len(lines)}")
    reported = 0
    for j, (prog, log, z, a, b) in enumerate(jobs):
        for k, (real, what, p) in enumerate(((log, "priority loop, boosting off", prog),
                                             (a, "priority loop, equal priorities, default boosting", z),
                                             (b, "SchedulingSelectorEventLoop, equal priorities", z))):
            m = mo[idx[3 * j + k]]
            m = m.split(" ") if m else []
            if m != real:
                if reported < 3:
                    i = next((q for q, (x, y) in enumerate(zip(m, real)) if x != y), min(len(m), len(real)))
                    ctx.disagreement(f"{label}model and implementation differ ({what}) at event {i}",
                                     {"prog": p, "clause": ["exact", "equal", "equal"][k]},
                                     expected=m, observed=real, theorem="correspondence Drivers/Sched (Model/Sched, PosPQ)")
                reported += 1
            ctx.traces += 1


def corpus_cases():
    d = core.ROOT / "corpus" / PROP
    out = []
    if d.exists():
        for f in sorted(d.glob("*.json")):
            out.append(json.loads(f.read_text())["prog"])
    return out


def run(ctx):
    rng = ctx.rng
    explore(ctx, corpus_cases(), label="corpus: ")
    if ctx.thorough():
        n_rand, n_cont, n_long, n_chain = 24000, 6000, 2400, 6000
    else:
        n_rand, n_cont, n_long, n_chain = 2400, 800, 300, 700
    progs = [S.gen_program(rng, "c10") for _ in range(n_rand)]
    for p in progs[:2]:
        ctx.sample(p)
    for i in range(0, len(progs), 1500):
        explore(ctx, progs[i:i + 1500])
    progs = [S.gen_contention(rng) for _ in range(n_cont)] + [S.gen_bound(rng, "c10") for _ in range(n_cont // 8)]
    ctx.sample(progs[0])
    explore(ctx, progs, label="contention: ")
    progs = [S.gen_chain(rng) for _ in range(n_chain)] + [S.gen_inflight(rng) for _ in range(n_chain // 7)] \
        + [S.gen_huge(rng) for _ in range(n_chain // 7)]
    ctx.sample(progs[0])
    for i in range(0, len(progs), 1500):
        explore(ctx, progs[i:i + 1500], label="chain: ")
    progs = [S.gen_program(rng, "c10", n_tasks=rng.randint(3, 6), long=True) for _ in range(n_long)]
    for i in range(0, len(progs), 400):
        explore(ctx, progs[i:i + 400], label="long: ")


def replay(ctx, data):
    explore(ctx, [data["case"]["prog"]], label="replay: ")
