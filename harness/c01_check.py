"""Shared machinery of the C01 and C03 checks (eager(): synchronous prefix + plain-Task outcome;
cancellation of an eager awaitable).  See notes/C01.md, notes/C03.md.

Three layers, all on the same generated cases:
  1. correspondence: real `asynkit.eager`/… and real plain Tasks vs the Lean model
     (lean/Drivers/Eager.lean = Model/EagerKernel + Model/EagerProg), snapshot by snapshot;
  2. oracle (independent of the model): the *plain asyncio.Task* run of the same body under the same
     environment script on the real interpreter;
  3. several coroutines alive at once (shared futures, awaiting one another, nested eager children):
     eager run vs plain-Task run of the whole program.
"""
from __future__ import annotations

import itertools
import json

from . import core
from . import c01_lang as L
from . import c01_run as R

VARIANTS = ["eager", "coro_eager", "func_eager", "eager_func", "factory", "eager_ctx", "cancelling",
            "pytask_factory", "loopfactory_classic", "loopfactory_kw"]
CTX_VARIANTS = ("eager_ctx", "cancelling")
CANCEL_MSG = "bye"
# how the `with` block is left: normally, by an Exception, or by a BaseException (the CancelledError of the task
# owning the block, GeneratorExit of a generator being closed, a custom BaseException)
EXIT_EXC = [None, None, None, "E1", "CA", "CA", "GE", "B1"]
FAIL_KINDS = ["E1", "E2", "B1", "RT"]


# ---------------------------------------------------------------------------------------
# generation


def settle_len(prog) -> int:
    return L.count_stmt(prog, "S") + L.count_stmt(prog, "Y") + 3


def gen_futs(rng, n):
    out = []
    for _ in range(n):
        r = rng.random()
        out.append("P" if r < 0.52 else "Q" if r < 0.62 else "T" if r < 0.72 else f"V{rng.randint(1, 9)}" if r < 0.86
                   else "X" + rng.choice(FAIL_KINDS) if r < 0.95 else "C")
    return out


def gen_env_event(rng, nfut, with_cancel, allow_run):
    r = rng.random()
    f = rng.randrange(nfut)
    if with_cancel and r < 0.30:
        # cancel() / cancel(msg): a plain Task delivers the message to the body and to the awaiter
        return ["cancel"]           # uniform_messages() decides per case whether the cancels carry a message
    if allow_run and r < 0.45:
        return ["run"]
    if r < 0.72:
        return ["res", f, rng.randint(1, 9)]
    if r < 0.82:
        return ["fail", f, rng.choice(FAIL_KINDS)]
    if r < 0.90:
        return ["cf", f]
    return ["clr", f]


def gen_single(rng, with_cancel, raw=False):
    nfut = rng.randint(2, 4)
    prog = L.gen_prog(rng, nfut, cancel_handlers=with_cancel)
    futs = gen_futs(rng, nfut)
    script = []         # items: an event, or ["settle"] = run the loop until the task is blocked/done
    if raw:
        for _ in range(rng.randint(1, 12)):
            script.append(gen_env_event(rng, nfut, with_cancel, True))
    else:
        for _ in range(rng.choice([0, 0, 1, 1, 2, 3])):
            script.append(gen_env_event(rng, nfut, with_cancel, False))
        script.append(["settle"])
        for _ in range(rng.randint(0, 3)):
            for _ in range(rng.randint(1, 3)):
                script.append(gen_env_event(rng, nfut, with_cancel, True))
            script.append(["settle"])
    script = uniform_messages(rng, script)
    variant = rng.choice(VARIANTS)
    ncan = sum(1 for e in script if e[0] == "cancel")
    if variant in CTX_VARIANTS and not ncan:
        variant = "eager"
    case = {"kind": "single", "prog": prog, "futs": futs, "script": script, "variant": variant}
    r = rng.random()
    if r < 0.3:
        # eager() called from an event-loop callback instead of from a task
        case["caller"] = "call_soon" if r < 0.2 else "done_callback"
    if variant in CTX_VARIANTS:
        # which of the cancel events is the block exit (earlier ones are cancel() calls inside the block)
        case["exit_at"] = rng.randrange(ncan)
        case["exit_exc"] = rng.choice(EXIT_EXC)
    return expand(case)


def gen_ctx(rng):
    """eager_ctx()/cancelling() blocks with cancels issued *inside* the block, bodies that suppress the
    CancelledError and suspend again, then the block exit: k suppressing stages, then a last stage with
    cleanup; every stage awaits its own pending future."""
    k = rng.randint(1, 3)
    nfut = k + 2
    prog = []
    for i in range(k):
        hb = rng.choice([[], [["S"]], [["L", i + 1]], [["A", nfut - 1]]])
        prog.append(["T", [["A", i]], rng.choice(["CA", "CA", "BA"]), False, hb,
                     rng.choice([[], [["L", 9]]])])
        if rng.random() < 0.3:
            prog.append(["S"])
    prog.append(["T", [["A", k]], rng.choice(["N", "CA", "BA"]), True, [["L", 7]],
                 rng.choice([[], [["L", 8]], [["S"]]])])
    if rng.random() < 0.5:
        prog.append(["R", 5])
    futs = ["P"] * (nfut - 1) + [rng.choice(["V3", "P"])]
    script = []
    for _ in range(rng.choice([0, 0, 1])):
        script.append(["settle"])
    ncan = rng.randint(1, k + 2)
    for i in range(ncan):
        script.append(["cancel"])
        if rng.random() < 0.15:
            script.append(["cancel"])
            ncan += 0
        if rng.random() < 0.85:
            script.append(["settle"])
        if rng.random() < 0.15:
            script += [["res", rng.randrange(nfut), rng.randint(1, 9)], ["settle"]]
    script.append(["settle"])
    script = uniform_messages(rng, script)
    total = sum(1 for e in script if e[0] == "cancel")
    variant = rng.choice(["eager_ctx", "eager_ctx", "cancelling", "eager"])
    case = {"kind": "single", "prog": prog, "futs": futs, "script": script, "variant": variant}
    if variant in CTX_VARIANTS:
        case["exit_at"] = rng.randrange(total)
        case["exit_exc"] = rng.choice(EXIT_EXC)
    if not script_ok(script):
        script.append(["settle"])
    return expand(case)


def uniform_messages(rng, items, multi=False):
    """Per case either every cancel carries the message or none does: a cancel issued before the continuation's
    first step takes effect at that step (notes/C03.md), so with *different* messages in that window the eager Task
    legitimately delivers the last one where the plain Task delivers the first."""
    if rng.random() >= 0.4:
        return items
    out = []
    for it in items:
        e = it[0] if multi else it
        if e[0] == "cancel" and len(e) == (2 if multi else 1):
            e = e + [CANCEL_MSG]
        out.append([e, it[1]] if multi else e)
    return out


def expand(case):
    """derive the event list and the settled instants from the script"""
    st = settle_len(case["prog"])
    ev, marks = [], []
    for it in case["script"]:
        if it[0] == "settle":
            ev += [["run"]] * st
            marks.append(len(ev))
        else:
            ev.append(it)
    case["events"], case["marks"] = ev, marks
    return case


def script_ok(script) -> bool:
    """eager and plain runs are comparable at settled instants only; a single loop iteration is
    meaningful only once both have been settled (the continuation Task's first iteration is bookkeeping)"""
    settled = False
    for it in script:
        if it[0] == "settle":
            settled = True
        elif it[0] == "run" and not settled:
            return False
    return bool(script) and script[-1][0] == "settle"


def pre_len(events) -> int:
    n = 0
    for e in events:
        if e[0] == "run":
            break
        n += 1
    return n


# ---------------------------------------------------------------------------------------
# snapshots


def parse_snap(s):
    if s == "!":
        return {"log": [], "out": "!", "futs": [], "nt": "nt0", "ph": "?"}
    lg, out, futs, nt, ph = [x.strip() for x in s.split("|")]
    return {"log": [] if lg == "-" else lg.split(","), "out": out, "futs": futs.split(), "nt": nt, "ph": ph}


def cumulative(snaps, upto):
    """observable state after snapshot index `upto` (flags dropped: they are kernel-internal)"""
    log = []
    for s in snaps[:upto + 1]:
        log += parse_snap(s)["log"]
    last = parse_snap(snaps[upto])
    return {"log": log, "out": last["out"], "futs": [f[:-2] + f[-1] for f in last["futs"]], "ph": last["ph"]}


def real_single(case, mode):
    c = dict(case)
    c["mode"] = mode
    return R.run_single(c)


# ---------------------------------------------------------------------------------------
# oracle for one single-coroutine case


def oracle_single(case):
    """-> (None, tags) or ((what, expected, observed), tags).  Reference = the plain Task."""
    tags = set()
    ev = case["events"]
    e_snaps = real_single(case, "E")
    p_snaps = real_single(case, "PS")
    e0, p0 = parse_snap(e_snaps[0]), parse_snap(p_snaps[0])
    # --- synchronous prefix: everything the plain Task does in its first step has happened when
    #     eager() returns, and nothing more
    if e0["log"] != p0["log"] or e0["ph"] != p0["ph"]:
        return ("prefix", {"log": p0["log"], "phase": p0["ph"]}, {"log": e0["log"], "phase": e0["ph"]}), tags
    if p0["out"] != "-":
        o = p0["out"].rstrip("~")
        tags.add("done-in-prefix:" + ("ret" if o[0] == "R" else
                                      "cancel-subclass-or-args" if o in ("SD", "C2") else
                                      "baseexc" if o in ("XB1", "CA") else "exc"))
        if e0["out"] != p0["out"] or e0["nt"] != "nt0":
            return ("done-no-task", {"out": p0["out"], "new_tasks": "nt0"},
                    {"out": e0["out"], "new_tasks": e0["nt"]}), tags
    else:
        if e0["out"] != "-":
            return ("prefix", {"out": "-"}, {"out": e0["out"]}), tags
        tags.add("suspended-in-prefix")
    # --- situations reached (detected from the run)
    n = pre_len(ev)
    pre = ev[:n]
    if p0["out"] == "-":
        if any(e[0] == "cancel" for e in pre):
            tags.add("cancel-before-first-step")
            if sum(1 for e in pre if e[0] == "cancel") > 1:
                tags.add("repeated-cancel-before-first-step")
        if any(e[0] in ("res", "fail", "cf") for e in pre):
            tags.add("future-event-before-first-step")
        if any(e[0] == "clr" for e in pre):
            tags.add("flag-cleared-while-held")
        if case["variant"] != "eager":
            tags.add("variant:" + case["variant"])
        if case["variant"] in CTX_VARIANTS and case.get("exit_at", 0) > 0:
            tags.add("cancel-inside-block-then-exit")
        if case["variant"] in CTX_VARIANTS and case.get("exit_exc"):
            tags.add("block-left-by:" + ("Exception" if case["exit_exc"] == "E1" else "BaseException"))
    if "Q" in case["futs"]:
        tags.add("python-implemented-future")
    if any(e[0] == "cancel" and len(e) > 1 for e in ev):
        tags.add("cancel-with-message")
        if any(e[0] == "cancel" and len(e) > 1 for e in pre) and p0["out"] == "-":
            tags.add("cancel-with-message-before-first-step")
    for i, e in enumerate(ev):
        if e[0] == "cancel" and i >= n:
            tags.add("cancel-later")
            if i > 0 and ev[i - 1][0] in ("res", "fail", "cf"):
                tags.add("cancel-after-completion-before-resume")
    alllog = cumulative(e_snaps, len(ev))["log"]
    if "H:CA" in alllog:
        tags.add("cancel-handler-ran")
        k = alllog.index("H:CA")
        if any(x.startswith("G:") or x == "S" for x in alllog[k + 1:]):
            tags.add("handler-awaited")
    if any(x.startswith("H:") for x in alllog):
        tags.add("handler")
    if "T" in case["futs"]:
        tags.add("task-like-future")
    if case.get("caller", "task") != "task":
        tags.add("called-from-loop-callback:" + case["caller"])
    # --- settled instants: same observable state as the plain Task
    p2_snaps = None
    for m in case["marks"]:
        ce, cp = cumulative(e_snaps, m), cumulative(p_snaps, m)
        if ce == cp:
            continue
        # cancel() issued before the first loop iteration is delivered at that iteration; the
        # plain Task under the correspondingly ordered script is an equally admissible reference
        if p2_snaps is None:
            c2 = dict(case)
            c2["events"] = delayed(ev)
            p2_snaps = real_single(c2, "PS")
        cp2 = cumulative(p2_snaps, m)
        if ce == cp2:
            tags.add("delayed-cancel-reference")
            continue
        # Only the *message* differs, in the window race "awaited future completed, then cancel(msg), then the
        # first step": the plain Task's body gets the CancelledError of the (cancelled) future it waited on, the
        # eager one the Task's own CancelledError(msg) — both are a cancellation delivered at that point.
        if any(e[0] in ("res", "fail", "cf") for e in pre) and any(e[0] == "cancel" and len(e) > 1 for e in pre):
            def nomsg(c):
                m_ = f"('{CANCEL_MSG}',)"
                # (the log is a comma-joined string split again: the message's tuple repr may be split too)
                return {**c, "log": ",".join(c["log"]).replace(m_, ""), "out": c["out"].replace(m_, "")}
            if nomsg(ce) in (nomsg(cp), nomsg(cp2)):
                tags.add("message-race-in-window")
                continue
        field = next(k for k in ("log", "out", "ph", "futs") if ce[k] != cp[k])
        return ("settled:" + field, cp, ce), tags
    if case["marks"]:
        fin = cumulative(e_snaps, case["marks"][-1])
        if fin["out"] != "-":
            tags.add("completed:" + ("cancelled" if fin["out"].rstrip("~") in ("CA", "SD", "C2") else "ret" if fin["out"][0] == "R" else "exc"))
    return None, tags


def delayed(events):
    n = pre_len(events)
    ncan = sum(1 for e in events[:n] if e[0] == "cancel")
    pre = [e for e in events[:n] if e[0] != "cancel"] + [e for e in events[:n] if e[0] == "cancel"]
    return pre + events[n:]


def key_single(prop, what, case):
    pre = case["events"][:pre_len(case["events"])]
    where = "cancel-before-first-step" if any(e[0] == "cancel" for e in pre) else \
        "cancel" if any(e[0] == "cancel" for e in case["events"]) else "no-cancel"
    clr = ":flag-cleared-while-held" if any(e[0] == "clr" for e in pre) else ""
    if case.get("caller", "task") != "task":
        return f"{prop}:single:called-from-loop-callback"
    if case["variant"] in CTX_VARIANTS:
        return f"{prop}:single:block-exit" + (":after-cancel-inside-block" if case.get("exit_at", 0) else "") \
            + (":by-exception" if case.get("exit_exc") else "")
    if "Q" in case["futs"] and where == "cancel-before-first-step":
        return f"{prop}:single:{where}:python-implemented-future"
    return f"{prop}:single:{where}{clr}"


def shrink_single(case, fails):
    """greedy: events (ddmin, marks recomputed as 'every index'), then program, then futures"""
    cur = dict(case)

    def with_script(items):
        c = dict(cur)
        c["script"] = items if items and items[-1][0] == "settle" else items + [["settle"]]
        ncan = sum(1 for e in items if e[0] == "cancel")
        if c["variant"] in CTX_VARIANTS:
            if not ncan:
                c["variant"] = "eager"
                c.pop("exit_at", None)
            else:
                c["exit_at"] = min(c.get("exit_at", 0), ncan - 1)
        return expand(c)

    def f2(items):
        c = with_script(items)
        return script_ok(c["script"]) and fails(c)

    if f2([]):
        cur = with_script([])
    elif f2(cur["script"]):
        cur = with_script(core.ddmin(cur["script"], f2))
    improved = True
    rounds = 0
    while improved and rounds < 40:
        improved = False
        rounds += 1
        for p2 in L.shrink_candidates(cur["prog"]):
            c = expand({**cur, "prog": p2})
            if fails(c):
                cur = c
                improved = True
                break
    if cur.get("caller", "task") != "task":
        c = {k_: v for k_, v in cur.items() if k_ != "caller"}
        if fails(c):
            cur = c
    if cur["variant"] in CTX_VARIANTS and cur.get("exit_exc"):
        c = {**cur, "exit_exc": None}
        if fails(c):
            cur = c
    if any(f == "Q" for f in cur["futs"]):
        c = expand({**cur, "futs": ["P" if f == "Q" else f for f in cur["futs"]]})
        if fails(c):
            cur = c
    if cur["variant"] in CTX_VARIANTS:
        for x in range(cur.get("exit_at", 0)):
            c = {**cur, "exit_at": x}
            if fails(c):
                cur = c
                break
    if cur["variant"] != "eager":
        c = dict(cur)
        c["variant"] = "eager"
        c.pop("exit_at", None)
        if fails(c):
            cur = c
    return cur


# ---------------------------------------------------------------------------------------
# several coroutines


def gen_multi(rng, with_cancel):
    nfut = rng.randint(1, 3)
    ntop = rng.randint(2, 3)
    children = []
    progs = []
    awaited = set()
    for i in range(ntop):
        p = L.gen_prog(rng, nfut, size=rng.randint(1, 5), cancel_handlers=with_cancel)
        if rng.random() < 0.55:
            # make sharing likely: everybody awaits future 0 somewhere
            p.insert(rng.randint(0, len(p)), ["A", 0])
        # each coroutine is awaited by at most one other: a cancelled asyncio.Task hands the
        # CancelledError its coroutine raised to its *first* awaiter only (later ones get a fresh plain
        # CancelledError), whereas the completed future of a coroutine that finished in its prefix gives
        # the original to everybody - asyncio's quirk, not a difference the property is about
        free = [j for j in range(i) if j not in awaited]
        if free and rng.random() < 0.4:
            j = rng.choice(free)
            awaited.add(j)
            p.insert(rng.randint(0, len(p)), ["W", j])
        if rng.random() < 0.3:
            c = len(children)
            children.append(L.gen_prog(rng, nfut, size=rng.randint(1, 4), cancel_handlers=with_cancel))
            a = rng.randint(0, len(p))
            p.insert(a, ["P", c])
            p.insert(rng.randint(a + 1, len(p)), ["J", c])
        progs.append(p)
    futs = ["P"] + [rng.choice(["P", "P", "V5", "XE1", "C"]) for _ in range(nfut - 1)]
    st = max(settle_len(p) for p in progs + children) + 4
    st = st * 2
    env = []            # [event, immediate?]; "immediate" = before the loop has run at all
    immediate = with_cancel and not children and rng.random() < 0.5
    if immediate:
        env.append([["cancel", rng.randrange(ntop)], True])
        # A cancel() issued before the continuation Task's first step takes effect at that step
        # (notes/C03.md).  With two such cancels and one coroutine awaiting the other, the awaited one
        # can finish *during* that first iteration, so the second cancel finds it done where the plain
        # Task's cancel() found it pending: the single-coroutine oracle accepts both orders, this one
        # cannot express the second, so the combination is not generated.
        has_w = any(s[0] == "W" for p in progs for s in _flat(p))
        if rng.random() < 0.3 and not has_w:
            env.append([["cancel", rng.randrange(ntop)], True])
    order = list(range(nfut))
    rng.shuffle(order)
    for f in order:
        r = rng.random()
        if with_cancel and r < 0.35:
            env.append([["cancel", rng.randrange(ntop)], False])
        env.append([["res", f, rng.randint(1, 9)] if r < 0.75 else ["fail", f, rng.choice(FAIL_KINDS)]
                    if r < 0.9 else ["cf", f], False])
    env = uniform_messages(rng, env, multi=True)
    case = {"kind": "multi", "progs": progs, "children": children, "futs": futs, "env": env,
            "settle": st, "variant": rng.choice(["eager", "coro_eager", "func_eager", "factory", "pytask_factory",
                                                 "loopfactory_classic", "loopfactory_kw"])}
    r = rng.random()
    if r < 0.25:
        case["caller"] = "call_soon" if r < 0.15 else "done_callback"
    return case


def multi_events(case):
    """immediate events, then the loop runs until everything is settled, then every further event
    followed by a settling run (eager and plain runs are only comparable at settled instants)"""
    st = [["run"]] * case["settle"]
    ev = [e for e, imm in case["env"] if imm] + st
    for e, imm in case["env"]:
        if not imm:
            ev += [e] + st
    return ev


def oracle_multi(case):
    tags = set()
    events = multi_events(case)
    ce = dict(case)
    ce["mode"] = "E"
    ce["events"] = events
    cp = dict(case)
    cp["mode"] = "P"
    # the plain tasks take their first step before the first environment event
    cp["events"] = [["run"]] + events
    re_, rp = R.run_multi(ce), R.run_multi(cp)
    allp = [t for p in case["progs"] for t in L.tokens(p)]
    aw = {}
    for p in case["progs"] + case["children"]:
        for f in {s[1] for s in _flat(p) if s[0] == "A"}:
            aw[f] = aw.get(f, 0) + 1
    if any(v > 1 for v in aw.values()):
        tags.add("shared-future")
    if "W" in allp:
        tags.add("awaits-another-coroutine")
    if case["children"]:
        tags.add("nested-eager-child")
    if any(imm for e, imm in case["env"]):
        tags.add("cancel-before-first-step")
    if any(e[0] == "cancel" and not imm for e, imm in case["env"]):
        tags.add("cancel-later")
    if case["variant"] != "eager":
        tags.add("variant:" + case["variant"])
    if case.get("caller", "task") != "task":
        tags.add("called-from-loop-callback:" + case["caller"])
    for k in ("out", "logs", "child_out", "child_logs", "phases", "child_phases", "futs"):
        if re_[k] != rp[k]:
            return (k, rp[k], re_[k]), tags
    done_prefix = sum(1 for o in re_["out"] if o != "-")
    if re_["nt_after_start"] < len(case["progs"]):
        tags.add("some-finished-in-prefix")
    return None, tags


def _flat(stmts):
    for s in stmts:
        yield s
        if s[0] == "T":
            yield from _flat(s[1])
            yield from _flat(s[4])
            yield from _flat(s[5])
        elif s[0] == "C":
            yield from _flat(s[1])


def shrink_multi(case, fails):
    cur = dict(case)
    if cur.get("caller", "task") != "task":
        c = {k_: v for k_, v in cur.items() if k_ != "caller"}
        if fails(c):
            cur = c
    if fails({**cur, "env": []}):
        cur["env"] = []
    else:
        evs = core.ddmin(cur["env"], lambda e: fails({**cur, "env": e}))
        if fails({**cur, "env": evs}):
            cur["env"] = evs
    improved, rounds = True, 0
    while improved and rounds < 300:
        improved = False
        rounds += 1
        for i, p in enumerate(cur["progs"]):
            for p2 in L.shrink_candidates(p):
                c = dict(cur)
                c["progs"] = cur["progs"][:i] + [p2] + cur["progs"][i + 1:]
                if _wellformed(c) and fails(c):
                    cur, improved = c, True
                    break
            if improved:
                break
        if improved:
            continue
        for i, p in enumerate(cur["children"]):
            for p2 in L.shrink_candidates(p):
                c = dict(cur)
                c["children"] = cur["children"][:i] + [p2] + cur["children"][i + 1:]
                if fails(c):
                    cur, improved = c, True
                    break
            if improved:
                break
    return cur


def _wellformed(case):
    """every J has its P before it in the same program; W refers to an earlier coroutine"""
    for i, p in enumerate(case["progs"]):
        seen = set()
        for s in _flat(p):
            if s[0] == "P":
                seen.add(s[1])
            elif s[0] == "J" and s[1] not in seen:
                return False
            elif s[0] == "W" and s[1] >= i:
                return False
        js = {s[1] for s in _flat(p) if s[0] == "J"}
        if seen != js:
            return False
    return True


def key_multi(prop, what, case):
    feats = []
    if any(e[0] == "cancel" for e, imm in case["env"]):
        feats.append("cancel")
    if any(imm for e, imm in case["env"]):
        feats = ["cancel-before-first-step"]
    if case.get("caller", "task") != "task":
        feats = ["called-from-loop-callback"]
    return f"{prop}:multi" + ("".join(":" + f for f in feats))


# ---------------------------------------------------------------------------------------
# correspondence with the Lean model


def lean_line(case, mode, fix="R"):
    ev = " ".join("cancel" if e[0] == "cancel" else " ".join(str(x) for x in e) for e in case["events"])
    futs = ["P" if f == "Q" else f for f in case["futs"]]    # a Python-implemented Future is a Future to the model
    return f"case {mode} {fix} ; {' '.join(futs)} ; {L.prog_text(case['prog'])} ; {ev}"


def correspondence(ctx, prop, cases, theorem):
    """cases: list of (case, mode).  Real snapshots vs model snapshots."""
    if not ctx.lean_ok or not cases:
        return []
    lines = [lean_line(c, m) for c, m in cases]
    outs = ctx.lean_driver("Eager", lines)
    if len(outs) != len(lines):
        raise core.InfraError(f"Eager driver answered {len(outs)} lines for {len(lines)} cases")
    bad = []
    for (c, m), o in zip(cases, outs):
        # identity marker and cancel message are compared between the eager and the plain-Task run only
        real = [x.replace("~ |", " |").replace(f"CA('{CANCEL_MSG}',)", "CA") for x in real_single(c, m)]
        ctx.traces += 1
        model = o.split(" ;; ")
        if prop == "C03":
            if not has_cancel(c):
                continue
            real, model = mask_flags(real), mask_flags(model)
        if real != model:
            bad.append((c, m, model, real))
    return bad


def first_diff(model, real):
    for i, (a, b) in enumerate(itertools.zip_longest(model, real)):
        if a != b:
            return i, a, b
    return None


# ---------------------------------------------------------------------------------------
# the run


def without_cancel(case):
    if case.get("kind") == "multi":
        return {**case, "env": [x for x in case["env"] if x[0][0] != "cancel"]}
    c = {**case, "script": [e for e in case["script"] if e[0] != "cancel"]}
    if c["variant"] in CTX_VARIANTS:
        c["variant"] = "eager"
        c.pop("exit_at", None)
        c.pop("exit_exc", None)
    return expand(c)


def has_cancel(case) -> bool:
    if case.get("kind") == "multi":
        return any(e[0] == "cancel" for e, imm in case["env"])
    return any(e[0] == "cancel" for e in case["events"])


def mask_flags(snaps):
    """C03 compares everything but the blocking flags (the handshake is C01's subject)"""
    out = []
    for s in snaps:
        parts = s.split(" | ")
        if len(parts) < 3:
            out.append(s)
            continue
        parts[2] = " ".join(f[:-2] + "." + f[-1] for f in parts[2].split())
        out.append(" | ".join(parts))
    return out


def case_text(case):
    return json.dumps({k: v for k, v in case.items() if k not in ("marks", "events")}, sort_keys=True)


def check_single(ctx, prop, case, theorem, record=True):
    res, tags = oracle_single(case)
    if record:
        ctx.case(case_text(case), sorted(tags))
    if res is None:
        return True
    what = res[0]

    def fails0(c):
        r, _ = oracle_single(c)
        return r is not None

    if prop == "C03":
        # C03 owns a failure only when a cancel() is necessary for it (the rest is C01's subject)
        if not has_cancel(case) or fails0(without_cancel(case)):
            ctx.tag("failure-without-cancel(not C03's: see C01)")
            return True

        def fails(c):
            return has_cancel(c) and fails0(c) and not fails0(without_cancel(c))
    else:
        def fails(c):
            r, _ = oracle_single(c)
            return r is not None and r[0].split(":")[0] == what.split(":")[0]

    small = shrink_single(case, fails)
    r2, _ = oracle_single(small)
    if r2 is None:
        small, r2 = case, res
    ctx.violation(key_single(prop, r2[0], small),
                  f"eager run differs from the plain Task ({r2[0]}): body\n{L.source(small['prog'])}",
                  {k: v for k, v in small.items()}, expected=r2[1], observed=r2[2], theorem=theorem)
    return False


def check_multi(ctx, prop, case, theorem, record=True):
    res, tags = oracle_multi(case)
    if record:
        ctx.case(case_text(case), sorted(tags))
    if res is None:
        return True
    what = res[0]

    def fails0(c):
        try:
            r, _ = oracle_multi(c)
        except Exception:
            return False
        return r is not None

    if prop == "C03":
        if not has_cancel(case) or fails0(without_cancel(case)):
            ctx.tag("failure-without-cancel(not C03's: see C01)")
            return True

        def fails(c):
            return has_cancel(c) and fails0(c) and not fails0(without_cancel(c))
    else:
        def fails(c):
            try:
                r, _ = oracle_multi(c)
            except Exception:
                return False
            return r is not None and r[0] == what

    small = shrink_multi(case, fails)
    r2, _ = oracle_multi(small)
    if r2 is None:
        small, r2 = case, res
    ctx.violation(key_multi(prop, r2[0], small),
                  f"several coroutines: eager run differs from the plain-Task run ({r2[0]})",
                  small, expected=r2[1], observed=r2[2], theorem=theorem)
    return False


def neighbourhood(ctx, prop, case, theorem):
    """A model/implementation disagreement was found on `case`: look for a concrete failure of the
    property itself nearby — the case settled, and the case with a second, plain awaiter of each future."""
    st = settle_len(case["prog"])
    ok = True
    if script_ok(case["script"] + [["settle"]]):
        c = expand({**case, "script": case["script"] + [["settle"]]})
        ok = check_single(ctx, prop, c, theorem, record=False)
    for f in range(len(case["futs"])):
        if case["futs"][f] not in ("P",):
            continue
        m = {"kind": "multi", "progs": [case["prog"], [["A", f]]], "children": [],
             "futs": ["P" if x == "T" else x for x in case["futs"]],
             "env": [[["res", f, 1], False]], "settle": st + 3, "variant": "eager"}
        ok = check_multi(ctx, prop, m, theorem, record=False) and ok
    return ok


def run_stream(ctx, prop, theorem, with_cancel, n_single, n_raw, n_multi):
    rng = ctx.rng
    batch = []
    for _ in range(n_single):
        case = gen_single(rng, with_cancel)
        check_single(ctx, prop, case, theorem)
        batch.append((case, "E"))
        if rng.random() < 0.25:
            batch.append((case, rng.choice(["P", "PS"])))
    if with_cancel:
        for _ in range(max(50, n_single // 6)):
            case = gen_ctx(rng)
            check_single(ctx, prop, case, theorem)
            batch.append((case, "E"))
    for _ in range(n_raw):
        case = gen_single(rng, with_cancel, raw=True)
        ctx.case(case_text(case), ["raw-script"])
        batch.append((case, rng.choice(["E", "E", "P"])))
    bad = correspondence(ctx, prop, batch, theorem)
    seen = set()
    for c, m, model, real in bad[:6]:
        d = first_diff(model, real)
        sig = (m, d[1] is None, (d[1] or "").split("|")[1:3] == (d[2] or "").split("|")[1:3])
        if sig in seen:
            continue
        seen.add(sig)
        ctx.disagreement(f"model and implementation differ at snapshot {d[0]} (mode {m}); body\n"
                         + L.source(c["prog"]), {**c, "mode": m}, expected=d[1], observed=d[2],
                         theorem=theorem)
        if m == "E":
            neighbourhood(ctx, prop, c, theorem)
    ctx.extra["correspondence_mismatches"] = len(bad)
    ctx.extra["custom_task_factory_calls"] = len(R.factory_calls)
    ctx.extra["custom_task_factory_got"] = sorted(set(R.factory_calls))
    for _ in range(n_multi):
        case = gen_multi(rng, with_cancel)
        check_multi(ctx, prop, case, theorem)


def run_corpus(ctx, prop, theorem):
    d = core.ROOT / "corpus" / prop
    if not d.exists():
        return
    for f in sorted(d.glob("*.json")):
        case = json.loads(f.read_text())["case"]
        ctx.tag("corpus")
        if "script" in case:
            expand(case)
        if case.get("kind") == "multi":
            check_multi(ctx, prop, case, theorem)
        else:
            check_single(ctx, prop, case, theorem)
            bad = correspondence(ctx, prop, [(case, "E")], theorem)
            for c, m, model, real in bad:
                d_ = first_diff(model, real)
                ctx.disagreement(f"corpus {f.name}: model and implementation differ at snapshot {d_[0]}",
                                 c, expected=d_[1], observed=d_[2], theorem=theorem)


def replay_case(ctx, prop, theorem, data):
    case = data["case"]
    if case.get("kind") == "multi":
        check_multi(ctx, prop, case, theorem)
    else:
        if "script" in case:
            expand(case)
        elif "marks" not in case:
            case["marks"] = []
        check_single(ctx, prop, case, theorem)
        mode = case.get("mode", "E")
        bad = correspondence(ctx, prop, [(case, mode)], theorem)
        for c, m, model, real in bad:
            d = first_diff(model, real)
            ctx.disagreement(f"model and implementation differ at snapshot {d[0]}", c,
                             expected=d[1], observed=d[2], theorem=theorem)


# ---------------------------------------------------------------------------------------
# bounded-exhaustive part of the thorough tier


def exhaustive(ctx, prop, theorem, with_cancel):
    """all bodies of <= 3 statements over a small alphabet (+ each wrapped in a cancel-aware try) x all
    windows of <= 2 events before the first loop iteration x {nothing, resolve, cancel} afterwards"""
    atoms = [["A", 0], ["A", 1], ["S"], ["L", 1], ["R", 7], ["X", "E1"], ["X", "B1"]]
    bodies = [[]]
    for n in (1, 2, 3):
        for combo in itertools.product(atoms, repeat=n):
            if any(c[0] in ("R", "X") for c in combo[:-1]):
                continue
            bodies.append([list(c) for c in combo])
    wrapped = []
    for bdy in bodies:
        if 0 < len(bdy) <= 2:
            wrapped.append([["T", bdy, "CA", True, [["L", 2]], [["L", 3]]]])
            wrapped.append([["T", bdy, "BA", False, [["A", 1]], []]])
    win_events = [["res", 0, 4], ["fail", 0, "E1"], ["cf", 0], ["clr", 0], ["res", 1, 5]]
    if with_cancel:
        win_events.append(["cancel"])
    windows = [[]] + [[e] for e in win_events] + [[a, b] for a in win_events for b in win_events]
    tails = [[], [["res", 0, 4], ["settle"], ["res", 1, 5], ["settle"]]]
    if with_cancel:
        tails.append([["res", 0, 4], ["cancel"], ["settle"]])
        tails.append([["cancel"], ["cancel"], ["settle"], ["res", 1, 5], ["settle"]])
    batch = []
    futsets = [["P", "P"], ["P", "V3"], ["T", "P"]]
    n = 0
    for bdy in bodies + wrapped:
        for w in windows:
            for t in tails:
                for fs in futsets:
                    n += 1
                    if n % 3 != ctx.seed % 3 and len(bdy) == 3:
                        continue        # a third of the largest bodies per seed
                    case = expand({"kind": "single", "prog": bdy, "futs": fs,
                                   "script": w + [["settle"]] + t, "variant": "eager"})
                    check_single(ctx, prop, case, theorem)
                    batch.append((case, "E"))
                    if len(batch) >= 4000:
                        _flush(ctx, prop, theorem, batch)
                        batch = []
    _flush(ctx, prop, theorem, batch)
    ctx.tag("exhaustive-cases", n)


def _flush(ctx, prop, theorem, batch):
    bad = correspondence(ctx, prop, batch, theorem)
    for c, m, model, real in bad[:3]:
        d = first_diff(model, real)
        ctx.disagreement(f"model and implementation differ at snapshot {d[0]} (mode {m}); body\n"
                         + L.source(c["prog"]), {**c, "mode": m}, expected=d[1], observed=d[2],
                         theorem=theorem)
        neighbourhood(ctx, prop, c, theorem)
