"""Shared machinery for every property check (see DESIGN.md §2).

A property plugin is a module ``harness/cXX.py`` that defines

    PROP = "C17"
    LEAN_TARGETS = ["Asynkit.Props.C17"]       # lake build targets that carry the obligations
    PROPS_FILES = ["Asynkit/Props/C17.lean"]   # files whose theorems are audited
    TRUSTED = [...]                            # trusted-base lines for the evidence file
    RULE = "..."                               # how cases are generated / what is non-trivial
    def run(ctx): ...                          # correspondence + oracle sweep (uses ctx.*)
    def replay(ctx, case): ...                 # re-run one stored case (same reporting as run)

``ctx`` (class Ctx below) offers: rng, tier, budget(), case(), sample(), obligation(),
disagreement(), violation(), lean_driver().  Plugins never print VIOLATION lines or write
evidence themselves; ``finish`` does both.
"""
from __future__ import annotations

import hashlib
import json
import os
import random
import re
import subprocess
import sys
import time
from pathlib import Path

ROOT = Path(__file__).resolve().parent.parent          # the /verif checkout
LEAN = ROOT / "lean"
REPO = Path(os.environ.get("ASYNKIT_REPO", "/repo"))   # overridable for self-validation only
SRC = REPO / "src"
# development runs against mutated copies write their evidence/replays elsewhere (tools/run_seeded.py)
EVIDENCE = Path(os.environ.get("VERIF_EVIDENCE_DIR") or (ROOT / "evidence"))
REPLAYS = Path(os.environ.get("VERIF_REPLAYS_DIR") or (ROOT / "replays"))
KNOWN = ROOT / "known_findings.json"
STD_AXIOMS = {"propext", "Classical.choice", "Quot.sound"}
FORBIDDEN = re.compile(
    r"\bsorry\b|\badmit\b|^\s*axiom\s|native_decide|bv_decide|implemented_by|\bunsafe\s|maxHeartbeats\s+0"
)


def sh(cmd, cwd=None, timeout=None, env=None, input=None):
    p = subprocess.run(cmd, cwd=cwd, timeout=timeout, env=env, input=input,
                       stdout=subprocess.PIPE, stderr=subprocess.STDOUT, text=True)
    return p.returncode, p.stdout


def canon_hash(text: str) -> str:
    return hashlib.sha1(text.encode()).hexdigest()[:16]


def strip_lean_comments(text: str) -> str:
    # nested block comments /- ... -/ and line comments --
    out, i, depth = [], 0, 0
    n = len(text)
    while i < n:
        if text.startswith("/-", i):
            depth += 1
            i += 2
        elif depth and text.startswith("-/", i):
            depth -= 1
            i += 2
        elif depth:
            if text[i] == "\n":
                out.append("\n")
            i += 1
        elif text.startswith("--", i):
            while i < n and text[i] != "\n":
                i += 1
        else:
            out.append(text[i])
            i += 1
    return "".join(out)


class Ctx:
    def __init__(self, prop: str, tier: str, seed: int, level: str = "proof"):
        self.prop, self.tier, self.seed, self.level = prop, tier, seed, level
        self.rng = random.Random(f"{prop}:{seed}")
        self.t0 = time.time()
        self.evaluations = 0
        self.distinct = set()
        self.nontrivial = set()
        self.hist: dict[str, int] = {}
        self.samples: list = []
        self.obligations: list[dict] = []
        self.disagreements: list[dict] = []
        self.violations: list[dict] = []
        self.traces = 0
        self.notes: list[str] = []
        self.trusted: list[str] = []
        self.rule = ""
        self.extra: dict = {}
        self.deadline = None

    # ---- budget ---------------------------------------------------------------------
    def set_budget(self, seconds: float):
        self.deadline = time.time() + seconds

    def time_left(self) -> float:
        return 1e9 if self.deadline is None else self.deadline - time.time()

    def thorough(self) -> bool:
        return self.tier == "thorough"

    # ---- bookkeeping ----------------------------------------------------------------
    def case(self, text: str, tags=()):
        """Count one explored case.  `text` is its canonical form; `tags` are the
        distinguishing situations the run itself detected (empty = trivial case)."""
        self.evaluations += 1
        h = canon_hash(text)
        self.distinct.add(h)
        if tags:
            self.nontrivial.add(h)
        for t in tags:
            self.hist[t] = self.hist.get(t, 0) + 1

    def tag(self, t: str, n: int = 1):
        self.hist[t] = self.hist.get(t, 0) + n

    def sample(self, obj, limit=4):
        if len(self.samples) < limit:
            self.samples.append(obj)

    def obligation(self, name: str, ok: bool, detail: str = ""):
        self.obligations.append({"name": name, "ok": bool(ok), "detail": detail[-1500:]})

    def disagreement(self, what: str, case, expected=None, observed=None, theorem: str = ""):
        """Model/implementation correspondence (or a proof obligation) no longer checks.
        Not a violation by itself: `finish` reports it with no-failing-input-found unless a
        concrete violation was recorded for the same run."""
        self.disagreements.append({"what": what, "case": case, "expected": expected,
                                   "observed": observed, "theorem": theorem})

    def violation(self, key: str, what: str, case, expected=None, observed=None, theorem: str = ""):
        """A concrete input/schedule/history on which the *property itself* fails on the real
        code.  `key` is the canonical identity used for known-findings matching."""
        for v in self.violations:
            if v["key"] == key:
                v["count"] += 1
                return
        self.violations.append({"key": key, "what": what, "case": case, "expected": expected,
                                "observed": observed, "theorem": theorem, "count": 1})

    # ---- Lean -----------------------------------------------------------------------
    def lean_driver(self, driver: str, lines: list[str], timeout: float = 600) -> list[str]:
        """Run lean/Drivers/<driver>.lean over `lines` (one op per line) and return its
        output lines (one per input line)."""
        exe = LEAN / ".lake" / "build" / "bin" / driver.lower()
        inp = "\n".join(lines) + "\n"
        if exe.exists():
            rc, out = sh([str(exe)], cwd=LEAN, timeout=timeout, input=inp)
        else:
            rc, out = sh(["lake", "env", "lean", "--run", f"Drivers/{driver}.lean"], cwd=LEAN,
                         timeout=timeout, input=inp)
        if rc != 0:
            raise InfraError(f"lean driver {driver} failed rc={rc}:\n{out[-2000:]}")
        res = out.split("\n")
        if res and res[-1] == "":
            res.pop()
        return res


class InfraError(Exception):
    pass


# --------------------------------------------------------------------------------------
# Lean build + audit


def regenerate() -> tuple[bool, str]:
    """Run the translator: /repo/src -> lean/Asynkit/Gen/*.lean (only rewritten on change)."""
    tr = ROOT / "translator" / "py2lean.py"
    if not tr.exists():
        return True, "no translator"
    rc, out = sh([sys.executable, str(tr), str(SRC), str(LEAN / "Asynkit" / "Gen")])
    return rc == 0, out


def lake_build(targets: list[str], timeout=3000) -> tuple[bool, str]:
    rc, out = sh(["lake", "build"] + targets, cwd=LEAN, timeout=timeout)
    return rc == 0, out


def theorem_names(rel: str) -> list[str]:
    """Fully-qualified names of the theorems declared in a Props file."""
    text = strip_lean_comments((LEAN / rel).read_text())
    names, ns = [], []
    for line in text.split("\n"):
        m = re.match(r"\s*namespace\s+(\S+)", line)
        if m:
            ns.append(m.group(1))
            continue
        m = re.match(r"\s*end\s+(\S+)", line)
        if m and ns and ns[-1] == m.group(1):
            ns.pop()
            continue
        m = re.match(r"\s*(?:@\[[^\]]*\]\s*)?(?:private\s+|protected\s+)?theorem\s+(\S+)", line)
        if m:
            names.append(".".join(ns + [m.group(1)]))
    return names


def grep_forbidden(files: list[Path]) -> list[str]:
    hits = []
    for f in files:
        text = strip_lean_comments(f.read_text())
        for i, line in enumerate(text.split("\n"), 1):
            if FORBIDDEN.search(line):
                hits.append(f"{f.relative_to(LEAN)}:{i}: {line.strip()[:120]}")
    return hits


def lean_deps(rel_files: list[str]) -> list[Path]:
    """Transitive closure of `import Asynkit.*` from the given files."""
    seen, todo = {}, [LEAN / r for r in rel_files]
    while todo:
        f = todo.pop()
        if f in seen or not f.exists():
            continue
        seen[f] = True
        for m in re.finditer(r"^\s*import\s+(Asynkit\.\S+)", f.read_text(), re.M):
            todo.append(LEAN / (m.group(1).replace(".", "/") + ".lean"))
    return list(seen)


def audit(ctx: Ctx, props_files: list[str]):
    """Forbidden-construct grep over the property files and everything they import, then
    `#print axioms` for every theorem of the property files."""
    files = lean_deps(props_files)
    hits = grep_forbidden(files)
    ctx.obligation("audit:no-sorry/axiom/native_decide in " + ",".join(props_files), not hits,
                   "\n".join(hits))
    names = []
    for rel in props_files:
        names += theorem_names(rel)
    if not names:
        ctx.obligation("audit:theorems-present", False, "no theorem found in " + str(props_files))
        return
    mods = [r[:-5].replace("/", ".") for r in props_files]
    src = "".join(f"import {m}\n" for m in mods) + "".join(f"#print axioms {n}\n" for n in names)
    tmp = LEAN / ".lake" / f"audit_{ctx.prop}.lean"
    tmp.parent.mkdir(exist_ok=True)
    tmp.write_text(src)
    rc, out = sh(["lake", "env", "lean", str(tmp)], cwd=LEAN, timeout=1200)
    # parse:  'Name' depends on axioms: [a, b]   |   'Name' does not depend on any axioms
    found = {}
    for m in re.finditer(r"'([^']+)' depends on axioms: \[([^\]]*)\]", out.replace("\n ", " ")):
        found[m.group(1)] = {a.strip() for a in m.group(2).split(",") if a.strip()}
    for m in re.finditer(r"'([^']+)' does not depend on any axioms", out):
        found[m.group(1)] = set()
    for n in names:
        ax = found.get(n)
        if ax is None:
            ctx.obligation(f"theorem:{n}", False, "not reported by #print axioms:\n" + out[-800:])
        else:
            bad = ax - STD_AXIOMS
            ctx.obligation(f"theorem:{n}", not bad,
                           "axioms=" + ",".join(sorted(ax)) + (" NON-STANDARD" if bad else ""))
    ctx.extra["axioms"] = {n: sorted(found.get(n, [])) for n in names}


# --------------------------------------------------------------------------------------
# known findings, evidence, reporting


def load_known(prop: str):
    if not KNOWN.exists():
        return []
    data = json.loads(KNOWN.read_text())
    return [f for f in data.get("findings", []) if f.get("property") == prop]


def _rel(path: Path) -> str:
    try:
        return str(path.relative_to(ROOT))
    except ValueError:
        return str(path)


def finish(ctx: Ctx, plugin) -> int:
    known_open = {f["key"]: f for f in load_known(ctx.prop) if f.get("status") == "open"}
    REPLAYS.mkdir(exist_ok=True)
    EVIDENCE.mkdir(exist_ok=True)
    for old in REPLAYS.glob(f"{ctx.prop}-*.json"):   # replays of earlier runs are stale
        old.unlink()
    lines, rc = [], 0
    reported = 0
    concrete_new = 0
    for v in ctx.violations:
        if v["key"] in known_open:
            lines.append(f"KNOWN-FINDING: property={ctx.prop} {known_open[v['key']]['what']}")
            continue
        concrete_new += 1
        path = REPLAYS / f"{ctx.prop}-{canon_hash(v['key'])}.json"
        path.write_text(json.dumps({
            "property": ctx.prop, "seed": ctx.seed, "tier": ctx.tier, "kind": "violation",
            "key": v["key"], "what": v["what"], "case": v["case"], "expected": v["expected"],
            "observed": v["observed"], "theorem": v["theorem"],
            "rerun": f"./check {ctx.prop} --replay {_rel(path)}"}, indent=1, default=str))
        lines.append(f"VIOLATION property={ctx.prop} replay={_rel(path)}")
        reported += 1
        rc = 1
    broken = [o for o in ctx.obligations if not o["ok"]]
    if (broken or ctx.disagreements) and not concrete_new:
        # the proof or the correspondence no longer checks and no concrete failing input of the
        # property itself was found: still a violation (the property is no longer shown to hold)
        what = {"broken_obligations": broken, "disagreements": ctx.disagreements[:5]}
        path = REPLAYS / f"{ctx.prop}-unproved-{canon_hash(json.dumps(what, default=str, sort_keys=True))}.json"
        path.write_text(json.dumps({
            "property": ctx.prop, "seed": ctx.seed, "tier": ctx.tier,
            "kind": "no-failing-input-found",
            "no_longer_checks": [o["name"] for o in broken]
            + [f"correspondence:{d['what']}" + (f" (theorem {d['theorem']})" if d["theorem"] else "")
               for d in ctx.disagreements[:5]],
            "details": what,
            "rerun": f"./check {ctx.prop} --tier {ctx.tier}"}, indent=1, default=str))
        lines.append(f"VIOLATION property={ctx.prop} replay={_rel(path)} no-failing-input-found")
        reported += 1
        rc = 1
    elif (broken or ctx.disagreements):
        # concrete violation already reported; keep the broken obligations in its replay dir
        pass
    n_obl = len(ctx.obligations)
    n_ok = sum(1 for o in ctx.obligations if o["ok"])
    cov = {
        "obligations": n_obl, "discharged": n_ok,
        "checker_cmd": "cd lean && lake build " + " ".join(getattr(plugin, "LEAN_TARGETS", []))
                       + "  &&  lake env lean .lake/audit_%s.lean  (#print axioms per theorem)" % ctx.prop,
        "trusted_base": list(getattr(plugin, "TRUSTED", [])) + ctx.trusted,
        "evaluations": ctx.evaluations,
        "distinct_nontrivial": len(ctx.nontrivial),
        "distinct": len(ctx.distinct),
        "rule": getattr(plugin, "RULE", "") or ctx.rule,
        "samples": ctx.samples or ["(none)"],
        "traces_validated_against_impl": ctx.traces,
        "situations_hit": dict(sorted(ctx.hist.items())),
        "obligation_list": [{"name": o["name"], "ok": o["ok"], "detail": o["detail"][:200]}
                            for o in ctx.obligations],
        "disagreements": len(ctx.disagreements),
        "known_findings_seen": [v["key"] for v in ctx.violations if v["key"] in known_open],
    }
    cov.update(ctx.extra)
    ev = {
        "property_id": ctx.prop, "tier": ctx.tier, "seed": ctx.seed, "level": ctx.level,
        "coverage": cov,
        "assumptions": list(getattr(plugin, "ASSUMPTIONS", [])) + ctx.notes,
        "wall_s": round(time.time() - ctx.t0, 2),
        "violations": reported,
    }
    (EVIDENCE / f"{ctx.prop}.json").write_text(json.dumps(ev, indent=1, default=str))
    for ln in lines:
        print(ln)
    print(f"[{ctx.prop}] tier={ctx.tier} seed={ctx.seed} obligations={n_ok}/{n_obl} "
          f"cases={ctx.evaluations} distinct_nontrivial={len(ctx.nontrivial)} "
          f"disagreements={len(ctx.disagreements)} violations={reported} "
          f"wall={ev['wall_s']}s")
    return rc


# --------------------------------------------------------------------------------------
# delta debugging helper shared by the plugins


def ddmin(items: list, fails) -> list:
    """Classic ddmin: smallest sub-list (order kept) for which fails(sublist) is True."""
    n = 2
    items = list(items)
    while len(items) >= 2:
        chunk = max(1, len(items) // n)
        subsets = [items[i:i + chunk] for i in range(0, len(items), chunk)]
        reduced = False
        for i in range(len(subsets)):
            comp = [x for j, s in enumerate(subsets) if j != i for x in s]
            if comp and fails(comp):
                items, n, reduced = comp, max(n - 1, 2), True
                break
        if not reduced:
            if n >= len(items):
                break
            n = min(len(items), n * 2)
    return items
