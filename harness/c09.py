"""C09 — runnable, blocked and current tasks partition all tasks."""
from __future__ import annotations

import json

from . import core
from . import c09_kernel as K

PROP = "C09"
LEAN_TARGETS = ["Asynkit.Props.C09", "Asynkit.Lemmas.GenEqC09", "Asynkit.Lemmas.GenEqC15", "Asynkit.Lemmas.GenEqKernelStd"]
PROPS_FILES = ["Asynkit/Props/C09.lean", "Asynkit/Lemmas/GenEqC09.lean", "Asynkit/Lemmas/GenEqC15.lean", "Asynkit/Lemmas/GenEqKernelStd.lean"]
DRIVERS = ["Kernel"]
TRUSTED = [
    'Lean 4.33 kernel; axioms ⊆ {propext, Classical.choice, Quot.sound} (audited per theorem each run)',
    'translated, not trusted: task_is_blocked, task_is_runnable, task_from_handle / is_task_callback '
    '(translator/py2lean.py, sched2lean.py -> Gen/Sched.lean, Gen/SchedOps.lean; Lemmas/GenEqC09.lean, 3 '
    'theorems) and task_throw, _task_reinsert, the synchronous prefix of task_interrupt '
    '(translator/interrupt2lean.py -> Gen/Interrupt.lean; Lemmas/GenEqC15.lean, 8 theorems) are re-translated '
    "from the source on every run and proved equal to the Kernel model's predicates and events, over the "
    'primitives of Model/KernelPrims.lean',
    'hand-written and tied only by the trace acceptance of this run (every recorded event replayed by '
    'lean/Drivers/Kernel.lean, full observable state compared): the asyncio part of Asynkit/Model/Kernel.lean '
    '(Future, Task.__step/__wakeup/cancel, call_soon, the ready queue as a list), '
    'runnable_tasks()/blocked_tasks() as folds of the translated predicates, the C-task path of task_throw (not '
    'modelled)',
    "asyncio Future / Task semantics are no longer hand-modelled-and-trusted: the pure-Python reference "
    "implementations asyncio/futures.py (Future) and asyncio/tasks.py (Task) of the running interpreter are "
    "re-translated on every run (Gen/AsyncioKernel.lean: path, sha256, version recorded) and proved equal to the "
    "Kernel model's events (Lemmas/GenEqKernelStd.lean).  Trusted instead: the C accelerator _asyncio computes what "
    "tasks.py / futures.py compute (every run sends C tasks and Python tasks through the same model: "
    "coverage.tasks_c / coverage.tasks_py); call_soon / _run_once popping the head of _ready (base_events.py); "
    "current_task / all_tasks bookkeeping (_enter_task / _leave_task / _register_task as ctx / nt); contextvars; "
    "the named abstractions of the translation (Gen.AsyncioKernel.abstractedAttributes, a Task's own Future "
    "half = `done`, `_make_cancelled_error()` = a CancelledError)",
    "the harness's classification of ready handles (function identity of Task.__step/__wakeup, probed C wrapper "
    "types) as ground truth for 'is in the ready queue'",
    'priority loop observed with equal priorities only (ordering among different priorities is C10)',
]
ASSUMPTIONS = [
    "tasks await plain futures (a Task awaited by another Task is a Future to __step; only cancel "
    "propagation differs, which is CPython's)",
    "task_throw / task_interrupt only on Python tasks (create_pytask)",
    "no handle.cancel() on ready handles, no timers in the recorded traces",
]
RULE = ("a case = loop configuration × environment script × worker programs (see harness/c09_kernel.py); "
        "every event is followed by an observation of all_tasks/runnable_tasks/blocked_tasks/current_task/"
        "_fut_waiter/ready queue/future states taken in that calling context (outside the stopped loop with "
        "the loop argument, between handles, inside a task); a case is non-trivial when the run reached at "
        "least one of: a task-bound non-step callback in the ready queue, a woken-not-run task, a pending "
        "_must_cancel, an accepted task_throw on a blocked / runnable / never-started task, a refused throw, "
        "task_interrupt, a loop stopped with tasks left, cancel of the current task, a done future yielded, a "
        "Task.cancel() refused by a pending future (gather window / cancel-refusing future), await of gather(); "
        "distinct = hash of the case JSON")

C09_KINDS = ("runnable_tasks", "blocked_tasks", "all_tasks !=", "task_is_runnable", "ready_find-raised",
             "event loop crashed")
TRIVIAL_TAGS = {"obs-outside", "obs-callback", "obs-in-task", "future-setres", "task_from_handle-misclassifies",
                "case-aborted-after-violation", "case-hung-after-violation"}


# ---------------------------------------------------------------------------------------
# generation

ENV_W = [("step", 40), ("create", 9), ("newfut", 3), ("setres", 6), ("setexc", 3), ("cancelfut", 3),
         ("addcb", 2), ("cancel", 7), ("cscancel", 6), ("cscb", 2), ("throw", 9), ("nocancel", 4), ("throwcls", 3), ("iterobs", 5), ("pause", 4)]
OP_W = [("s", 18), ("w", 24), ("y", 3), ("bad", 2), ("i", 9), ("icls", 2), ("a", 34), ("ret", 2), ("raise", 2)]
INNER_W = [("create", 5), ("newfut", 3), ("setres", 6), ("setexc", 2), ("cancelfut", 3), ("addcb", 1),
           ("cancel", 8), ("cscancel", 6), ("cscb", 1), ("throw", 10), ("nocancel", 3), ("throwcls", 3), ("iterobs", 4), ("obs", 6)]


def pick(rng, table):
    tot = sum(w for _, w in table)
    x = rng.random() * tot
    for k, w in table:
        x -= w
        if x < 0:
            return k
    return table[-1][0]


def gen_action(rng, kind, depth):
    if kind == "create":
        return ["create", "p" if rng.random() < 0.7 else "c", gen_prog(rng, depth + 1),
                rng.choice(["all", "all", "intr", "none"])]
    if kind in ("setres", "setexc", "cancelfut", "addcb", "cancel", "cscancel"):
        return [kind, rng.randrange(6)]
    if kind == "throw":
        t, r = rng.randrange(6), rng.random()
        return ["throw", t, 1 if r < 0.5 else (2 if r > 0.88 else 0)]    # 2: a StopIteration instance
    if kind == "nocancel":
        return ["nocancel", rng.randrange(6), int(rng.random() < 0.75)]
    if kind == "throwcls":
        return ["throwcls", rng.randrange(6), int(rng.random() < 0.5)]
    if kind == "iterobs":
        return ["iterobs", rng.randint(1, 3), int(rng.random() < 0.5)]
    return [kind]


def gen_prog(rng, depth=0):
    n = rng.randint(1, 6 if depth == 0 else 3)
    prog = []
    for _ in range(n):
        k = pick(rng, OP_W)
        if k in ("w", "y"):
            prog.append([k, rng.randrange(6)])
        elif k == "i":
            t, r = rng.randrange(6), rng.random()
            prog.append(["i", t, 1 if r < 0.5 else (2 if r > 0.88 else 0)])
        elif k == "icls":
            prog.append(["icls", rng.randrange(6), int(rng.random() < 0.5)])
        elif k == "a":
            ik = pick(rng, INNER_W)
            if ik == "create" and depth >= 2:
                ik = "obs"
            prog.append(["a", gen_action(rng, ik, depth)])
        else:
            prog.append([k])
    return prog


def gen_case(rng, n_actions=None, cfg=None):
    cfg = cfg or rng.choice(["stock", "sched", "prio"])
    n = n_actions or rng.randint(8, 45)
    script = []
    for _ in range(rng.randint(1, 3)):
        script.append(["newfut"])
    for _ in range(rng.randint(1, 3)):
        script.append(gen_action(rng, "create", 0))
    if rng.random() < 0.2:
        script.append(gen_action(rng, pick(rng, ENV_W[1:-1]), 0))
    script.append(["resume"])
    for _ in range(n):
        k = pick(rng, ENV_W)
        if k == "pause":
            script.append(["pause"])
            for _ in range(rng.randint(0, 3)):
                script.append(gen_action(rng, pick(rng, ENV_W[1:-1]), 0))
            script.append(["resume"])
        else:
            script.append(gen_action(rng, k, 0))
    return {"cfg": cfg, "script": script, "no_throw_on_blocked_cancel_pending": True}


# ---------------------------------------------------------------------------------------
# judging


def prov_key(kind):
    """Provisional identity of a failure (before shrinking): what failed, without the situation."""
    if "norun" in kind and "[out" in kind:
        return "api-raises-outside-running-loop"
    return kind.split(" [")[0]


def case_ops(case):
    ops = set()

    def walk_action(a):
        ops.add(a[0])
        if a[0] == "create":
            for op in a[2]:
                ops.add(op[0])
                if op[0] == "a":
                    walk_action(op[1])
    for a in case["script"]:
        walk_action(a)
    return ops


NEUTRAL = {"step", "resume", "newfut", "create", "obs", "a", "s", "w", "ret"}


def final_key(prov, small, tags=()):
    """Identity of the defect class = what failed + the distinguishing actions of the *minimised*
    case; the two known root causes get their own names (the second one is recognised from the run
    itself: asynkit's task_from_handle and the harness's classifier disagreed on a queued handle)."""
    if prov == "api-raises-outside-running-loop":
        return prov
    ops = case_ops(small)
    if "task_from_handle-misclassifies" in tags:
        return "task-bound-non-step-callback-in-ready-queue"
    return prov + ":" + "+".join(sorted(ops - NEUTRAL))


def my_problems(w, kinds=C09_KINDS):
    return [p for p in w.problems if p["kind"].startswith(kinds)]


class Rec:
    """what is kept of a finished run: the World itself (loop, tasks, coroutines) is dropped at once - thousands
    of dead tasks kept alive make every later `asyncio.all_tasks()` (a scan of one global WeakSet) slow"""

    def __init__(self, w):
        self.case, self.lines, self.tags, self.problems, self.kinds = w.case, w.lines, w.tags, w.problems, w.kinds
        self.log = w.log


def run_world(case):
    try:
        return Rec(K.run_case(case))
    except K.HarnessBug as e:
        raise core.InfraError(f"harness bug on case {json.dumps(case)[:400]}: {e!r}")


def fails_with(case, prov, kinds):
    try:
        w = K.run_case(case)
    except (K.HarnessBug, core.InfraError):
        return False
    return any(prov_key(p["kind"]) == prov for p in my_problems(w, kinds))


def shrink_case(case, pred):
    """ddmin over the script, then over each worker program."""
    cfg = case["cfg"]
    extra = {k: v for k, v in case.items() if k not in ("cfg", "script")}
    script = core.ddmin(case["script"], lambda s: pred(dict(extra, cfg=cfg, script=s)))
    if not pred(dict(extra, cfg=cfg, script=script)):
        script = case["script"]
    for i, a in enumerate(script):
        if a[0] == "create" and len(a[2]) > 0:
            def with_prog(p, i=i, a=a):
                s2 = list(script)
                s2[i] = ["create", a[1], p, a[3]]
                return dict(extra, cfg=cfg, script=s2)
            if pred(with_prog([])):
                script[i] = ["create", a[1], [], a[3]]
                continue
            if len(a[2]) >= 2:
                p = core.ddmin(a[2], lambda p: pred(with_prog(p)))
                if pred(with_prog(p)):
                    script[i] = ["create", a[1], p, a[3]]
    return dict(extra, cfg=cfg, script=script)


def model_check(ctx, worlds, theorem, label=""):
    """Trace acceptance: replay every recorded trace in the Lean model."""
    if not ctx.lean_ok or not worlds:
        return []
    lines, spans = [], []
    for w in worlds:
        spans.append((len(lines) + 1, len(w.lines)))
        lines.append("reset")
        lines.extend(l for l, _ in w.lines)
    outs = ctx.lean_driver("Kernel", lines)
    if len(outs) != len(lines):
        raise core.InfraError(f"Kernel driver returned {len(outs)} lines for {len(lines)}")
    bad = []
    for w, (start, n) in zip(worlds, spans):
        for i in range(n):
            line, real = w.lines[i]
            m = outs[start + i]
            if m != real:
                bad.append((w, i, line, real, m))
                break
    ctx.traces += len(worlds)
    ctx.tag("events-replayed", sum(len(w.lines) for w in worlds))
    return bad


def first_mismatch(ctx, case):
    w = run_world(case)
    b = model_check(ctx, [w], "")
    ctx.traces -= 1
    return (w, b[0]) if b else (w, None)


def explore(ctx, cases, kinds=C09_KINDS, theorem="Asynkit.C09.partition", label="", expected=None):
    worlds = []
    provs = ctx.extra.setdefault("_provs", {})
    for case in cases:
        w = run_world(case)
        worlds.append(w)
        text = json.dumps(case, sort_keys=True)
        ctx.case(text, sorted(w.tags - TRIVIAL_TAGS))
        ctx.extra["tasks_py"] = ctx.extra.get("tasks_py", 0) + w.kinds.count("p")
        ctx.extra["tasks_c"] = ctx.extra.get("tasks_c", 0) + w.kinds.count("c")
        seen = set()
        for p in my_problems(w, kinds):
            prov = prov_key(p["kind"])
            if prov in seen:
                continue
            seen.add(prov)
            if prov in provs:
                ctx.violation(provs[prov], "", None)
                continue
            small = shrink_case(case, lambda c: fails_with(c, prov, kinds))
            w2 = K.run_case(small)
            p2 = next((q for q in my_problems(w2, kinds) if prov_key(q["kind"]) == prov), p)
            key = final_key(prov, small, w2.tags)
            provs[prov] = key
            ctx.violation(key, f"{label}{p2['kind']}", small,
                          expected=expected or "all_tasks = runnable_tasks ⊎ blocked_tasks ⊎ {current}; "
                          "the API returns; task_is_runnable ⇔ in the ready queue",
                          observed=p2["detail"], theorem=theorem)
    bad = model_check(ctx, worlds, theorem, label)
    for n, (w, i, line, real, m) in enumerate(bad):
        if n >= 1:
            break
        case = w.case
        calls = [0]

        def disagrees(c):
            # every probe costs one driver start (~0.6 s): bounded effort
            if calls[0] >= 30 or ctx.time_left() < 10:
                return False
            calls[0] += 1
            try:
                _, b = first_mismatch(ctx, c)
            except core.InfraError:
                return False
            return b is not None
        small = shrink_case(case, disagrees)
        w2, b2 = first_mismatch(ctx, small)
        if b2 is None:
            small, w2, b2 = case, w, (w, i, line, real, m)
        _, i2, line2, real2, m2 = b2
        ctx.disagreement(f"{label}model and real loop differ after `{line2}` (event {i2})", small,
                         expected=m2, observed=real2, theorem="trace acceptance Drivers/Kernel")
    for (w, i, line, real, m) in bad[1:3]:
        ctx.disagreement(f"{label}model and real loop differ after `{line}` (event {i})", w.case,
                         expected=m, observed=real, theorem="trace acceptance Drivers/Kernel")
    return worlds


def explore_untraced(ctx, cases, kinds=C09_KINDS, theorem="Asynkit.C09.partition", label="oracle-only: ",
                     expected=None):
    """Oracle only (no model correspondence): scenarios whose futures are not harness objects
    (gather / shield / Event / Lock / Queue)."""
    provs = ctx.extra.setdefault("_provs", {})
    for case in cases:
        try:
            w = K.run_case(case, trace=False)
        except K.HarnessBug as e:
            raise core.InfraError(f"harness bug on case {json.dumps(case)[:400]}: {e!r}")
        ctx.case(json.dumps(case, sort_keys=True), sorted(w.tags - TRIVIAL_TAGS))
        seen = set()
        for p in my_problems(w, kinds):
            prov = prov_key(p["kind"])
            if prov in seen:
                continue
            seen.add(prov)
            if prov in provs:
                ctx.violation(provs[prov], "", None)
                continue

            def pred(c, prov=prov):
                try:
                    w2 = K.run_case(dict(c, rich=True), trace=False)
                except (K.HarnessBug, core.InfraError):
                    return False
                return any(prov_key(q["kind"]) == prov for q in my_problems(w2, kinds))
            small = dict(shrink_case(case, pred), rich=True)
            try:
                w2 = K.run_case(small, trace=False)
                tags = w2.tags
                p2 = next((q for q in my_problems(w2, kinds) if prov_key(q["kind"]) == prov), p)
            except (K.HarnessBug, core.InfraError):
                tags, p2 = (), p
            key = final_key(prov, small, tags)
            provs[prov] = key
            ctx.violation(key, f"{label}{p2['kind']}", small,
                          expected=expected or "all_tasks = runnable_tasks ⊎ blocked_tasks ⊎ {current}; "
                          "the API returns; task_is_runnable ⇔ in the ready queue",
                          observed=p2["detail"], theorem=theorem)


def gen_gather_prog(rng, depth=0):
    prog = []
    for _ in range(rng.randint(1, 4)):
        r = rng.random()
        if r < 0.45:
            k = rng.randint(1, 3)
            prog.append(["gat", [rng.randrange(4) for _ in range(k)], int(rng.random() < 0.4)])
        elif r < 0.55:
            prog.append(["wsh", rng.randrange(4)])
        elif r < 0.65:
            prog.append(["w", rng.randrange(4)])
        elif r < 0.75:
            prog.append(["s"])
        else:
            k = rng.choice(["cancel", "cancel", "setres", "setres", "setexc", "cscancel", "obs"])
            prog.append(["a", [k, rng.randrange(5)] if k != "obs" else ["obs"]])
    return prog


def gen_gather_case(rng):
    """Workers awaiting gather()/shield() of harness futures; children resolved and tasks cancelled in
    the same loop iteration (no `step` in between) with high probability, so that Task.cancel() meets
    a gathering future that is still pending but has nothing left to cancel."""
    cfg = rng.choice(["stock", "sched", "prio"])
    script = [["newfut"] for _ in range(rng.randint(2, 4))]
    for _ in range(rng.randint(1, 3)):
        script.append(["create", rng.choice(["p", "c"]), gen_gather_prog(rng), rng.choice(["all", "intr", "none"])])
    script.append(["resume"])
    for _ in range(rng.randint(6, 30)):
        r = rng.random()
        if r < 0.30:
            script.append(["step"])
        elif r < 0.62:
            script.append([rng.choice(["setres", "setres", "setres", "setexc", "cancelfut"]), rng.randrange(4)])
        elif r < 0.84:
            script.append([rng.choice(["cancel", "cancel", "cscancel"]), rng.randrange(4)])
        elif r < 0.90:
            script.append(["newfut"])
        elif r < 0.95:
            script.append(["create", rng.choice(["p", "c"]), gen_gather_prog(rng), rng.choice(["all", "none"])])
        else:
            script.extend([["pause"], ["obs"], ["resume"]])
    return {"cfg": cfg, "script": script, "rich": True}


def gen_long_queue_cases(sizes, cfgs=("stock", "sched", "prio")):
    """Deterministic, size-parametrised: n freshly created tasks (every third a C task, a plain callback and a
    queued task.cancel in between) = a ready queue of n+2 handles; one observation checks ready_find /
    task_is_runnable / the partition for the task at *every* position at once; then a few steps, observing
    while the queue drains past any size threshold."""
    out = []
    for cfg in cfgs:
        for n in sizes:
            script = []
            for i in range(n):
                script.append(["create", "c" if i % 3 == 2 else "p", [["s"]], "all"])
                if i == n // 2:
                    script.append(["cscb"])
                    script.append(["cscancel", 0])
            k = len(script)
            script += [["obs"], ["resume"]] + [["step"]] * 6 + [["pause"], ["obs"]]
            out.append({"cfg": cfg, "script": script, "no_obs_until": k, "no_throw_on_blocked_cancel_pending": True})
    return out


def corpus_cases(prop):
    d = core.ROOT / "corpus" / prop
    out = []
    if d.exists():
        for f in sorted(d.glob("*.json")):
            out.append(json.loads(f.read_text()))
    return out


def run(ctx):
    rng = ctx.rng
    ctx.set_budget(50 if not ctx.thorough() else 600)
    corpus = corpus_cases(PROP)
    explore(ctx, [c for c in corpus if not c.get("rich")], label="corpus: ")
    explore_untraced(ctx, [c for c in corpus if c.get("rich")], label="corpus: ")
    explore(ctx, gen_long_queue_cases(range(15, 42) if ctx.thorough() else (15, 16, 17, 18, 24, 33, 40)),
            label="long queue: ")
    n = 2500 if ctx.thorough() else 260
    n_gather = 3000 if ctx.thorough() else 200
    batch = 130 if not ctx.thorough() else 500
    done = 0
    while done < n and ctx.time_left() > (8 if not ctx.thorough() else 180):   # leave room for the gather stream
        cases = [gen_case(rng) for _ in range(min(batch, n - done))]
        ws = explore(ctx, cases)
        if done == 0:
            for c in cases[:2]:
                ctx.sample(c)
        done += len(cases)
    gdone = 0
    while gdone < n_gather and ctx.time_left() > 5:
        cases = [gen_gather_case(rng) for _ in range(min(100, n_gather - gdone))]
        explore_untraced(ctx, cases)
        if gdone == 0:
            ctx.sample(cases[0])
        gdone += len(cases)
    ctx.extra["gather_cases"] = gdone
    ctx.extra.pop("_provs", None)
    ctx.extra["cases_planned"] = n
    ctx.extra["cases_run"] = done


def replay(ctx, data):
    if data["case"].get("rich"):
        explore_untraced(ctx, [data["case"]], label="replay: ")
    else:
        explore(ctx, [data["case"]], label="replay: ")
    ctx.extra.pop("_provs", None)
