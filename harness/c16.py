"""C16 — task_timeout fires iff the block outlives its deadline, never after exit."""
from __future__ import annotations

import json

from . import core
from .c16_run import Runner, judge, canon_log

PROP = "C16"
LEAN_TARGETS = ["Asynkit.Props.C16", "Asynkit.Lemmas.GenEqC16",
                "Asynkit.Lemmas.GenEqContextlib"]
PROPS_FILES = ["Asynkit/Props/C16.lean", "Asynkit/Lemmas/GenEqC16.lean",
               "Asynkit/Lemmas/GenEqContextlib.lean"]
DRIVERS = ["Timeout"]
TRUSTED = [
    'Lean 4.33 kernel; axioms ⊆ {propext, Classical.choice, Quot.sound} (audited per theorem each run)',
    'translated, not trusted: task_timeout (enter, exit normally, exit by exception = one level of the unwinding '
    'with the `err is not my_interrupt` test and the finally clause, trigger_timeout, the six interruptor '
    'segments of the three-try loop) is re-translated from the source on every run (translator/timeout2lean.py ->'
    ' Gen/Timeout.lean) and proved equal to the enter/exitOk/exitOther/raise/fire/istep transitions of '
    'Asynkit/Model/Timeout.lean (Lemmas/GenEqC16.lean, 29 theorems)',
    'hand-written: Model/TimeoutPrims.lean (what call_later, create_task, `await task_interrupt` '
    'accepted/refused, sleep(0), call_exception_handler and asynccontextmanager mean on the model state); trace '
    'acceptance (lean/Drivers/Timeout.lean replays every real event trace of this run) still ties the whole '
    'transition system to the code',
    "PARTIAL with respect to real time and the selector: a virtual clock replaces loop.time() and the harness's "
    '_run_once jumps it to the next timer; what is modelled and proved is the logic that reacts to timer events '
    '(timer callback, interruptor task, task_interrupt accepted/refused, exception unwinding through the levels),'
    ' not wall-clock behaviour',
    'modelled, not verified: asyncio call_later/_run_once (a cancelled timer handle never runs; timers due in the'
    ' same iteration run in heap order), Task.__step delivery of a thrown exception at the current await, '
    'task_throw/task_interrupt accept-or-refuse behaviour (property C15), contextlib.asynccontextmanager',
]
ASSUMPTIONS = [
    "the target is a Python task (create_pytask); bodies are sequences of sleep(0)/sleep(k)/await other task and "
    "nested blocks; they do not catch TimeoutInterrupt themselves (the model nevertheless allows the exception to "
    "be caught at any depth)",
    "virtual time advances only when nothing is ready; delivering an interrupt takes loop iterations but no "
    "virtual time, so 'at that time' is judged in ticks",
    "on an exact tie between deadline and completion either outcome is admissible (both are accepted)",
]
RULE = ("a case = (loop configuration, durations of auxiliary awaited tasks, block tree of depth 1..3 with deadlines "
        "from {None,-1,0,1..6} around sleep(0)/sleep(k)/await-task items, optional environment cancels); run on a "
        "virtual clock; awaited objects: sleeps, a task, gather(...) of tasks, shield(task), a bare future the "
        "environment resolves; 35 % of the random cases (and a systematic grid) spawn 1-2 child Python tasks from inside the "
        "main task's block tree, each child running its own timed blocks; "
        "non-trivial when the run itself shows at least one of: a timer that fired, a TimeoutError, "
        "a foreign interrupt passing an inner level, equal deadlines on two levels, a deadline equal to a "
        "completion time, a deadline not in the future, a refused interrupt; distinct = hash of the case JSON")

LOOPS = ["asyncio", "sched", "prio"]
THEOREMS = {
    "interrupt-after-exit": "Asynkit.C16.no_interrupt_after_exit",
    "exception-after-block": "Asynkit.C16.no_interrupt_after_exit",
    "outlived-deadline": "Asynkit.C16.fires_if_outlives / timer_installed_whenever_timed / tasks_independent",
    "timeout-at-wrong-time": "Asynkit.C16.fires_if_outlives",
    "wrong-level": "Asynkit.C16.nested_level_exact",
    "foreign-interrupt-changed": "Asynkit.C16.nested_level_exact",
    "interrupt-escaped": "Asynkit.C16.nested_level_exact",
    "none-interferes": "Asynkit.C16.none_is_identity",
    "awaited-future-cancelled": "Asynkit.C15.awaited_untouched (task_throw leaves the awaited future alone) / C16 statement",
    "awaited-task-cancelled": "Asynkit.C15.awaited_untouched / C16 statement",
    "none-differs": "Asynkit.C16.none_is_identity",
}


def gen_block(rng, depth, naux, nfut=0):
    d = rng.choice([None, None, -1, 0, 1, 2, 3, 4, 5, 6, 7, 8, 9, 10, 12])

    def items(n):
        out = []
        for _ in range(n):
            r = rng.random()
            if r < 0.3:
                out.append(["s0"])
            elif r < 0.72 or not (naux or nfut):
                out.append(["s", rng.randint(1, 3)])
            else:
                kinds = (["aw", "ga", "sh"] if naux else []) + (["fu"] if nfut else [])
                k = rng.choice(kinds)
                if k == "aw":
                    out.append(["aw", rng.randrange(naux)])
                elif k == "ga":
                    out.append(["ga", sorted(rng.sample(range(naux), rng.randint(1, naux)))])
                elif k == "sh":
                    out.append(["sh", rng.randrange(naux)])
                else:
                    out.append(["fu", rng.randrange(nfut)])
        return out

    body = items(rng.randint(0, 2))
    if depth > 1:
        inner = gen_block(rng, depth - 1, naux, nfut)
        handled = rng.random() < 0.4
        if d is not None and d > 0 and rng.random() < 0.4 and all(it[0] in ("s", "s0") for it in body):
            # tie: the inner deadline expires at the same tick as this one
            off = sum(it[1] for it in body if it[0] == "s")
            if d - off > 0:
                inner["d"] = d - off
                inner["body"].append(["s", d + 2])
        body.append(["tblk" if handled else "blk", inner])
        body += items(rng.randint(0, 2))
        if handled:
            body += [["s0"], ["s", rng.randint(2, 6)]]
    else:
        body += items(rng.randint(1, 2))
    return {"d": d, "body": body}


def all_bodies(blk):
    yield blk["body"]
    for it in blk["body"]:
        if it[0] in ("blk", "tblk"):
            yield from all_bodies(it[1])


def gen_storm(rng):
    """cancel storm on a target that swallows plain cancels inside its timed block: 1..3 consecutive refusals of
    task_interrupt; three make the interruptor give up (loop exception handler)"""
    inner = {"d": rng.choice([1, 2, 3]), "body": [["sc", rng.choice([2, 3])] for _ in range(rng.randint(4, 6))]}
    if rng.random() < 0.5:
        inner["body"].insert(rng.randint(0, 1), ["s0"])
    prog = inner
    if rng.random() < 0.6:
        prog = {"d": rng.choice([None, 5, 8, 30]), "body": [["blk", inner], ["s", 1]]}
    return {"loop": rng.choice(LOOPS), "aux": [], "prog": prog, "storm": rng.choice([1, 2, 3, 3])}


def gen_case(rng):
    naux = rng.choice([0, 0, 1, 2])
    nfut = rng.choice([0, 0, 0, 1, 2])
    case = {"loop": rng.choice(LOOPS), "aux": [rng.randint(1, 6) for _ in range(naux)],
            "prog": gen_block(rng, rng.randint(1, 3), naux, nfut)}
    if nfut:
        case["futs"] = [rng.randint(1, 8) for _ in range(nfut)]
    r = rng.random()
    if r < 0.06:
        return gen_storm(rng)
    if r < 0.14:
        # (an environment cancel of a task awaiting gather() cancels the gather — legitimately — and CPython then
        #  reports "_GatheringFuture exception was never retrieved" at a GC-dependent moment: not combined)
        if '"ga"' not in json.dumps(case["prog"]):
            case["cancel_at"] = [[rng.randint(0, 5), rng.randint(0, 3)]]
    elif r < 0.45:
        # child tasks, spawned somewhere inside the main task's block tree (so usually inside timed blocks),
        # each with its own timeouts around work that may or may not outlive them and the parent's blocks
        case["children"] = []
        for j in range(rng.choice([1, 1, 2])):
            prog = gen_block(rng, rng.randint(1, 2), naux)
            if rng.random() < 0.6:
                prog["d"] = rng.choice([1, 2, 3, 5, 8, 10, 12])
                prog["body"].append(["s", rng.choice([1, 2, 4, 8, 15])])
            case["children"].append({"pre": rng.choice([0, 0, 0, 1, 3]), "prog": prog})
            bodies = list(all_bodies(case["prog"]))
            body = rng.choice(bodies[1:] or bodies) if rng.random() < 0.7 else bodies[0]
            body.insert(rng.randint(0, len(body)), ["spawn", j])
            if rng.random() < 0.4:
                bodies[0].append(["join", j])
    return case


def strip_none(blk):
    """the same program without its task_timeout(None) levels"""
    body = []
    for it in blk["body"]:
        if it[0] in ("blk", "tblk"):
            inner = strip_none(it[1])
            body.append([it[0], inner])
        else:
            body.append(it)
    return {"d": blk["d"], "body": body}


def execute(case, **kw):
    r = Runner(case, **kw)
    try:
        r.run()
        judge(r)
    except core.InfraError:
        raise
    except BaseException as e:  # noqa: BLE001
        if "livelock" not in str(e):
            r.bad.append(("crash", f"{type(e).__name__}: {e}"))
    return r


def full(case):
    """real run + oracle + the `None is identity` comparison run"""
    r = execute(case)
    if any(lv["d"] is None for lv in r.levels.values()) and not case.get("cancel_at") and not case.get("storm"):
        r2 = execute(case, inline_none=True)
        if canon_log(r) != canon_log(r2):
            r.bad.append(("none-differs", "the run with task_timeout(None) levels differs from the run without them: "
                          f"{canon_log(r)[:12]} vs {canon_log(r2)[:12]}"))
    return r


def fails(case, kind):
    return any(k == kind for k, _ in full(case).bad)


def shrink(case, kind):
    """structural shrinking: drop items, drop cancels, shorten sleeps"""
    changed = True
    while changed:
        changed = False
        for cand in neighbours(case):
            if fails(cand, kind):
                case, changed = cand, True
                break
    return case


def neighbours(case):
    c = json.loads(json.dumps(case))
    if c.get("storm", 0) > 1:
        c2 = json.loads(json.dumps(c))
        c2["storm"] -= 1
        yield c2
    if c.get("cancel_at"):
        c2 = json.loads(json.dumps(c))
        c2.pop("cancel_at")
        yield c2

    for j in range(len(c.get("children", []))):
        if c["children"][j].get("pre"):
            c2 = json.loads(json.dumps(c))
            c2["children"][j]["pre"] = 0
            yield c2
        for it_i in range(len(c["children"][j]["prog"]["body"])):
            c2 = json.loads(json.dumps(c))
            it = c2["children"][j]["prog"]["body"][it_i]
            if it[0] in ("blk", "tblk"):
                c2["children"][j]["prog"]["body"][it_i:it_i + 1] = it[1]["body"]
            else:
                del c2["children"][j]["prog"]["body"][it_i]
            yield c2

    def walk(blk, path):
        for i, it in enumerate(blk["body"]):
            yield path + [i]
            if it[0] in ("blk", "tblk"):
                yield from walk(it[1], path + [i])

    for p in list(walk(c["prog"], [])):
        c2 = json.loads(json.dumps(c))
        blk = c2["prog"]
        for i in p[:-1]:
            blk = blk["body"][i][1]
        it = blk["body"][p[-1]]
        if it[0] in ("blk", "tblk"):
            # replace the block by its body
            blk["body"][p[-1]:p[-1] + 1] = it[1]["body"]
        else:
            del blk["body"][p[-1]]
        yield c2
        if it[0] == "s" and it[1] > 1:
            c3 = json.loads(json.dumps(c))
            blk = c3["prog"]
            for i in p[:-1]:
                blk = blk["body"][i][1]
            blk["body"][p[-1]][1] -= 1
            yield c3


def report(ctx, case, r, label=""):
    seen = set()
    for kind, detail in r.bad:
        if kind in seen:
            continue
        seen.add(kind)
        if any(v["key"] == kind for v in ctx.violations):
            ctx.violation(kind, "", None)         # same defect class again: only counted
            continue
        small = shrink(case, kind)
        r2 = full(small)
        det = next((d for k, d in r2.bad if k == kind), detail)
        ctx.violation(f"{kind}", f"{label}{kind}: {det}", small,
                      expected="the property's clause for this oracle (see theorem)", observed=det,
                      theorem=THEOREMS.get(kind, "Asynkit.C16"))


def explore(ctx, runs, label=""):
    lines, spans = [], []
    for case, r in runs:
        ctx.case(json.dumps(case, sort_keys=True), sorted(r.tags - {"block-completed", "none-level"}))
        for t in ("block-completed", "none-level"):
            if t in r.tags:
                ctx.tag(t)
        if r.bad:
            report(ctx, case, r, label)
        start = len(lines)
        lines.append("reset")
        lines.extend(r.trace)
        spans.append((start, len(lines)))
    if not ctx.lean_ok or not runs:
        return
    outs = ctx.lean_driver("Timeout", lines)
    if len(outs) != len(lines):
        raise core.InfraError(f"Timeout driver returned {len(outs)} lines for {len(lines)}")
    reported = 0
    for (a, b), (case, r) in zip(spans, runs):
        for i in range(a, b):
            ln, out = lines[i], outs[i]
            ok = (out == ln) if ln.startswith("obs ") else out == "ok"
            if not ok:
                if reported < 3:
                    ctx.disagreement(f"{label}trace not accepted by the model at `{ln}`",
                                     {"case": case, "trace": lines[a:i + 1][-12:]},
                                     expected=out, observed=ln, theorem="trace acceptance Drivers/Timeout")
                reported += 1
                break
        else:
            ctx.traces += 1


def corpus_cases():
    d = core.ROOT / "corpus" / PROP
    return [json.loads(f.read_text()) for f in sorted(d.glob("*.json"))] if d.exists() else []


def systematic(loop):
    """every (deadline, body length) pair around the tie, depth 1 and equal-deadline depth 2"""
    for d in [None, -1, 0, 1, 2, 3]:
        for k in [0, 1, 2, 3]:
            body = [["s", k]] if k else [["s0"]]
            yield {"loop": loop, "aux": [], "prog": {"d": d, "body": body + [["s0"]]}}
            yield {"loop": loop, "aux": [2], "prog": {"d": d, "body": [["aw", 0]] + body}}
    # a child task spawned inside the parent's timed block, with its own (earlier / equal / later) deadline,
    # working shorter / longer than that, the parent's block ending before / after
    for da in [None, 2, 5]:
        for db in [1, 2, 5, 9]:
            for work in [1, 3, 12]:
                for psleep in [1, 7]:
                    for pre in [0, 3]:
                        yield {"loop": loop, "aux": [], "children": [
                            {"pre": pre, "prog": {"d": db, "body": [["s", work]]}}],
                            "prog": {"d": da, "body": [["spawn", 0], ["s", psleep]]}}
    # the block is suspended, at its deadline, on a non-Task future nobody else waits for: gather's / shield's outer
    # future, a bare future of the environment
    for d in [1, 2, 3]:
        for item, extra in ((["ga", [0, 1]], {"aux": [3, 4]}), (["ga", [0]], {"aux": [4]}), (["sh", 0], {"aux": [4]}),
                            (["fu", 0], {"aux": [], "futs": [4]}), (["fu", 0], {"aux": [], "futs": [d]})):
            yield dict({"loop": loop, "prog": {"d": d, "body": [item, ["s", 1]]}}, **extra)
            yield dict({"loop": loop, "prog": {"d": None, "body": [["tblk", {"d": d, "body": [item]}], item]}}, **extra)
    # tied nested deadlines, the inner TimeoutError (if that is what comes out) handled inside the outer block,
    # which then goes on for much longer than its own, expired, deadline
    for pre, do, di in [(0, 5, 5), (2, 5, 3), (4, 5, 1), (0, 3, 3), (1, 3, 2), (0, 2, 2)]:
        head = [["s", pre]] if pre else []
        yield {"loop": loop, "aux": [], "prog": {"d": do, "body": head + [
            ["tblk", {"d": di, "body": [["s", 10]]}], ["s0"], ["s", 10]]}}
        yield {"loop": loop, "aux": [], "prog": {"d": do, "body": head + [
            ["tblk", {"d": di, "body": [["tblk", {"d": di, "body": [["s", 10]]}], ["s", 10]]}], ["s", 10]]}}
        yield {"loop": loop, "aux": [], "prog": {"d": None, "body": [["tblk", {"d": do, "body": head + [
            ["tblk", {"d": di, "body": [["s", 10]]}], ["s", 10]]}], ["s", 1]]}}
    # an environment cancel in the same tick as the deadline (before / between / after the timer callback, the
    # interruptor's step and the target's step), and one tick around it
    for d in [1, 2]:
        for tick in [d - 1, d, d + 1]:
            for nth in range(5):
                yield {"loop": loop, "aux": [], "prog": {"d": d, "body": [["s", 4], ["s0"]]}, "cancel_at": [[tick, nth]]}
        for nth in range(4):
            yield {"loop": loop, "aux": [], "prog": {"d": 3, "body": [["blk", {"d": d, "body": [["s", 4]]}], ["s", 1]]},
                   "cancel_at": [[d, nth]]}
    # the block exits just as the deadline passes (completion in the deadline's tick), 1..3 levels
    for d in [1, 2, 3]:
        yield {"loop": loop, "aux": [], "prog": {"d": d, "body": [["s", d]]}}
        yield {"loop": loop, "aux": [], "prog": {"d": d, "body": [["s", d], ["s0"], ["s0"]]}}
        yield {"loop": loop, "aux": [d], "prog": {"d": d, "body": [["aw", 0]]}}
        yield {"loop": loop, "aux": [], "prog": {"d": d + 1, "body": [["blk", {"d": d, "body": [["s", d]]}], ["s", 1]]}}
    # cancel storms: 1, 2, 3 consecutive refusals (3 = the interruptor's give-up path)
    for n in [1, 2, 3]:
        for d in [1, 2]:
            for outer in [False, None, 9]:
                inner = {"d": d, "body": [["sc", 2]] * 5}
                prog = inner if outer is False else {"d": outer, "body": [["blk", inner], ["s", 1]]}
                yield {"loop": loop, "aux": [], "prog": prog, "storm": n}
    for d1 in [1, 2, 3, None]:
        for d2 in [1, 2, 3, None, 0]:
            for k in [1, 2, 3]:
                yield {"loop": loop, "aux": [], "prog": {"d": d1, "body": [
                    ["blk", {"d": d2, "body": [["s", k]]}], ["s", 1]]}}


def run(ctx):
    rng = ctx.rng
    explore(ctx, [(c, full(c)) for c in corpus_cases()], "corpus: ")
    batch = [(c, full(c)) for lp in LOOPS for c in systematic(lp)]
    explore(ctx, batch, "systematic: ")
    # a fixed block of generated cases that does not depend on VERIF_SEED
    import random as _random
    frng = _random.Random("C16 fixed block")
    explore(ctx, [(c, full(c)) for c in (gen_case(frng) for _ in range(300))], "fixed block: ")
    n = 12000 if ctx.thorough() else 1200
    batch = []
    for i in range(n):
        case = gen_case(rng)
        r = full(case)
        batch.append((case, r))
        if i < 2:
            ctx.sample({"case": case, "log_head": [list(x) for x in r.log[:10]], "trace_head": r.trace[:10]})
        if len(batch) >= 1000:
            explore(ctx, batch)
            batch = []
    explore(ctx, batch)


def replay(ctx, data):
    case = data["case"]
    if "case" in case and "trace" in case:
        case = case["case"]
    explore(ctx, [(case, full(case))], "replay: ")
