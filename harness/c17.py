"""C17 — priority containers are faithful to their reference models for every history."""
from __future__ import annotations

import itertools
import json
from pathlib import Path

from . import core
from .containers import RealContainers
from .refmodels import RefPQ, RefPos

PROP = "C17"
LEAN_TARGETS = ["Asynkit.Props.C17", "Asynkit.Lemmas.GenEq", "Asynkit.Lemmas.GenEqPQ", "Asynkit.Lemmas.GenEqPosPQ",
                "Asynkit.Lemmas.GenEqHeapq"]
PROPS_FILES = ["Asynkit/Props/C17.lean", "Asynkit/Lemmas/GenEq.lean", "Asynkit/Lemmas/GenEqPQ.lean", "Asynkit/Lemmas/GenEqPosPQ.lean",
               "Asynkit/Lemmas/GenEqHeapq.lean"]
DRIVERS = ["PQ"]
TRUSTED = [
    'Lean 4.33 kernel; axioms ⊆ {propext, Classical.choice, Quot.sound} (audited per theorem each run)',
    "hand-written: the reference "
    'specifications the refinement theorems relate the classes to; Model/{PQ,PosPQ}.lean are no longer trusted as'
    ' transcriptions (next two entries) but are still run against the code by the differential correspondence of '
    'this run (lean/Drivers/PQ.lean)',
    'translated, not trusted: PriEntry.__lt__ (translator/py2lean.py -> Gen/PriEntry.lean; Lemmas/GenEq.lean, 1 '
    'theorem); PriorityValue.priority/__lt__ are part of the PosPriorityQueue unit below',
    'translated, not trusted: every method of tools.PriorityQueue, statement by statement on each run '
    '(translator/pq2lean.py -> Gen/PQ.lean), proved equal to Model/PQ.lean for every heap library, comparison and'
    " state (Lemmas/GenEqPQ.lean, 29 theorems); trusted there: Model/PyRt.lean's reading of Python (lists with "
    'negative indices, for/break/else, list.sort stable, heapq calls, aliasing by index; callables and == on '
    'objects are pure)',
    'translated, not trusted: every method of PosPriorityQueue and PriorityValue on each run '
    "(translator/pospq2lean.py -> Gen/PosPQ.lean, over the PQ model's operations), proved equal to "
    'Model/PosPQ.lean (Lemmas/GenEqPosPQ.lean, 41 theorems); trusted there: Model/PosPQRt.lean (the self._pq.<m> '
    '-> PQ.<m> binding, PriorityValue objects by value, fuel-bounded while loops shown never to run out)',
    "translated, not trusted (stdlib): heapq._siftdown/_siftup/heappush/heappop/heapify are re-translated on every run "
    "from heapq.py of the running interpreter (translator/heapq2lean.py -> Gen/Heapq.lean, sha256 + version recorded) and "
    "proved equal to the model's Cpy.* (Lemmas/GenEqHeapq.lean), which cpyHeap_lawful proves lawful; trusted: the C "
    "accelerator _heapq computes what heapq.py computes — tested on every run by the layout statistic (real _pq vs model "
    "array) and by the differential stream heapq_c_vs_py",
    'list.sort is a stable sort by __lt__',
]
ASSUMPTIONS = [
    "objects stored in a queue are distinguishable (duplicates only in the model-vs-code stream)",
    "priorities form a strict weak order under `<`",
]
RULE = ("op sequences over priorities {-1,0,1}, positions 0..len+1, targets = i-th live item or an absent "
        "item; corpus first, then random (quick) / bounded-exhaustive + long random (thorough); "
        "a case is non-trivial when the run itself hit one of: tie resolved at pop, middle removal, "
        "each ordereditems restore branch, reschedule that changed order, sequence reset then reuse, "
        "mutation of a copy, positional insert through an emptied queue, reschedule_all with ties; "
        "distinct = hash of the canonical op text")

PRIS = [-1, 0, 1]


# ---------------------------------------------------------------------------------------
# generation


def gen_pq(rng, n_ops, dup=False):
    """One PriorityQueue history (two queue slots so that copy() is exercised)."""
    lines = ["pq 0 new"]
    shadow = {0: RefPQ(), 1: None}
    nxt = itertools.count(1)
    for _ in range(n_ops):
        qi = 0 if shadow[1] is None or rng.random() < 0.7 else 1
        sh = shadow[qi]
        live = [e[2] for e in sh.items]
        r = rng.random()

        def target():
            if live and rng.random() < 0.9:
                return rng.choice(live)
            return 999

        if r < 0.30 or not live and r < 0.6:
            o = rng.choice(live) if (dup and live and rng.random() < 0.3) else next(nxt)
            p = rng.choice(PRIS)
            lines.append(f"pq {qi} add {p} {o}")
            sh.add(p, o)
        elif r < 0.36:
            es = [(rng.choice(PRIS), next(nxt)) for _ in range(rng.randint(0, 4))]
            lines.append(f"pq {qi} extend " + (",".join(f"{p}:{o}" for p, o in es) or "-"))
            for p, o in es:
                sh.add(p, o)
        elif r < 0.50:
            lines.append(f"pq {qi} " + rng.choice(["pop", "popitem"]))
            sh.pop()
        elif r < 0.54:
            lines.append(f"pq {qi} " + rng.choice(["peek", "peekitem", "len", "bool"]))
        elif r < 0.57:
            lines.append(f"pq {qi} in {target()}")
        elif r < 0.65:
            t = target()
            lines.append(f"pq {qi} remove {t}")
            for e in sh.items:
                if e[2] == t:
                    sh.items.remove(e)
                    break
        elif r < 0.73:
            t, rm = target(), rng.choice([0, 1])
            lines.append(f"pq {qi} find {t} {rm}")
            if rm:
                for e in sh.items:
                    if e[2] == t:
                        sh.items.remove(e)
                        break
        elif r < 0.81:
            t, p = target(), rng.choice(PRIS)
            lines.append(f"pq {qi} resched {t} {p}")
            for e in sh.items:
                if e[2] == t:
                    e[0] = p
                    break
        elif r < 0.872:
            k = rng.randint(0, len(live) + 1)
            lines.append(f"pq {qi} ordered {k}")
        elif r < 0.88 and dup:
            lines.append(f"pq {qi} ordered {rng.randint(0, len(live) + 1)}")
        elif r < 0.88:
            # two overlapping ordered iterations: the first is left open while the second runs and
            # is closed; then the first is closed.  Nothing else happens in between (what the queue
            # looks like while an ordered iteration is open is unspecified); afterwards nothing may
            # be lost or reordered.
            lines.append(f"pq {qi} ordopen {rng.randint(1, max(1, len(live)))}")
            lines.append(f"pq {qi} ordered {rng.randint(0, len(live) + 1)}")
            lines.append(f"pq {qi} ordclose")
        elif r < 0.91:
            lines.append(f"pq {qi} " + rng.choice(["refresh", "sort", "sorteditems", "items"]))
        elif r < 0.95:
            if rng.random() < 0.4:
                lines.append(f"pq {qi} copysorted {1 - qi}")
                lines.append(f"pq {1 - qi} sort")
            else:
                lines.append(f"pq {qi} copy {1 - qi}")
            shadow[1 - qi] = sh.copy()
        elif r < 0.97:
            lines.append(f"pq {qi} clear")
            sh.items.clear()
        else:
            lines.append(f"pq {qi} drain")
    lines.append("pq 0 drain")
    if shadow[1] is not None:
        lines.append("pq 1 drain")
    lines.append("pq 0 layout")
    return lines


def gen_pos(rng, n_ops):
    """One PosPriorityQueue history with boosting disabled."""
    lines = ["pos 0 new 0"]
    sh = RefPos()
    gp = {}
    nxt = itertools.count(1)
    opened = False
    for _ in range(n_ops):
        live = sh.objs()
        r = rng.random()

        def target():
            if live and rng.random() < 0.9:
                return rng.choice(live)
            return 999

        if not live and r < 0.5:
            # an empty queue: half of the time something is put in, by either route
            # (a positional insert into an empty queue is a case of its own)
            r = 0.0 if r < 0.3 else 0.3
        if r < 0.25:
            o = next(nxt)
            p = rng.choice(PRIS)
            if rng.random() < 0.6:
                gp[o] = p
                lines.append(f"pos 0 gp {o} {p}")
                lines.append(f"pos 0 append {o}")
            else:
                lines.append(f"pos 0 appendpri {o} {p}")
            sh.append(o, p)
        elif r < 0.42:
            o = next(nxt)
            pos = rng.randint(0, len(live) + 1) if rng.random() < 0.7 else rng.randint(0, 2)
            lines.append(f"pos 0 insert {pos} {o}")
            sh.insert(pos, o)
        elif r < 0.58:
            lines.append("pos 0 popleft")
            vh = sorted(sh.valid_heads())
            if vh:
                sh.remove_obj(vh[0])
        elif r < 0.64:
            t = target()
            lines.append(f"pos 0 remove {t}")
            sh.remove_obj(t)
        elif r < 0.71:
            t, rm = target(), rng.choice([0, 1])
            lines.append(f"pos 0 find {t} {rm}")
            if rm:
                sh.remove_obj(t)
        elif r < 0.79:
            t, p = target(), rng.choice(PRIS)
            lines.append(f"pos 0 resched {t} {p}")
            sh.reschedule(t, p)
        elif r < 0.85:
            for o in rng.sample(live, min(len(live), rng.randint(0, 3))):
                gp[o] = rng.choice(PRIS)
                lines.append(f"pos 0 gp {o} {gp[o]}")
            lines.append("pos 0 reschedall")
            sh.reschedule_all(lambda o: gp.get(o, 0))
        elif r < 0.885:
            lines.append("pos 0 " + rng.choice(["iter", "len", "bool", f"in {target()}"]))
        elif r < 0.90:
            lines.append(f"pos 0 iteropen {rng.randint(1, 3)}")
            opened = True
        elif r < 0.92:
            lines.append("pos 0 clear")
            sh.clear()
        else:
            lines.append("pos 0 drain")
    lines.append("pos 0 drain")
    if opened:
        lines += ["pos 0 len", "pos 0 iterclose", "pos 0 drain"]
    return lines


def to_model(ln):
    """the Lean driver has no notion of an iterator object: an iteration kept open is an `iter`
    whose first k items are compared, closing it is a no-op"""
    t = ln.split()
    if len(t) > 2 and t[2] == "iteropen":
        return f"{t[0]} {t[1]} iter"
    if len(t) > 2 and t[2] == "iterclose":
        return f"{t[0]} {t[1]} len"
    if len(t) > 2 and t[2] in ("ordopen", "ordclose"):
        return f"{t[0]} {t[1]} len"
    if len(t) > 2 and t[2] == "copysorted":
        return f"{t[0]} {t[1]} copy {t[3]}"
    return ln


# ---------------------------------------------------------------------------------------
# oracle: the property itself, evaluated on the real outputs


def oracle_pq(lines, outs, tags):
    """Returns None or (index, expected, observed, why)."""
    qs = {}
    emptied = set()
    for idx, (ln, out) in enumerate(zip(lines, outs)):
        t = ln.split()
        qi, op, a = int(t[1]), t[2], t[3:]
        q = qs.setdefault(qi, RefPQ())
        exp = None
        if out.startswith("exc "):
            return idx, "no exception", out, "unexpected exception"
        if op == "new":
            qs[qi] = RefPQ()
            exp = "ok"
        elif op == "add":
            if not q.items and qi in emptied:
                tags.add("seq-reset-then-reuse")
            q.add(int(a[0]), int(a[1]))
            exp = "ok"
        elif op == "extend":
            if a[0] != "-":
                for x in a[0].split(","):
                    p, o = x.split(":")
                    q.add(int(p), int(o))
            exp = "ok"
        elif op in ("pop", "popitem", "peek", "peekitem"):
            h = q.head()
            if h is None:
                exp = "err IndexError"
            else:
                if sum(1 for e in q.items if e[0] == h[0]) > 1:
                    tags.add("tie-resolved")
                exp = f"obj {h[2]}" if op in ("pop", "peek") else f"item {h[0]} {h[2]}"
                if op.startswith("pop"):
                    q.items.remove(h)
                    if not q.items:
                        emptied.add(qi)
        elif op == "len":
            exp = f"n {len(q.items)}"
        elif op == "bool":
            exp = f"b {1 if q.items else 0}"
        elif op == "in":
            exp = f"b {1 if any(e[2] == int(a[0]) for e in q.items) else 0}"
        elif op == "remove":
            m = q.matches(lambda o: o == int(a[0]))
            if not m:
                exp = "err ValueError"
            else:
                if len(m) > 1:
                    # the same object queued more than once: the answer says which entry went
                    tags.add("duplicate-object")
                    cands = [e for e in m if out == f"pri {e[0]}"]
                    if not cands:
                        return idx, sorted(f"pri {e[0]}" for e in m), out, "remove answered with the priority of no live match"
                    if len(cands) > 1:
                        return None  # same object twice at one priority: which one went is not observable
                    m = cands
                exp = f"pri {m[0][0]}"
                q.items.remove(m[0])
                if not q.items:
                    emptied.add(qi)
        elif op in ("find", "findmod"):
            if op == "find":
                x = int(a[0])
                key, rm = (lambda o: o == x), a[1] == "1"
            else:
                mm, rr = int(a[0]), int(a[1])
                key, rm = (lambda o: o % mm == rr), a[2] == "1"
            m = q.matches(key)
            if not m:
                exp = "none"
            else:
                ok = {f"item {e[0]} {e[2]}": e for e in m}
                if out not in ok:
                    return idx, sorted(ok), out, "find returned something that is not a live match"
                if len(ok) < len(m):
                    if rm:
                        return None  # two matches indistinguishable by (priority, object)
                elif len(m) > 1:
                    tags.add("duplicate-object")
                if rm:
                    q.items.remove(ok[out])
                    if not q.items:
                        emptied.add(qi)
                exp = out
        elif op in ("resched", "reschedmod"):
            if op == "resched":
                x = int(a[0])
                key, p = (lambda o: o == x), int(a[1])
            else:
                mm, rr = int(a[0]), int(a[1])
                key, p = (lambda o: o % mm == rr), int(a[2])
            m = q.matches(key)
            if not m:
                exp = "none"
            else:
                ok = {f"obj {e[2]}": e for e in m}
                if out not in ok:
                    return idx, sorted(ok), out, "reschedule returned something that is not a live match"
                if len(ok) < len(m):
                    return None  # which of two entries of one object was re-keyed is not observable here
                if ok[out][0] != p:
                    tags.add("reschedule-changed")
                ok[out][0] = p
                exp = out
        elif op in ("refresh", "sort", "clear"):
            if op == "clear":
                q.items.clear()
                emptied.add(qi)
            exp = "ok"
        elif op in ("copy", "copysorted"):
            qs[int(a[0])] = q.copy()
            tags.add("copy" if op == "copy" else "sorted-snapshot")
            exp = "ok"
        elif op in ("ordopen", "ordclose"):
            tags.add("overlapping-ordered-iterations")
            continue
        elif op == "ordered" and idx > 0 and lines[idx - 1].split()[2] == "ordopen":
            continue
        elif op == "ordered":
            k = int(a[0])
            n = len(q.items)
            exp = "list " + ",".join(f"{p}:{o}" for p, o in q.drain_pairs()[:k])
            if k > 0:
                lp = n if k > n else k - 1
                lq = n - lp
                tags.add("restore-merge" if lp >= lq else
                         "restore-heapify" if lp >= lq >> 1 else "restore-push")
        elif op in ("drain", "sorteditems"):
            exp = "list " + ",".join(f"{p}:{o}" for p, o in q.drain_pairs())
        elif op == "items":
            exp = "list " + ",".join(f"{p}:{o}" for p, o in sorted((e[0], e[2]) for e in q.items))
        elif op in ("layout", "seq"):
            continue
        if exp is not None and out != exp:
            return idx, exp, out, f"`{ln}` answered differently from the reference model"
    return None


def oracle_pos(lines, outs, tags):
    q = RefPos()
    gp = {}
    judged = True
    for idx, (ln, out) in enumerate(zip(lines, outs)):
        t = ln.split()
        op, a = t[2], t[3:]
        exp = None
        if out.startswith("exc "):
            return idx, "no exception", out, "unexpected exception"
        if op == "new":
            q = RefPos()
            exp = "ok"
        elif op == "gp":
            gp[int(a[0])] = int(a[1])
            exp = "ok"
        elif op == "append":
            q.append(int(a[0]), gp.get(int(a[0]), 0))
            exp = "ok"
        elif op == "appendpri":
            q.append(int(a[0]), int(a[1]))
            exp = "ok"
        elif op == "insert":
            pos = int(a[0])
            if q.promotes_ambiguous(pos):
                tags.add("oracle-ambiguous-skip")
                judged = False
            if pos > len(q):
                tags.add("insert-through-emptied-queue")
            if pos > len(q.prefix) and q.reg:
                tags.add("insert-promotes-regular")
            q.insert(pos, int(a[1]))
            exp = "ok"
        elif op == "popleft":
            vh = q.valid_heads()
            if not vh:
                exp = "err IndexError"
            else:
                if not out.startswith("obj ") or int(out.split()[1]) not in vh:
                    if judged:
                        return idx, [f"obj {o}" for o in sorted(vh)], out, "popleft returned a non-head"
                    return None
                if not q.prefix and sum(1 for e in q.reg if e[0] == min(x[0] for x in q.reg)) > 1:
                    tags.add("tie-resolved")
                q.remove_obj(int(out.split()[1]))
                exp = out
        elif op == "remove":
            exp = "ok" if q.remove_obj(int(a[0])) else "err ValueError"
        elif op == "find":
            x = int(a[0])
            if q.has(x):
                exp = f"obj {x}"
                if a[1] == "1":
                    q.remove_obj(x)
            else:
                exp = "none"
        elif op == "resched":
            x = int(a[0])
            if q.has(x):
                exp = f"obj {x}"
                if x in q.prefix:
                    tags.add("reschedule-positional")
                q.reschedule(x, int(a[1]))
            else:
                exp = "none"
        elif op == "reschedall":
            ps = [gp.get(e[2], 0) for e in q.reg]
            if len(ps) != len(set(ps)):
                tags.add("reschedule_all-with-ties")
            if q.prefix:
                tags.add("reschedule_all-with-positional")
            q.reschedule_all(lambda o: gp.get(o, 0))
            exp = "ok"
        elif op == "clear":
            q.clear()
            exp = "ok"
        elif op == "len":
            exp = f"n {len(q)}"
        elif op == "bool":
            exp = f"b {1 if len(q) else 0}"
        elif op == "in":
            exp = f"b {1 if q.has(int(a[0])) else 0}"
        elif op == "iterclose":
            exp = "ok"
        elif op == "iteropen":
            tags.add("iterator-kept-open")
            objs = [int(x) for x in out[5:].split(",") if x] if out.startswith("list") else None
            k = min(int(a[0]), len(q))
            if objs is None or len(objs) != k or len(set(objs)) != k or any(not q.has(o) for o in objs):
                if judged:
                    return idx, f"the first {k} entries of the pop order", out, "partial iteration returned something else"
                return None
            continue
        elif op in ("iter", "drain"):
            objs = [int(x) for x in out[5:].split(",") if x] if out.startswith("list") else None
            if objs is None:
                return idx, "list ...", out, "not a list"
            why = q.check_order(objs)
            if why and judged:
                return idx, "an admissible pop order of the reference list model", out, why
            if why:
                return None
            continue
        if exp is not None and out != exp and judged:
            return idx, exp, out, f"`{ln}` answered differently from the reference model"
    return None


# ---------------------------------------------------------------------------------------


def run_real(lines, only_lt=False):
    rc = RealContainers(only_lt=only_lt)
    outs = []
    for ln in lines:
        try:
            outs.append(rc.step(ln))
        except Exception as e:  # noqa: BLE001
            outs.append(f"exc {type(e).__name__}")
    return outs


def judge(lines, only_lt=False, oracle=True):
    outs = run_real(lines, only_lt)
    tags = set()
    kind = lines[0].split()[0]
    bad = (oracle_pq if kind == "pq" else oracle_pos)(lines, outs, tags)
    if not oracle:      # duplicate-object stream: only unexpected exceptions are judged
        bad = bad if bad is not None and str(bad[2]).startswith("exc ") else None
    return outs, tags, bad


def shrink(lines, only_lt=False):
    head, body = lines[:1], lines[1:]

    def fails(sub):
        return judge(head + sub, only_lt)[2] is not None
    return head + core.ddmin(body, fails)


OPCLASS = {"copysorted": "copy", "ordopen": "overlapping-ordered", "ordclose": None, "iteropen": "iterate-partially", "iterclose": None, "append": "append", "appendpri": "append", "add": "add", "extend": "add",
           "drain": None, "popleft": "pop", "iter": None, "pop": "pop", "popitem": "pop",
           "peek": None, "peekitem": None, "len": None, "bool": None, "in": None, "items": None,
           "sorteditems": None, "layout": None, "seq": None, "new": None, "gp": None,
           "findmod": "find", "reschedmod": "resched"}


def key_of(lines, bad):
    """Identity of a failure = container kind + the set of mutating operation kinds in the
    *minimised* failing history (observers dropped), e.g. `pos:append+reschedall`."""
    idx = bad[0]
    ops = set()
    for ln in lines[: idx + 1]:
        t = ln.split()
        op = t[2]
        if op == "find" and t[-1] == "0":
            continue
        c = OPCLASS.get(op, op)
        if c and c != "pop":
            ops.add(c)
    return f"{lines[0].split()[0]}:" + "+".join(sorted(ops))


def explore(ctx, cases, only_lt=False, label="", oracle=True):
    """cases: list of line lists.  Oracle on real code + correspondence with the Lean model."""
    all_lines, spans, reals = [], [], []
    for lines in cases:
        outs, tags, bad = judge(lines, only_lt, oracle)
        text = "\n".join(lines)
        ctx.case(text, sorted(tags))
        if bad is not None:
            small = shrink(lines, only_lt)
            o2, _, b2 = judge(small, only_lt)
            b2 = b2 or bad
            ctx.violation(key_of(small, b2), f"{label}{b2[3]}", {"ops": small, "only_lt": only_lt},
                          expected=b2[1], observed=b2[2],
                          theorem="Asynkit.C17.pq_refines_spec / pos_refines_list")
        spans.append((len(all_lines) + 1, len(lines)))
        all_lines.append("reset")
        all_lines.extend(to_model(ln) for ln in lines)
        reals.append(outs)
    if not ctx.lean_ok or not cases:
        return
    mouts = ctx.lean_driver("PQ", all_lines)
    if len(mouts) != len(all_lines):
        raise core.InfraError(f"driver returned {len(mouts)} lines for {len(all_lines)}")
    layout_ok = layout_n = 0
    reported = 0
    for (start, n), lines, outs in zip(spans, cases, reals):
        mo = mouts[start:start + n]
        for i, (ln, r, m) in enumerate(zip(lines, outs, mo)):
            if ln.split()[2] == "layout":
                if any(x.split()[2] == "ordopen" for x in lines):
                    continue    # the model does not perform the pops/restores of the overlapped iterations
                layout_n += 1
                layout_ok += r == m
                continue
            if ln.split()[2] in ("iterclose", "ordopen", "ordclose"):
                continue
            if ln.split()[2] == "ordered" and i > 0 and lines[i - 1].split()[2] == "ordopen":
                continue        # what an iteration sees while another one is open is unspecified
            if ln.split()[2] == "iteropen":
                k = len([x for x in r[5:].split(",") if x]) if r.startswith("list") else 0
                m = "list " + ",".join([x for x in m[5:].split(",") if x][:k]) if m.startswith("list") else m
            if r != m:
                if reported < 3:
                    ctx.disagreement(f"{label}model and implementation answer `{ln}` differently",
                                     {"ops": lines[: i + 1], "only_lt": only_lt},
                                     expected=m, observed=r, theorem="correspondence Drivers/PQ")
                reported += 1
                break
    ctx.traces += len(cases)
    ctx.extra["layout_agree"] = f"{ctx.extra.get('_lok', 0) + layout_ok}/{ctx.extra.get('_ln', 0) + layout_n}"
    ctx.extra["_lok"] = ctx.extra.get("_lok", 0) + layout_ok
    ctx.extra["_ln"] = ctx.extra.get("_ln", 0) + layout_n


def corpus_cases():
    d = core.ROOT / "corpus" / PROP
    out = []
    if d.exists():
        for f in sorted(d.glob("*.ops")):
            out.append([ln for ln in f.read_text().split("\n") if ln and not ln.startswith("#")])
    return out


def exhaustive_pq(maxlen):
    """All histories up to `maxlen` ops over a small alphabet; targets are live ranks."""
    alpha = ["add -1", "add 0", "add 1", "pop", "rm 0", "rm 1", "findrm 1", "res 0 1", "res 1 -1",
             "ord 1", "ord 2", "ord 9"]
    for n in range(1, maxlen + 1):
        for seq in itertools.product(alpha, repeat=n):
            lines, live, nxt = ["pq 0 new"], [], 1
            for s in seq:
                t = s.split()
                if t[0] == "add":
                    lines.append(f"pq 0 add {t[1]} {nxt}")
                    live.append(nxt)
                    nxt += 1
                elif t[0] == "pop":
                    lines.append("pq 0 popitem")
                elif t[0] in ("rm", "findrm"):
                    r = int(t[1])
                    x = live[r] if r < len(live) else 999
                    lines.append(f"pq 0 remove {x}" if t[0] == "rm" else f"pq 0 find {x} 1")
                    if x in live:
                        live.remove(x)
                elif t[0] == "res":
                    r = int(t[1])
                    x = live[r] if r < len(live) else 999
                    lines.append(f"pq 0 resched {x} {t[2]}")
                elif t[0] == "ord":
                    lines.append(f"pq 0 ordered {t[1]}")
            lines.append("pq 0 drain")
            yield lines


def shape_stream():
    """Deterministic heap-shape stream: queues of 7..15 entries built from a few priority patterns,
    one middle removal (remove / find-remove / reschedule) at every position, then a full drain.
    Heap-repair mistakes after a middle removal need a particular layout; this enumerates them."""
    def lopsided(i):
        # everything under the root's left child is far less urgent than everything under its right
        # child: the array tail (right subtree) is then smaller than inner nodes' parents on the left
        j = i
        while j > 2:
            j = (j - 1) // 2
        return 0 if i == 0 else (100 + i if j == 1 else i)
    patterns = [lambda i: -1 if i % 3 == 0 else 0, lambda i: i % 2, lambda i: (i * 7) % 3 - 1,
                lambda i: 1 - (i % 3), lambda i: 0 if i < 4 else -1, lopsided]
    for n in (7, 8, 10, 11, 13, 15):
        for pi, pat in enumerate(patterns):
            for k in range(n):
                for how in ("remove", "find", "resched"):
                    lines = ["pq 0 new"] + [f"pq 0 add {pat(i)} {i + 1}" for i in range(n)]
                    if how == "remove":
                        lines.append(f"pq 0 remove {k + 1}")
                    elif how == "find":
                        lines.append(f"pq 0 find {k + 1} 1")
                    else:
                        lines.append(f"pq 0 resched {k + 1} {1 if pat(k) < 1 else -1}")
                    lines.append("pq 0 popitem")
                    lines.append("pq 0 drain")
                    yield lines
                for how in ("remove", "find"):
                    lines = ["pos 0 new 0"] + [f"pos 0 appendpri {i + 1} {pat(i)}" for i in range(n)]
                    lines.append(f"pos 0 remove {k + 1}" if how == "remove" else f"pos 0 find {k + 1} 1")
                    lines.append("pos 0 popleft")
                    lines.append("pos 0 drain")
                    yield lines
            # observing must not change (or be changed by) what pops do: iterate, pop, iterate again
            lines = ["pos 0 new 0"] + [f"pos 0 appendpri {i + 1} {pat(i)}" for i in range(n)]
            lines += ["pos 0 iter", "pos 0 popleft", "pos 0 iter", "pos 0 popleft", "pos 0 popleft", "pos 0 iter",
                      f"pos 0 appendpri {n + 1} 0", "pos 0 iter", "pos 0 drain"]
            yield lines


def big_stream():
    """Deterministic large queues (beyond 32 and 64 entries): a reschedule to a more and to a less
    urgent priority, a removal and a find-remove at a spread of positions, then a drain — size-dependent
    shortcuts (e.g. a different heap repair above some length) need this."""
    for n in (40, 70):
        for k in range(0, n, max(1, n // 9)):
            for how, arg in (("resched", -5), ("resched", 50), ("remove", None), ("find", None)):
                lines = ["pq 0 new"] + [f"pq 0 add {(i * 7) % 11} {i + 1}" for i in range(n)]
                if how == "resched":
                    lines.append(f"pq 0 resched {k + 1} {arg}")
                elif how == "remove":
                    lines.append(f"pq 0 remove {k + 1}")
                else:
                    lines.append(f"pq 0 find {k + 1} 1")
                lines += ["pq 0 popitem", "pq 0 drain"]
                yield lines
            lines = ["pos 0 new 0"] + [f"pos 0 appendpri {i + 1} {(i * 7) % 11}" for i in range(n)]
            lines += [f"pos 0 resched {k + 1} -5", "pos 0 popleft", f"pos 0 find {(k + 3) % n + 1} 1", "pos 0 drain"]
            yield lines


def exhaustive_pos(maxlen):
    """All PosPriorityQueue histories up to `maxlen` ops over a small alphabet (boosting off)."""
    alpha = ["app 0", "app 1", "app -1", "ins 0", "ins 1", "ins 2", "pop", "rm 0", "res 0 1", "res 1 -1", "rall"]
    for n in range(1, maxlen + 1):
        for seq in itertools.product(alpha, repeat=n):
            lines, live, nxt = ["pos 0 new 0"], [], 1
            for s in seq:
                t = s.split()
                if t[0] == "app":
                    lines.append(f"pos 0 appendpri {nxt} {t[1]}")
                    live.append(nxt)
                    nxt += 1
                elif t[0] == "ins":
                    lines.append(f"pos 0 insert {t[1]} {nxt}")
                    live.append(nxt)
                    nxt += 1
                elif t[0] == "pop":
                    lines.append("pos 0 popleft")
                elif t[0] == "rm":
                    x = live[int(t[1])] if int(t[1]) < len(live) else 999
                    lines.append(f"pos 0 find {x} 1")
                elif t[0] == "res":
                    x = live[int(t[1])] if int(t[1]) < len(live) else 999
                    lines.append(f"pos 0 resched {x} {t[2]}")
                elif t[0] == "rall":
                    lines.append("pos 0 reschedall")
            lines.append("pos 0 drain")
            yield lines


def run(ctx):
    rng = ctx.rng
    # what is left to trust about heapq after GenEqHeapq: the C accelerator vs heapq.py, array for array
    from . import c17_heapq
    c17_heapq.run(ctx, *((3000, 60) if ctx.thorough() else (300, 60)))
    explore(ctx, corpus_cases(), label="corpus: ")
    explore(ctx, list(shape_stream()), label="heap shapes: ")
    explore(ctx, list(big_stream()), label="large queues: ")
    if ctx.thorough():
        n_pq, n_pos, ln_max, n_long = 6000, 6000, 40, 150
    else:
        n_pq, n_pos, ln_max, n_long = 700, 700, 40, 10
    cases = [gen_pq(rng, rng.randint(3, ln_max)) for _ in range(n_pq)]
    explore(ctx, cases)
    for c in cases[:2]:
        ctx.sample(c[:14])
    cases = [gen_pq(rng, rng.randint(3, 25)) for _ in range(n_pq // 4)]
    explore(ctx, cases, only_lt=True, label="priority type with only __lt__: ")
    cases = [gen_pos(rng, rng.randint(3, ln_max)) for _ in range(n_pos)]
    explore(ctx, cases)
    for c in cases[:2]:
        ctx.sample(c[:14])
    # long histories and a duplicate-object stream (model-vs-code only meaningful there)
    explore(ctx, [gen_pq(rng, 400) for _ in range(n_long)], label="long: ")
    explore(ctx, [gen_pos(rng, 400) for _ in range(n_long)], label="long: ")
    # the same object queued more than once: judged as far as the answers identify the entry
    explore(ctx, [gen_pq(rng, 30, dup=True) for _ in range(n_pq // 4)], label="duplicates: ")
    if ctx.thorough():
        batch = []
        n = 0
        for lines in exhaustive_pq(4):
            batch.append(lines)
            if len(batch) >= 5000:
                explore(ctx, batch, label="exhaustive: ")
                n += len(batch)
                batch = []
        explore(ctx, batch, label="exhaustive: ")
        ctx.extra["exhaustive_pq_histories_len<=4"] = n + len(batch)
        batch, n = [], 0
        for lines in exhaustive_pos(4):
            batch.append(lines)
            if len(batch) >= 5000:
                explore(ctx, batch, label="exhaustive: ")
                n += len(batch)
                batch = []
        explore(ctx, batch, label="exhaustive: ")
        ctx.extra["exhaustive_pos_histories_len<=4"] = n + len(batch)
    ctx.extra.pop("_lok", None)
    ctx.extra.pop("_ln", None)


def replay(ctx, data):
    case = data["case"]
    explore(ctx, [case["ops"]], only_lt=case.get("only_lt", False), label="replay: ")
