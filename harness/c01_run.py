"""Real-code runners for C01/C03: one generated body (or several) on a real asyncio loop, under
`eager()` & friends or as a plain Task, with a scripted environment.

Single-coroutine case (JSON):
  {"prog": <stmts>, "futs": ["P" | "T" | "V<int>" | "X<kind>" | "C", ...],
   "events": [["run"] | ["res", f, v] | ["fail", f, kind] | ["cf", f] | ["clr", f] | ["cancel"], ...],
   "mode": "E" | "P", "variant": "eager" | "coro_eager" | "func_eager" | "eager_ctx" | "factory"}
"run" = one iteration of the event loop (`await asyncio.sleep(0)` in the driver task: every handle
queued before it, in particular the task's single ready handle, runs exactly once).
"clr f" = `f._asyncio_future_blocking = False`, literally what the Task of another awaiter does.
"T" futures are Future subclasses whose cancel() only *requests* cancellation (what a Task does).

A snapshot is taken after the call and after every event:
  log delta | outcome of the awaitable | per-future state+blocking flag+cancel request |
  number of new tasks | coroutine phase
"""
from __future__ import annotations

import asyncio
import gc
import warnings

import asynkit
from asynkit.coroutine import coro_is_finished, coro_is_new, coro_is_suspended

from .c01_lang import EXC_CLS, compile_body, kind_of, make_exc


import sys

# bodies left suspended inside handlers that await again are destroyed at the end of a case; the
# "coroutine ignored GeneratorExit" reports of that tear-down are not part of any comparison
sys.unraisablehook = lambda *a: None


class StubbornFuture(asyncio.Future):
    """cancel() on it behaves like Task.cancel(): the request is recorded, the state stays pending."""
    cancel_requested = False

    def cancel(self, msg=None):
        if self.done():
            return False
        self.cancel_requested = True
        return True


import contextvars

BODY_VAR = contextvars.ContextVar("c01_body_var", default=None)


class CheckedLog(list):
    """the body's event log; an entry made while the ContextVar the body set at its start is not visible
    (a step of the coroutine ran in another context than its first one) is preceded by ('CTXLOST',)"""
    owner = None

    def append(self, x):
        if self.owner is not None and BODY_VAR.get() is not self.owner:
            list.append(self, ("CTXLOST",))
        list.append(self, x)


def cancel_for_real(f):
    if isinstance(f, StubbornFuture):
        asyncio.Future.cancel(f)
    else:
        f.cancel()


class Env:
    def __init__(self):
        self.log = CheckedLog()
        self.futs = []
        self.coro = None
        self.top = {}
        self.children = {}
        self.raised = []        # exception objects made by `raise` statements of the bodies

    def enter(self):
        self.log.owner = self
        BODY_VAR.set(self)

    def mk(self, kind):
        e = make_exc(kind)
        self.raised.append(e)
        return e

    @staticmethod
    def val(v):
        return 0 if v is None else v


def make_futs(loop, spec):
    futs = []
    for s in spec:
        if s == "T":
            f = StubbornFuture(loop=loop)
        elif s == "Q":
            f = asyncio.futures._PyFuture(loop=loop)     # the pure-Python Future: not an instance of the C class
        else:
            f = loop.create_future()
        if s[0] == "V":
            f.set_result(int(s[1:]))
        elif s[0] == "X":
            f.set_exception(EXC_CLS[s[1:]]())
        elif s == "C":
            f.cancel()
        futs.append(f)
    return futs


def fut_text(f) -> str:
    if not f.done():
        st = "P"
    elif f.cancelled():
        st = "C"
    elif f.exception() is not None:
        st = "X" + kind_of(f.exception())
    else:
        st = "V" + str(f.result())
    return st + ("b" if f._asyncio_future_blocking else "-") + ("r" if getattr(f, "cancel_requested", False) else "-")


def outcome_text(t, env=None, coarse=False) -> str:
    """what `await t` gives: R<value> or the canonical exception (type + args); a trailing "~" says
    it is the very object a body raised (a Task preserves identity; stripped before the model diff)"""
    if t is None or not t.done():
        return "-"
    if t.cancelled():
        try:
            t.exception()
            e = None
        except asyncio.CancelledError as x:
            e = x
    else:
        e = t.exception()
    if e is None:
        return "R" + str(Env.val(t.result()))
    same = "~" if env is not None and any(e is r for r in env.raised) else ""
    k = kind_of(e)
    if coarse and isinstance(e, asyncio.CancelledError):
        return "CA"
    # a Future holding a CancelledError instance (as_future of a body that raised it in the prefix)
    # and a cancelled Task give the same thing to whoever awaits them
    return (k if isinstance(e, asyncio.CancelledError) else "X" + k) + same


def log_text(entries) -> str:
    return ",".join("".join(str(x) for x in e[:1]) + "".join(":" + str(x) for x in e[1:]) for e in entries) or "-"


def phase(coro) -> str:
    if coro is None:
        return "?"
    if coro_is_finished(coro):
        return "fin"
    if coro_is_new(coro):
        return "new"
    if coro_is_suspended(coro):
        return "susp"
    return "run"


def _quiet_loop():
    loop = asyncio.new_event_loop()
    loop.set_exception_handler(lambda loop, ctx: None)
    return loop


def _finish_loop(loop):
    try:
        pending = [t for t in asyncio.all_tasks(loop) if not t.done()]
        for t in pending:
            t.cancel()
        if pending:
            async def drain():
                for _ in range(6):
                    await asyncio.sleep(0)
            loop.run_until_complete(drain())
    finally:
        with warnings.catch_warnings():
            warnings.simplefilter("ignore")
            loop.close()


def custom_factory(coro):
    """A user task factory: inspects what it is given (must be something a Task accepts, with the
    coroutine methods), creates a Task subclass with its own name."""
    assert asyncio.iscoroutine(coro), type(coro)
    for m in ("send", "throw", "close"):
        assert callable(getattr(coro, m)), m
    factory_calls.append(type(coro).__name__)
    return CustomTask(coro, name="custom")


factory_calls: list = []


def pytask_factory(coro):
    """a factory making Python-implemented Tasks (what `create_pytask` / debugging set-ups do)"""
    return asyncio.tasks._PyTask(coro, name="py")


def loop_factory_classic(loop, coro):
    """a loop-level task factory with the classic documented signature `factory(loop, coro)`"""
    return asyncio.Task(coro, loop=loop)


def loop_factory_kw(loop, coro, **kwargs):
    """a loop-level task factory that accepts and ignores extra keywords"""
    return CustomTask(coro, loop=loop)


LOOP_FACTORIES = {"loopfactory_classic": loop_factory_classic, "loopfactory_kw": loop_factory_kw}


class CustomTask(asyncio.Task):
    pass


def start_eager(variant, fn, env, msg=None):
    """-> (awaitable, ctx_manager or None); `msg` = the cancel message a cancelling()/eager_ctx() block is given"""
    if variant == "func_eager":
        def mk(e):
            e.coro = fn(e)
            return e.coro
        return asynkit.func_eager(mk)(env), None
    if variant == "eager_func":
        def mk(e):
            e.coro = fn(e)
            return e.coro
        return asynkit.eager(mk)(env), None
    env.coro = fn(env)
    if variant == "coro_eager":
        return asynkit.coro_eager(env.coro), None
    if variant == "factory":
        return asynkit.eager(env.coro, task_factory=custom_factory), None
    if variant == "pytask_factory":
        return asynkit.eager(env.coro, task_factory=pytask_factory), None
    if variant == "eager_ctx":
        cm = asynkit.eager_ctx(env.coro, msg=msg)
        return cm.__enter__(), cm
    if variant == "cancelling":
        cm = asynkit.cancelling(asynkit.eager(env.coro), msg)
        return cm.__enter__(), cm
    return asynkit.eager(env.coro), None


def leave_block(cm, how):
    """leave the `with` block normally, or by an exception propagating out of it: an Exception, or a
    BaseException (the CancelledError of the task owning the block; GeneratorExit of a closed generator)"""
    if how is None:
        cm.__exit__(None, None, None)
        return
    exc = {"E1": EXC_CLS["E1"], "B1": EXC_CLS["B1"], "CA": asyncio.CancelledError, "GE": GeneratorExit}[how]()
    try:
        suppressed = cm.__exit__(type(exc), exc, None)
    except BaseException as e:      # noqa: BLE001
        if e is not exc:
            raise
        suppressed = False
    if suppressed:
        raise AssertionError("cancelling() swallowed the exception leaving the block")


async def in_callback(loop, how, fn):
    """run fn() inside a loop callback; an exception it raises is stored by fn's caller's box"""
    def cb(*_):
        assert asyncio.current_task() is None
        try:
            fn()
        except BaseException as e:      # noqa: BLE001 — reported by the caller
            raise_box.append(e)
    raise_box = []
    if how == "done_callback":
        f = loop.create_future()
        f.add_done_callback(cb)
        f.set_result(None)
    else:
        loop.call_soon(cb)
    await asyncio.sleep(0)
    if raise_box:
        raise raise_box[0]


def run_single(case, snapshots=True):
    """Run one single-coroutine case on the real code.  Returns the list of snapshot strings."""
    fn = compile_body(case["prog"])
    mode = case.get("mode", "E")
    variant = case.get("variant", "eager")
    snaps = []
    loop = _quiet_loop()

    async def driver():
        env = Env()
        env.futs = make_futs(loop, case["futs"])
        n0 = len(asyncio.all_tasks())
        mark = [0]
        ncancel = [0]
        cm = None
        if mode == "E" and variant in LOOP_FACTORIES:
            loop.set_task_factory(LOOP_FACTORIES[variant])
        if mode == "E":
            try:
                caller = case.get("caller", "task")
                cancels = [e for e in case["events"] if e[0] == "cancel"]
                k_exit = case.get("exit_at", 0)
                ctx_msg = cancels[k_exit][1] if k_exit < len(cancels) and len(cancels[k_exit]) > 1 else None
                if caller == "task":
                    t, cm = start_eager(variant, fn, env, ctx_msg)
                else:
                    # eager() called from an event-loop *callback* (no current task): call_soon, or
                    # the done-callback of a future.  The callback is the only thing the loop runs
                    # before the driver resumes, so snapshot 0 is still "right after eager() returned".
                    box = []
                    await in_callback(loop, caller, lambda: box.append(start_eager(variant, fn, env, ctx_msg)))
                    t, cm = box[0]
            except BaseException as e:     # eager() itself must never raise what the body raised
                snaps.append(f"{log_text(env.log)} | !raised:{kind_of(e)} | "
                             + " ".join(fut_text(f) for f in env.futs) + f" | nt0 | {phase(env.coro)}")
                snaps.extend(["!"] * len(case["events"]))
                return env
        else:
            env.coro = fn(env)
            t = loop.create_task(env.coro)
            if mode == "PS":     # plain Task whose first step has run ("plain-started")
                await asyncio.sleep(0)

        seen = []

        def snap():
            d = env.log[mark[0]:]
            mark[0] = len(env.log)
            # read the outcome once: a cancelled Task hands out the CancelledError its coroutine
            # raised to the first reader only (later readers get a fresh one) - asyncio's behaviour
            if not seen and t.done():
                seen.append(outcome_text(t, env))
            snaps.append(f"{log_text(d)} | {seen[0] if seen else '-'} | "
                         + " ".join(fut_text(f) for f in env.futs)
                         + f" | nt{len(asyncio.all_tasks()) - n0} | {phase(env.coro)}")

        snap()
        for ev in case["events"]:
            op = ev[0]
            if op == "run":
                await asyncio.sleep(0)
            elif op == "res":
                f = env.futs[ev[1]]
                if not f.done():
                    f.set_result(ev[2])
            elif op == "fail":
                f = env.futs[ev[1]]
                if not f.done():
                    f.set_exception(EXC_CLS[ev[2]]())
            elif op == "cf":
                cancel_for_real(env.futs[ev[1]])
            elif op == "clr":
                env.futs[ev[1]]._asyncio_future_blocking = False
            elif op == "cancel":
                # inside an eager_ctx()/cancelling() block the `exit_at`-th cancel event is the block
                # exit; cancels before it are t.cancel() calls made inside the block
                if cm is not None and ncancel[0] >= case.get("exit_at", 0):
                    leave_block(cm, case.get("exit_exc"))
                    cm = None
                elif len(ev) > 1:
                    t.cancel(ev[1])         # cancel(msg): the message travels with the CancelledError
                else:
                    t.cancel()
                ncancel[0] += 1
            else:
                raise ValueError(op)
            snap()
        # keep everything alive until here; then clean up quietly
        if cm is not None:
            cm.__exit__(None, None, None)
        if t.done() and not t.cancelled():
            t.exception()
        return env

    try:
        env = loop.run_until_complete(driver())
    finally:
        _finish_loop(loop)
    del env
    return snaps


# ---------------------------------------------------------------------------------------
# several coroutines alive at once (oracle only: eager run vs plain-Task run of the same program)


def run_multi(case):
    """case = {"progs": [stmts...] top-level coroutines started in order, "children": [stmts...],
               "futs": [...], "events": [...], "mode": "E"|"P", "variant": ...}
    events additionally: ["cancel", i] cancels top-level coroutine i's awaitable.
    Returns {"logs": per coroutine log text, "out": per top-level outcome, "futs": states (no flags),
             "phases": ..., "nt_after_start": number of tasks created by starting them}."""
    mode = case["mode"]
    variant = case.get("variant", "eager")
    loop = _quiet_loop()
    res = {}

    async def driver():
        futs = make_futs(loop, case["futs"])
        envs, top, kids = [], {}, {}
        child_envs = {}
        n0 = len(asyncio.all_tasks())

        raised = []
        awaited_top = {st[1] for p in case["progs"] for st in _flat(p) if st[0] == "W"}

        def mkenv():
            e = Env()
            e.raised = raised
            e.futs = futs
            e.top = top
            e.children = kids
            e.spawn = spawn
            return e

        def start(fn, e):
            if mode == "E":
                try:
                    return start_eager(variant if variant != "eager_ctx" else "eager", fn, e)[0]
                except BaseException as x:
                    f = loop.create_future()
                    f.set_result("!raised:" + kind_of(x))
                    return f
            e.coro = fn(e)
            return loop.create_task(e.coro)

        def spawn(j):
            e = mkenv()
            child_envs[j] = e
            kids[j] = start(compile_body(case["children"][j]), e)

        if mode == "E" and variant in LOOP_FACTORIES:
            loop.set_task_factory(LOOP_FACTORIES[variant])

        def start_all():
            for i, p in enumerate(case["progs"]):
                e = mkenv()
                envs.append(e)
                top[i] = start(compile_body(p), e)

        if mode == "E" and case.get("caller", "task") != "task":
            await in_callback(loop, case["caller"], start_all)
        else:
            start_all()
        res["nt_after_start"] = len(asyncio.all_tasks()) - n0
        res["started_log"] = [log_text(e.log) for e in envs]
        for ev in case["events"]:
            op = ev[0]
            if op == "run":
                await asyncio.sleep(0)
            elif op == "res":
                if not futs[ev[1]].done():
                    futs[ev[1]].set_result(ev[2])
            elif op == "fail":
                if not futs[ev[1]].done():
                    futs[ev[1]].set_exception(EXC_CLS[ev[2]]())
            elif op == "cf":
                cancel_for_real(futs[ev[1]])
            elif op == "cancel":
                if len(ev) > 2:
                    top[ev[1]].cancel(ev[2])
                else:
                    top[ev[1]].cancel()
        res["logs"] = [log_text(e.log) for e in envs]
        res["child_logs"] = {str(j): log_text(e.log) for j, e in sorted(child_envs.items())}
        # an awaitable that another coroutine awaited has already handed out its CancelledError
        # object (see run_single); there only "cancelled" is compared (the awaiting body's own
        # handler log carries the precise type)
        res["out"] = [outcome_text(top[i], envs[0], coarse=i in awaited_top) for i in range(len(envs))]
        res["child_out"] = {str(j): outcome_text(kids[j], envs[0], coarse=True) for j in sorted(kids)}
        res["futs"] = [fut_text(f)[:-2] + fut_text(f)[-1:] for f in futs]
        res["phases"] = [phase(e.coro) for e in envs]
        res["child_phases"] = {str(j): phase(e.coro) for j, e in sorted(child_envs.items())}
        for t in list(top.values()) + list(kids.values()):
            if t.done() and not t.cancelled():
                t.exception()
        return envs, child_envs

    try:
        keep = loop.run_until_complete(driver())
    finally:
        _finish_loop(loop)
    del keep
    return res


def _flat(stmts):
    for st in stmts:
        yield st
        if st[0] == "T":
            yield from _flat(st[1])
            yield from _flat(st[4])
            yield from _flat(st[5])
        elif st[0] == "C":
            yield from _flat(st[1])


def collect():
    gc.collect()
