"""C17 helper — differential stream `heapq` (C accelerator `_heapq`, what asynkit really calls)
against the pure-Python functions of the same interpreter's `heapq.py` (what
`translator/heapq2lean.py` translates and `Lemmas/GenEqHeapq.lean` proves equal to the model).

The remaining trust after GenEqHeapq is "`_heapq` computes what `heapq.py` computes"; this stream
tests exactly that on every run: random pushes / pops / heapifies on elements that only define
`__lt__` and have many ties, the two arrays compared *by identity* after every operation."""
import hashlib
import importlib.util
import sys


class _Key:
    """an element that only defines `<`, on `k` alone (ties are frequent; `uid` tells them apart)"""
    __slots__ = ("k", "uid")

    def __init__(self, k, uid):
        self.k, self.uid = k, uid

    def __lt__(self, other):
        return self.k < other.k


def load_pure_python_heapq():
    """heapq.py executed under another name with `_heapq` unimportable, so that its own Python
    definitions stay in place"""
    spec0 = importlib.util.find_spec("heapq")
    spec = importlib.util.spec_from_file_location("_asynkit_verif_heapq_py", spec0.origin)
    mod = importlib.util.module_from_spec(spec)
    saved = sys.modules.get("_heapq", KeyError)
    sys.modules["_heapq"] = None            # `from _heapq import …` raises ImportError
    try:
        spec.loader.exec_module(mod)
    finally:
        if saved is KeyError:
            del sys.modules["_heapq"]
        else:
            sys.modules["_heapq"] = saved
    sha = hashlib.sha256(open(spec0.origin, "rb").read()).hexdigest()
    return mod, spec0.origin, sha


def run(ctx, n_seq, n_ops):
    import heapq as c_heapq
    py, origin, sha = load_pure_python_heapq()
    pure = all(type(getattr(py, f)).__name__ == "function" for f in ("heappush", "heappop", "heapify"))
    accel = type(c_heapq.heappush).__name__ == "builtin_function_or_method"
    rng = ctx.rng
    ops = agree = 0
    uid = 0
    bad = None
    for _ in range(n_seq):
        a, b = [], []          # a: C accelerator, b: heapq.py
        hist = []
        width = rng.choice([1, 2, 3, 8])
        for _ in range(n_ops):
            r = rng.random()
            if r < 0.5 or not a:
                uid += 1
                x = _Key(rng.randint(0, width), uid)
                hist.append(("push", x.k, x.uid))
                c_heapq.heappush(a, x)
                py.heappush(b, x)
                ra = rb = None
            elif r < 0.85:
                hist.append(("pop",))
                ra, rb = c_heapq.heappop(a), py.heappop(b)
            else:
                # an arbitrary arrangement of the same elements, then heapify
                perm = list(a)
                rng.shuffle(perm)
                a, b = list(perm), list(perm)
                hist.append(("heapify", [x.uid for x in perm]))
                c_heapq.heapify(a)
                py.heapify(b)
                ra = rb = None
            ops += 1
            same = ra is rb and len(a) == len(b) and all(x is y for x, y in zip(a, b))
            agree += same
            if not same and bad is None:
                bad = {"history": hist[-30:], "c": [x.uid for x in a], "py": [x.uid for x in b]}
                break
        try:
            c_heapq.heappop([])
            e1 = "no exception"
        except IndexError:
            e1 = "IndexError"
        try:
            py.heappop([])
            e2 = "no exception"
        except IndexError:
            e2 = "IndexError"
        if e1 != e2 and bad is None:
            bad = {"history": [("pop on []",)], "c": e1, "py": e2}
    ctx.extra["heapq_c_vs_py"] = (f"{agree}/{ops} ops agree array-for-array; heapq.py sha256 {sha[:16]}… ({origin}); "
                                  f"C accelerator in use: {accel}; pure-Python copy loaded: {pure}")
    if not pure:
        ctx.disagreement("could not load heapq.py without the C accelerator: the differential stream compared "
                         "the accelerator with itself", {"origin": origin}, theorem="Asynkit.GenEqHeapq.cpyHeap_is_heapq_py")
    if bad is not None:
        ctx.disagreement("the C accelerator _heapq and heapq.py (the translated source) arrange a heap differently",
                         bad, expected=bad["py"], observed=bad["c"], theorem="Asynkit.GenEqHeapq.cpyHeap_is_heapq_py")
