"""Shared by C02 and C05: body programs (one syntax, rendered both as the s-expression the Lean
driver reads and as real `async def` source text), wrapper stacks on the real code, drivers,
canonicalisation.  See lean/Asynkit/Model/ProtoProg.lean for the program language."""
from __future__ import annotations

import asyncio
import contextvars
import inspect
import sys
import types
import warnings

import asynkit
import asynkit.coroutine as ak_coro
from asynkit import (BoundMonitor, CoroStart, Monitor, awaitmethod, awaitmethod_iter, coro_await,
                     coro_is_finished, coro_iter)

warnings.simplefilter("ignore", DeprecationWarning)
warnings.simplefilter("ignore", RuntimeWarning)
sys.unraisablehook = lambda *a, **k: None     # dropped coroutines that ignore GeneratorExit (generated on purpose)


class E1(Exception):
    pass


class E2(Exception):
    pass


class BE(BaseException):
    pass


class FE(Exception):
    """a *falsy* exception instance (`if exc:` is not `if exc is not None:`)"""

    def __bool__(self):
        return False


class RefAbort(BaseException):
    """The oracle's own abort signal: a direct BaseException subclass, independent of how asynkit
    happens to define SynchronousAbort.  `except SynchronousAbort` handlers of a program are bound to
    it in the reference run."""


CV = [contextvars.ContextVar("verif_cv0", default=0), contextvars.ContextVar("verif_cv1", default=0)]

EXC = {
    "FE": FE, "OOBData": asynkit.OOBData, "KI": KeyboardInterrupt, "SE": SystemExit,
    "InvalidState": asyncio.InvalidStateError, "RT.other": RuntimeError, "StopIteration": StopIteration,
    "E1": E1, "E2": E2, "BE": BE, "Cancelled": asyncio.CancelledError, "GenExit": GeneratorExit,
    "SyncAbort": ak_coro.SynchronousAbort, "StopAsync": StopAsyncIteration,
}
CATCH = {
    "E1": "E1", "E2": "E2", "Cancelled": "asyncio.CancelledError", "GenExit": "GeneratorExit",
    "SyncAbort": "ABORT", "Exception": "Exception", "BaseException": "BaseException",
}


def cname(e: BaseException) -> str:
    t = type(e)
    if t is E1:
        return "E1"
    if t is E2:
        return "E2"
    if t is BE:
        return "BE"
    if t is FE:
        return "FE"
    if t is KeyboardInterrupt:
        return "KI"
    if t is SystemExit:
        return "SE"
    if isinstance(e, (ak_coro.SynchronousAbort, RefAbort)):
        return "SyncAbort"
    if isinstance(e, asyncio.CancelledError):
        return "Cancelled"
    if isinstance(e, GeneratorExit):
        return "GenExit"
    if isinstance(e, ak_coro.SynchronousError):
        return "SyncError"
    if isinstance(e, asyncio.InvalidStateError):
        return "InvalidState"
    if isinstance(e, asynkit.OOBData):
        return "OOBData"
    if isinstance(e, RuntimeError):
        m = str(e)
        if "ignored GeneratorExit" in m:
            return "RT.ignoredGE"
        if "cannot reuse already awaited" in m:
            return "RT.reuse"
        if "raised StopIteration" in m:
            return "RT.stopiter"
        if "coroutine ignored" in m:
            return "RT.ignored"
        if "cannot be re-entered" in m:
            return "RT.reentered"
        if "raised OOBData" in m:
            return "RT.oob"
        if "already running" in m or "already executing" in m:
            return "RT.running"
        return "RT.other"
    if isinstance(e, TypeError):
        return "TypeError"
    if isinstance(e, StopAsyncIteration):
        return "StopAsync"
    if isinstance(e, StopIteration):
        return "StopIteration"
    if isinstance(e, AssertionError):
        return "AssertionError"
    return "Other"


SENDX = {9001: E1, 9002: E2, 9003: BE}     # values that *are* exception instances, sent with send()


def val(v):
    if v is None:
        return 0
    if isinstance(v, BaseException):
        for code, cls in SENDX.items():
            if type(v) is cls:
                return code
    return v if isinstance(v, int) else "?" + type(v).__name__


@types.coroutine
def gen_coroutine(c):
    """a generator-based coroutine (`@types.coroutine`) running the native coroutine `c`"""
    return (yield from c)


class Tok:
    __slots__ = ("n",)

    def __init__(self, n):
        self.n = n

    yields = 0          # how many times any token / bare yield suspended (lets an oracle see a suspension
                        # that CPython swallows inside close())

    def __await__(self):
        Tok.yields += 1
        return (yield ("tok", self.n))


@types.coroutine
def sleep0():
    Tok.yields += 1
    return (yield)


class It:
    """`await It(x)` delegates (PEP 380) to an arbitrary iterator x with send/throw/close."""
    __slots__ = ("it",)

    def __init__(self, it):
        self.it = it

    def __await__(self):
        return self.it


def aw(x):
    return x if inspect.isawaitable(x) else It(x)


# ---------------------------------------------------------------------------------------
# programs


def sexp(stmts) -> str:
    out = []
    for s in stmts:
        k = s[0]
        if k in ("log", "tok", "fut", "ret", "raise"):
            out.append(f"({k} {s[1]})")
        elif k in ("bare", "reraise"):
            out.append(f"({k})")
        elif k == "raisefrom":
            out.append(f"(raisefrom {s[1]} {s[2]})")
        elif k == "cset":
            out.append(f"(cset {s[1]} {s[2]})")
        elif k in ("cget", "creset"):
            out.append(f"({k} {s[1]})")
        elif k == "call":
            out.append("(call " + sexp(s[1]) + ")" if s[1] else "(call)")
        elif k == "try":
            parts = ["(" + sexp(s[1]) + ")"]
            for c, hb in s[2]:
                parts.append(f"(catch {c}" + (" " + sexp(hb) if hb else "") + ")")
            if s[3]:
                parts.append("(finally " + sexp(s[3]) + ")")
            out.append("(try " + " ".join(parts) + ")")
        else:
            raise ValueError(k)
    return " ".join(out)


class _Src:
    def __init__(self):
        self.lines = []
        self.n = 0

    def block(self, stmts, ind):
        pad = "    " * ind
        if not stmts:
            self.lines.append(pad + "pass")
            return
        for s in stmts:
            k = s[0]
            if k == "log":
                self.lines.append(f"{pad}L.append('l{s[1]}')")
            elif k == "tok":
                self.lines.append(f"{pad}L.append('r%d' % val(await Tok({s[1]})))")
            elif k == "fut":
                self.lines.append(f"{pad}L.append('r%d' % val(await F[{s[1]}]))")
            elif k == "bare":
                self.lines.append(f"{pad}L.append('r%d' % val(await sleep0()))")
            elif k == "call":
                self.n += 1
                name = f"sub{self.n}"
                self.lines.append(f"{pad}async def {name}():")
                self.block(s[1], ind + 1)
                self.lines.append(f"{pad}L.append('r%d' % val(await {name}()))")
            elif k == "try":
                self.lines.append(f"{pad}try:")
                self.block(s[1], ind + 1)
                for c, hb in s[2]:
                    self.lines.append(f"{pad}except {CATCH[c]} as _e:")
                    self.lines.append(f"{pad}    L.append('c' + cname(_e))")
                    self.block(hb, ind + 1)
                if s[3] or not s[2]:
                    self.lines.append(f"{pad}finally:")
                    self.block(s[3], ind + 1)
            elif k == "reraise":
                self.lines.append(f"{pad}raise")
            elif k == "ret":
                self.lines.append(f"{pad}return {s[1] if s[1] else None}")
            elif k == "raise":
                self.lines.append(f"{pad}raise EXC['{s[1]}']()")
            elif k == "raisefrom":
                c = "None" if s[2] == "None" else f"EXC['{s[2]}']()"
                self.lines.append(f"{pad}raise EXC['{s[1]}']() from {c}")
            elif k == "cset":
                self.lines.append(f"{pad}TOKS.append(({s[1]}, CV[{s[1]}].set({s[2]})))")
            elif k == "cget":
                self.lines.append(f"{pad}L.append('v{s[1]}=%d' % CV[{s[1]}].get())")
            elif k == "creset":
                self.lines.append(f"{pad}creset({s[1]})")
            else:
                raise ValueError(k)


def source(stmts, name="main") -> str:
    s = _Src()
    s.lines.append(f"async def {name}():")
    s.block(stmts, 1)
    return "\n".join(s.lines) + "\n"


class Env:
    """One compiled program: its event log, its futures, its ContextVar tokens, its coroutine factory."""

    def __init__(self, stmts, loop, abort_cls=None, auto_after=None):
        self.L = []
        self.TOKS = []
        self.loop = loop
        self.F = _Futs(loop, auto_after)
        self.F.pure = (sum(map(ord, sexp(stmts))) % 3 == 0)
        toks = self.TOKS

        def creset(i):
            for j in range(len(toks) - 1, -1, -1):
                if toks[j][0] == i:
                    CV[i].reset(toks.pop(j)[1])
                    return
        g = {"L": self.L, "F": self.F, "Tok": Tok, "sleep0": sleep0, "val": val, "cname": cname,
             "EXC": EXC, "E1": E1, "E2": E2, "asyncio": asyncio, "CV": CV, "TOKS": toks, "creset": creset,
             "ABORT": abort_cls or ak_coro.SynchronousAbort}
        exec(compile(source(stmts), "<prog>", "exec"), g)
        self.main = g["main"]

    def log(self):
        return " ".join(self.L) if self.L else "-"

    def cv_line(self):
        """Caller-visible ContextVar values now, and after the caller resets every outstanding token."""
        now = f"{CV[0].get()},{CV[1].get()}"
        try:
            for i, t in reversed(self.TOKS):
                CV[i].reset(t)
            after = f"{CV[0].get()},{CV[1].get()}"
        except (ValueError, RuntimeError) as e:
            after = type(e).__name__
        return f"cv={now} ; reset={after}"


class _Futs(dict):
    """Futures of a program, created on first use.  With `auto_after=n` every future after the
    first n is resolved by the loop right away (real-loop streams)."""

    def __init__(self, loop, auto_after=None):
        super().__init__()
        self.loop = loop
        self.auto_after = auto_after
        self.order = []
        self.pure = False

    def __missing__(self, k):
        # odd programs use the pure-Python Future class (not an instance of the C `asyncio.Future`)
        f = asyncio.futures._PyFuture(loop=self.loop) if self.pure else self.loop.create_future()
        f._verif_k = k
        self[k] = f
        self.order.append(f)
        if self.auto_after is not None and len(self.order) > self.auto_after:
            self.loop.call_soon(lambda: f.done() or f.set_result(100 + k))
        return f


def phase(c) -> str:
    st = inspect.getcoroutinestate(c)
    return {"CORO_CREATED": "created", "CORO_SUSPENDED": "susp", "CORO_CLOSED": "done",
            "CORO_RUNNING": "running"}[st]


# ---- random programs -------------------------------------------------------------------

THROWABLE = ["E1", "E2", "BE", "Cancelled", "GenExit", "E1", "E2", "BE", "Cancelled", "GenExit", "FE", "OOBData", "KI", "SE"]


def gen_prog(rng, depth=0, budget=None, allow_fut=False, catches=None, p_await=0.3, counter=None,
             fut_only=False, ctxvars=False):
    """A random statement list.  `budget` bounds the total size."""
    if budget is None:
        budget = [rng.randint(3, 14)]
    if counter is None:
        counter = {"log": 0, "fut": 0, "tok": 0}
    catches = catches or ["E1", "E2", "Cancelled", "GenExit", "Exception", "BaseException"]
    out = []
    n = rng.randint(1, 4 if depth else 5)
    for _ in range(n):
        if budget[0] <= 0:
            break
        budget[0] -= 1
        r = rng.random()
        if r < p_await:
            if fut_only or (allow_fut and rng.random() < 0.25):
                counter["fut"] += 1
                out.append(("fut", counter["fut"]))
            elif rng.random() < 0.1:
                out.append(("bare",))
            else:
                counter["tok"] += 1
                out.append(("tok", counter["tok"]))
        elif r < p_await + 0.12:
            counter["log"] += 1
            out.append(("log", counter["log"]))
        elif r < p_await + 0.27 and depth < 3:
            out.append(("call", gen_prog(rng, depth + 1, budget, allow_fut, catches, p_await, counter, fut_only, ctxvars)))
        elif r < p_await + 0.55 and depth < 3:
            body = gen_prog(rng, depth + 1, budget, allow_fut, catches, p_await, counter, fut_only, ctxvars)
            hs = []
            for c in rng.sample(catches, rng.choice([0, 1, 1, 2, 3])):
                hb = gen_prog(rng, depth + 1, budget, allow_fut, catches, p_await, counter, fut_only, ctxvars) \
                    if rng.random() < 0.8 else []
                if rng.random() < 0.2:
                    hb = hb + [("reraise",)]
                hs.append((c, hb))
            # `except BaseException`/`Exception` after narrower ones only (as Python orders them)
            hs.sort(key=lambda h: {"BaseException": 2, "Exception": 1}.get(h[0], 0))
            fin = gen_prog(rng, depth + 1, budget, allow_fut, catches, p_await, counter, fut_only, ctxvars) \
                if (rng.random() < 0.5 or not hs) else []
            fin = [s for s in fin if s[0] not in ("ret",)] or ([("log", 99)] if not hs else [])
            out.append(("try", body, hs, fin))
        elif r < p_await + 0.62:
            out.append(("ret", rng.choice([0, 5, 7, 11])))
            break
        elif r < p_await + 0.70:
            exc = rng.choice(["E1", "E2", "BE", "Cancelled", "E1", "E2", "InvalidState", "RT.other",
                              "StopIteration", "GenExit", "OOBData", "FE"])
            if rng.random() < 0.3:
                out.append(("raisefrom", exc, rng.choice(["E1", "E2", "BE", "None"])))
            else:
                out.append(("raise", exc))
            break
        elif ctxvars and r < p_await + 0.85:
            q = rng.random()
            i = rng.choice([0, 1])
            if q < 0.5:
                out.append(("cset", i, rng.choice([1, 2, 3, 4])))
            elif q < 0.8:
                out.append(("cget", i))
            else:
                out.append(("creset", i))
        else:
            counter["log"] += 1
            out.append(("log", counter["log"]))
    return out


def shrink_prog(stmts, fails):
    """Greedy structural shrinking: delete statements, unwrap try/call."""
    def variants(ss):
        for i, s in enumerate(ss):
            yield ss[:i] + ss[i + 1:]
            if s[0] == "call":
                yield ss[:i] + list(s[1]) + ss[i + 1:]
                for v in variants(s[1]):
                    yield ss[:i] + [("call", v)] + ss[i + 1:]
            if s[0] == "try":
                yield ss[:i] + list(s[1]) + ss[i + 1:]
                for v in variants(s[1]):
                    yield ss[:i] + [("try", v, s[2], s[3])] + ss[i + 1:]
                for j, (c, hb) in enumerate(s[2]):
                    yield ss[:i] + [("try", s[1], s[2][:j] + s[2][j + 1:], s[3] or [("log", 99)])] + ss[i + 1:]
                    for v in variants(hb):
                        yield ss[:i] + [("try", s[1], s[2][:j] + [(c, v)] + s[2][j + 1:], s[3])] + ss[i + 1:]
                if s[3] and s[2]:
                    yield ss[:i] + [("try", s[1], s[2], [])] + ss[i + 1:]
                for v in variants(s[3]):
                    if v or s[2]:
                        yield ss[:i] + [("try", s[1], s[2], v)] + ss[i + 1:]
    cur = list(stmts)
    improved = True
    rounds = 0
    while improved and rounds < 200:
        improved = False
        rounds += 1
        for v in variants(cur):
            try:
                if fails(v):
                    cur, improved = v, True
                    break
            except Exception:  # noqa: BLE001
                continue
    return cur


# ---------------------------------------------------------------------------------------
# wrapper stacks on the real code

EAGER = ("cs_await", "cs_ascoro", "cs_aclose", "cs_athrow")


def is_eager(name):
    return name.split(":")[0] in EAGER


async def _ref(x):
    return await aw(x)


class _AM:
    def __init__(self, x):
        self.x = x

    @awaitmethod
    async def __await__(self):
        return await aw(self.x)


class _AMI:
    def __init__(self, x):
        self.x = x

    @awaitmethod_iter
    async def __await__(self):
        return await aw(self.x)


def make_layer(name, x, keep, info):
    if name == "ref":
        return _ref(x)
    if name == "citer":
        return coro_iter(x)
    if name in ("cs_await", "cs_ascoro", "cs_aclose") or name.startswith("cs_athrow:"):
        cs = CoroStart(x)
        keep.append(cs)
        sr = cs.start_result
        if sr and sr[1] is None and asyncio.isfuture(sr[0]):
            f = sr[0]
            prev = bool(f._asyncio_future_blocking)
            info.setdefault("held_flags", []).append(prev)
            # while the wrapper holds the future, somebody else must be able to await it (natively the
            # driver/Task has cleared the flag by now)
            probe = _ref(f)
            try:
                got = probe.send(None)
                if got is not f:
                    info["held_probe_fail"] = "second awaiter got %r" % (got,)
                elif not f._asyncio_future_blocking:
                    info["held_probe_fail"] = "second awaiter received the future without its blocking flag"
            except BaseException as e:  # noqa: BLE001
                info["held_probe_fail"] = "second awaiter raised %s: %s" % (type(e).__name__, e)
            # ... and, like the Task running that second awaiter, clears the flag on receipt.  When the
            # wrapper finally passes the future on it must be armed again (checked in `drive`).
            f._asyncio_future_blocking = False
            keep.append(probe)
        if name == "cs_await":
            return cs.__await__()
        if name == "cs_ascoro":
            return cs.as_coroutine()
        if name == "cs_aclose":
            return cs.aclose()
        return cs.athrow(EXC[name.split(":")[1]]())
    if name == "coro_await":
        return coro_await(x)
    if name == "am":
        a = _AM(x)
        keep.append(a)
        return a.__await__()
    if name == "ami":
        a = _AMI(x)
        keep.append(a)
        return a.__await__()
    if name == "mon":
        return Monitor().aawait(x)
    if name == "masend":
        m = Monitor()
        keep.append(m)
        return m._asend(x, x.send, (None,))
    if name == "bmon":
        b = BoundMonitor(Monitor(), x)
        keep.append(b)
        return b.__await__()
    raise ValueError(name)


def build(layers, coro, keep, info):
    x = coro
    for name in reversed(layers):
        x = make_layer(name, x, keep, info)
        keep.append(x)
    return x


def drive(obj, drives, info):
    """Apply drives ('s:5', 't:E1', 'c'); stop at the first non-yield.  Returns canonical outs."""
    outs = []
    for d in drives:
        try:
            if d == "c":
                obj.close()
                outs.append("r:0")
                break
            k, a = d.split(":")
            if k == "s":
                r = obj.send(None if a == "0" else (SENDX[int(a)]() if int(a) in SENDX else int(a)))
            else:
                r = obj.throw(EXC[a]())
        except StopIteration as e:
            outs.append(f"r:{val(e.value)}")
            break
        except BaseException as e:  # noqa: BLE001
            outs.append("x:" + cname(e))
            break
        if r is None:
            outs.append("y:bare")
        elif isinstance(r, tuple) and r[0] == "tok":
            outs.append(f"y:tok:{r[1]}")
        elif asyncio.isfuture(r):
            k = getattr(r, "_verif_k", -1)
            outs.append(f"y:fut:{k}")
            info.setdefault("out_flags", []).append(bool(r._asyncio_future_blocking))
            # what a Task does on receipt; then the future gets its result
            r._asyncio_future_blocking = False
            if not r.done():
                r.set_result(100 + k)
        else:
            outs.append("y:?")
    return outs


def run_real(layers, stmts, drives, loop, resolve_held=False):
    """Run one case on the real code.  Returns (canonical line, info).  With `resolve_held` every
    Future a CoroStart is holding after the build is completed *before* the first drive (the
    schedule "resolved while the wrapper held it")."""
    env = Env(stmts, loop)
    keep, info = [], {}
    c = env.main()
    keep.append(c)
    obj = build(layers, c, keep, info)
    if resolve_held:
        for x in keep:
            sr = getattr(x, "start_result", None) if isinstance(x, CoroStart) else None
            if sr and sr[1] is None and asyncio.isfuture(sr[0]) and not sr[0].done():
                sr[0].set_result(100 + getattr(sr[0], "_verif_k", -1))
                info["resolved_while_held"] = True
    outs = drive(obj, drives, info)
    line = f"outs={' '.join(outs)} ; phase={phase(c)} ; log={env.log()}"
    info["keep"] = (keep, obj, env)     # alive until the caller has the line
    return line, info


def finalize(info):
    """Close everything quietly (after snapshots were taken)."""
    keep, obj, env = info.pop("keep", ([], None, None))
    for x in reversed(keep):
        try:
            if hasattr(x, "close"):
                x.close()
        except BaseException:  # noqa: BLE001
            pass
    if env is not None:
        for f in env.F.values():
            if not f.done():
                f.cancel()


def case_line(layers, stmts, drives):
    return f"run | {','.join(layers) if layers else '-'} | {sexp(stmts)} | {' '.join(drives)}"


def parse_line(line):
    d = {}
    for part in line.split(" ; "):
        k, _, v = part.partition("=")
        d[k] = v
    return d
