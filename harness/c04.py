"""C04 — a coroutine given a Context runs every one of its steps inside it.

Real-code runner, independent oracle, correspondence with lean/Drivers/Ctx.lean.

A case = (body script, mode, supplied mapping, caller mapping, driver ops).
Body scripts are flat automata over {set var, read var, await, try/except/finally}: one state
per suspension point, and for each state what the body does when resumed there by send, by a
thrown exception (an `except` handler / propagation) and by GeneratorExit (a `finally` /
cleanup handler).  `_body` below interprets a script as ONE real coroutine whose suspensions are
real `await`s inside real try/except blocks, so every segment is a genuine CPython resume.
"""
from __future__ import annotations

import asyncio
import contextvars
import json
import types
import warnings

import asynkit
import asynkit.coroutine as _acoro

from . import core

PROP = "C04"
LEAN_TARGETS = ["Asynkit.Props.C04", "Asynkit.Lemmas.GenEqC04"]
PROPS_FILES = ["Asynkit/Props/C04.lean", "Asynkit/Lemmas/GenEqC04.lean"]
DRIVERS = ["Ctx"]
TRUSTED = [
    'Lean 4.33 kernel; axioms ⊆ {propext, Classical.choice, Quot.sound} (audited per theorem each run)',
    'hand-written and tied only by the differential correspondence of this run (lean/Drivers/Ctx.lean): the '
    'control flow of Asynkit/Model/Ctx.lean (start_result handling, the __await__ relay loop, '
    "athrow/aclose/throw(tries)/close, _Continuation's first-step rule) and the script bodies",
    'translated, not trusted: which context a segment runs in - CoroStart._resume (test on self.context, '
    'context.run vs plain call) and, per entry point, whether every self.coro.send/throw/close goes through it; '
    "coro_eager's copy_context(), coro_await's context= - is read off the source on every run "
    "(translator/ctxresume2lean.py -> Gen/CtxResume.lean) and proved to be the model's inCtx / `repaired` "
    'wrapping (Lemmas/GenEqC04.lean, 5 theorems)',
    "modelled, not verified: contextvars.Context.run (mapping swapped in, writes land in that Context, caller's "
    'context restored), copy_context(), the coroutine-object envelope and generator semantics of __await__ (PEP '
    '479, GeneratorExit handling), PEP-380 delegation of the athrow()/aclose()/coro_await wrappers, '
    'collections.abc.Coroutine.close() of the _Continuation object coro_eager hands to its Task',
]
ASSUMPTIONS = [
    'the supplied Context is not the one the caller is currently running in (Context.run would raise '
    'RuntimeError)',
    'drivers are sequential (no re-entrant resume of a running coroutine)',
    'ContextVars are read with a default (an unset variable reads as its default, 0 in the model)',
    'nested use (a coroutine in a context starting another one) and one Context used twice are outside the Lean '
    'model (sequential drivers): those streams are checked by the oracle only',
]
RULE = ("case = body script (1-4 suspension points; per point a send/except/finally entry of 0-3 set/get actions "
        "over 3 ContextVars and a terminal await|return|raise|re-raise) x mode {CoroStart(context=ctx), "
        "coro_await(context=ctx), context=None, coro_eager} x supplied mapping (empty Context, pre-populated, copy of "
        "the caller's) x driver sequence over {send, throw, close on the awaiter, second __await__, athrow, aclose, "
        "sync throw(tries), sync close, caller writes}; non-trivial when the run itself hit one of the tagged "
        "situations (cleanup code that reads/writes a variable ran through throw/close/athrow/aclose/GeneratorExit, "
        "a caller write between segments, an empty supplied Context, a retry of throw(), the cannot-reuse path, "
        "an eager start that completed synchronously); distinct = hash of the canonical case text")

NV = 3
VARS = [contextvars.ContextVar(f"c04_v{i}", default=0) for i in range(NV)]
# never read or written by a body and not part of the model: setting it makes a Context non-empty
SENTINEL = contextvars.ContextVar("c04_sentinel", default=0)


class E1(Exception):
    pass


class E2(Exception):
    pass


EXC = {"E1": E1, "E2": E2, "GeneratorExit": GeneratorExit, "CancelledError": asyncio.CancelledError,
       "RuntimeError": RuntimeError, "TypeError": TypeError}


def exc_name(e: BaseException) -> str:
    for n in ("E1", "E2"):
        if type(e) is EXC[n]:
            return n
    for n, t in (("GeneratorExit", GeneratorExit), ("CancelledError", asyncio.CancelledError),
                 ("AssertionError", AssertionError), ("RuntimeError", RuntimeError), ("TypeError", TypeError)):
        if isinstance(e, t):
            return n
    return type(e).__name__


@types.coroutine
def tok(n):
    return (yield ("tok", n))


def parse_entry(s):
    a, t = s.split(":")
    acts = []
    for x in a.split(","):
        if not x:
            continue
        if x[0] == "g":
            acts.append(("g", int(x[1:])))
        else:
            v, val = x[1:].split("=")
            acts.append(("s", int(v), int(val)))
    if t == "rr":
        term = ("rr",)
    elif t[0] == "a":
        k, n = t[1:].split(">")
        term = ("a", int(k), int(n))
    elif t[0] == "r":
        term = ("r", int(t[1:]))
    else:
        term = ("x", t[1:])
    return acts, term


def parse_prog(text):
    return [[parse_entry(e) for e in st.split("/")] for st in text.split(";")]


async def _body(prog, log, ctl):
    """Interpret a script.  Every suspension is a real await inside try/except."""
    pc, kind, exc = 0, 0, None
    while True:
        if ctl.get("dead"):
            return None
        acts, term = prog[pc][kind] if pc < len(prog) else ([], ("rr",))
        log.append(("seg", pc, kind))
        for a in acts:
            if a[0] == "s":
                VARS[a[1]].set(a[2])
                log.append(("set", a[1], a[2]))
            else:
                log.append(("get", a[1], VARS[a[1]].get()))
        if term[0] == "a":
            nxt = term[2]
            try:
                await tok(term[1])
                kind, exc = 0, None
            except GeneratorExit as e:
                kind, exc = 2, e
            except BaseException as e:  # noqa: BLE001
                kind, exc = 1, e
            pc = nxt
        elif term[0] == "r":
            return term[1] or None
        elif term[0] == "x":
            raise EXC[term[1]]()
        else:
            if exc is not None:
                raise exc
            return None


# literal try/except/finally bodies (oracle only; same log format as `_body`)


def _set(log, i, v):
    VARS[i].set(v)
    log.append(("set", i, v))


def _get(log, i):
    log.append(("get", i, VARS[i].get()))


async def lit_finally(prog, log, ctl):
    _set(log, 0, 1)
    try:
        await tok(1)
        _get(log, 0)
        _set(log, 0, 2)
        await tok(2)
        _get(log, 0)
    finally:
        _get(log, 0)
        _set(log, 1, 3)
    return 5


async def lit_async_cleanup(prog, log, ctl):
    _set(log, 1, 1)
    try:
        await tok(1)
        _get(log, 1)
    finally:
        _get(log, 1)
        _set(log, 2, 2)
        if not ctl.get("dead"):
            try:
                await tok(2)          # asynchronous clean-up (aclose()/athrow() allow it)
            finally:
                _get(log, 2)
                _set(log, 0, 4)
    return 6


async def lit_except_retry(prog, log, ctl):
    n = 0
    while n < 3 and not ctl.get("dead"):
        n += 1
        try:
            _set(log, 0, n)
            await tok(n)
            _get(log, 0)
        except E1:
            _get(log, 0)
            _set(log, 1, 7)
        except asyncio.CancelledError:
            _get(log, 1)
            _set(log, 2, 8)
            raise
    _get(log, 1)
    return n


class _Cm:
    def __init__(self, log):
        self.log = log

    async def __aenter__(self):
        _set(self.log, 2, 5)
        return self

    async def __aexit__(self, *exc):
        _get(self.log, 2)
        _set(self.log, 2, 6)
        return False


async def lit_async_with(prog, log, ctl):
    async with _Cm(log):
        _get(log, 2)
        await tok(1)
        _get(log, 2)
        _set(log, 0, 9)
        await tok(2)
    _get(log, 2)
    return 1


LIT = {"finally": lit_finally, "async-cleanup": lit_async_cleanup, "except-retry": lit_except_retry,
       "async-with": lit_async_with}


# ---------------------------------------------------------------------------------------
# real-code runner


def _mk_context(vals, sentinel=False):
    c = contextvars.Context()
    if sentinel:
        c.run(SENTINEL.set, 1)
    for i, v in enumerate(vals):
        if v:
            c.run(VARS[i].set, v)
    return c


def _snap(c):
    return [c.get(VARS[i], 0) or 0 for i in range(NV)]


_LOOP = None


def _loop():
    global _LOOP
    if _LOOP is None or _LOOP.is_closed():
        _LOOP = asyncio.new_event_loop()
    return _LOOP


class Real:
    """Drives the real asynkit objects for one case.  `lines` are the effective driver lines
    (also fed to the Lean driver), `outs` the canonical observations, one per line."""

    def __init__(self, case):
        self.case = case
        self.prog = parse_prog(case["prog"]) if "lit" not in case else []
        self.mode = case["mode"]
        self.log = []
        self.lines = ["body " + case["prog"]]
        self.outs = ["ok"]
        self.events = []          # per line: list of body log entries produced by it
        self.kinds = ["body"]
        self.caller = _mk_context(case["cur0"], case.get("sentinel", False) and case["mode"] == "eager")
        self.supplied = None
        self.cs = None
        self.it = None            # current awaiter (generator or delegating coroutine)
        self.keep = []            # keep every object alive until the case has been judged
        self.pending_init = None
        self.ctl = {}
        self.first_on_new = [False]
        self.newit_fresh = False

    # -- helpers
    def _call(self, fn):
        """Run one driver call inside the caller's context; canonical outcome."""
        try:
            r = self.caller.run(fn)
        except StopIteration as e:
            return "ret %d" % (e.value or 0)
        except BaseException as e:  # noqa: BLE001
            return "raise " + exc_name(e)
        return r

    def _emit(self, line, kind, outcome, mark):
        ev = self.log[mark:]
        reads = ",".join(f"{e[1]}:{e[2]}" for e in ev if e[0] == "get")
        sup = "none" if self.supplied is None else ",".join(map(str, _snap(self.supplied)))
        cur = ",".join(map(str, _snap(self.caller)))
        self.lines.append(line)
        self.kinds.append(kind)
        self.outs.append(f"{outcome}|{reads}|{cur}|{sup}")
        self.events.append(ev)
        # first send on an awaiter obtained from a second `__await__()` call
        self.first_on_new.append(kind == "awsend" and self.newit_fresh)
        if kind == "newit":
            self.newit_fresh = True
        elif kind != "cset":
            self.newit_fresh = False

    @staticmethod
    def _y(v):
        if isinstance(v, tuple) and v and v[0] == "tok":
            return f"yield tok {v[1]}"
        return "yield bare" if v is None else f"yield ?{type(v).__name__}"

    # -- construction
    def start(self):
        c = self.case
        mark = len(self.log)
        coro = (LIT[c["lit"]] if "lit" in c else _body)(self.prog, self.log, self.ctl)
        self.keep.append(coro)
        cur0 = ",".join(map(str, c["cur0"]))
        if self.mode in ("given", "cawait"):
            self.supplied = _mk_context(c["ctx0"], c.get("sentinel", False))
            ctxs = ",".join(map(str, c["ctx0"]))
        else:
            ctxs = "none"
        if self.mode in ("given", "none"):
            out = self._call(lambda: asynkit.CoroStart(coro, context=self.supplied))
            if isinstance(out, str):
                raise core.InfraError("CoroStart constructor raised: " + out)
            self.cs = out
            self.keep.append(out)
            self._emit(f"init {ctxs} {cur0}", "init", "ret 0", mark)
        elif self.mode == "cawait":
            w = asynkit.coro_await(coro, context=self.supplied)
            self.keep.append(w)
            self.it = w
            self.pending_init = f"init {ctxs} {cur0}"
        elif self.mode == "eager":
            captured = []
            real_copy = contextvars.copy_context

            def spy():
                x = real_copy()
                captured.append(x)
                return x

            async def wrapper():
                return self.caller.run(lambda: asynkit.coro_eager(coro, task_factory=lambda co: co))

            _acoro.copy_context = spy
            try:
                res = _loop().run_until_complete(wrapper())
            finally:
                _acoro.copy_context = real_copy
            self.supplied = captured[0] if captured else None
            self.keep.append(res)
            self.it = res
            self._emit(f"eager {cur0}", "init", "ret 0", mark)
        else:
            raise core.InfraError("bad mode " + self.mode)

    # -- driver ops
    def _need_it(self):
        if self.it is None:
            if self.cs is None:
                return False
            mark = len(self.log)
            self.it = self.caller.run(self.cs.__await__)
            self.keep.append(self.it)
            self._emit("op newit", "newit", "ret 0", mark)
        return True

    def op(self, o):
        t = o.split()
        k = t[0]
        mark = len(self.log)
        if k == "cset":
            self.caller.run(VARS[int(t[1])].set, int(t[2]))
            if self.pending_init is not None:
                # coro_await not started yet: nothing exists on the model side; the `init` line
                # will carry the caller's mapping as it is when the first send happens
                self.lines.append("pre " + o)
                self.kinds.append("cset")
                self.outs.append(None)
                self.events.append([])
                self.first_on_new.append(False)
                return
            self._emit("op " + o, k, "ret 0", mark)
            return
        if self.pending_init is not None:
            # coro_await: the first send constructs the CoroStart and awaits it
            if k != "awsend":
                return
            r = self._call(lambda: self.it.send(None))
            line = self.pending_init.rsplit(" ", 1)[0] + " " + ",".join(map(str, _snap(self.caller)))
            self.pending_init = None
            out = r if isinstance(r, str) else self._y(r)
            # the model answers two lines (init, awsend); the real code one observation
            self.lines.append(line)
            self.kinds.append("init-merged")
            self.outs.append(None)
            self.events.append([])
            self.first_on_new.append(False)
            self._emit("op awsend", "awsend", out, mark)
            if isinstance(r, str):
                self.it = None
            return
        if k in ("awsend", "awthrow", "awclose"):
            if isinstance(self.it, asyncio.Future):
                if k != "awsend":
                    return
                f = self.it
                self.it = None

                def res():
                    if f.exception() is not None:
                        raise f.exception()
                    raise StopIteration(f.result())
                self._emit("op awsend", k, self._call(res), mark)
                return
            if not self._need_it():
                return
            mark = len(self.log)
            it = self.it
            if k == "awsend":
                r = self._call(lambda: it.send(None))
            elif k == "awthrow":
                r = self._call(lambda: it.throw(EXC[t[1]]()))
            else:
                r = self._call(lambda: it.close())
                if not isinstance(r, str):
                    r = "ret 0"
            out = r if isinstance(r, str) else self._y(r)
            if isinstance(r, str):
                self.it = None
            self._emit("op " + o, k, out, mark)
            return
        if self.cs is None:
            return                      # eager / coro_await give no access to the CoroStart
        cs = self.cs
        if k == "newit":
            self.it = self.caller.run(cs.__await__)
            self.keep.append(self.it)
            self._emit("op newit", k, "ret 0", mark)
        elif k in ("athrow", "aclose"):
            ac = cs.athrow(EXC[t[1]]()) if k == "athrow" else cs.aclose()
            self.keep.append(ac)
            r = self._call(lambda: ac.send(None))
            out = r if isinstance(r, str) else self._y(r)
            self.it = None if isinstance(r, str) else ac
            self._emit("op " + o, k, out, mark)
        elif k == "sthrow":
            def f():
                raise StopIteration(cs.throw(EXC[t[1]](), tries=int(t[2])))
            self._emit("op " + o, k, self._call(f), mark)
        elif k == "sclose":
            r = self._call(cs.close)
            self._emit("op " + o, k, r if isinstance(r, str) else "ret 0", mark)

    def run(self):
        self.start()
        for o in self.case["ops"]:
            self.op(o)
        self.dispose()
        return self

    def dispose(self):
        """Everything has been observed: finish the objects quietly (in a throw-away context) so
        that nothing is resumed later by the garbage collector."""
        n = len(self.log)
        self.ctl["dead"] = True
        scratch = contextvars.Context()
        with warnings.catch_warnings():
            warnings.simplefilter("ignore")
            for o in reversed(self.keep):
                for _ in range(3):
                    try:
                        if hasattr(o, "cancel") and isinstance(o, asyncio.Future):
                            o.cancel()
                        elif hasattr(o, "close") and not isinstance(o, asynkit.CoroStart):
                            scratch.run(o.close)
                        break
                    except BaseException:  # noqa: BLE001
                        continue
        del self.log[n:]
        self.keep.clear()


# ---------------------------------------------------------------------------------------
# oracle: the property text, evaluated on the observations (independent of the Lean model)


def oracle(real: Real, tags: set):
    """Returns None or dict(step=index into real.lines, kind, what, expected, observed)."""
    c = real.case
    isolated = real.mode in ("given", "cawait", "eager")
    caller = list(c["cur0"])
    view = list(c["ctx0"]) if real.mode in ("given", "cawait") else list(c["cur0"])
    if real.mode in ("given", "cawait") and not any(c["ctx0"]):
        tags.add("empty-supplied-context")
    ei = 0
    for idx, (line, kind, out) in enumerate(zip(real.lines, real.kinds, real.outs)):
        if kind == "body":
            continue
        ev = real.events[ei]
        ei += 1
        if kind == "init-merged":
            continue
        if kind == "cset":
            t = line.split()
            caller[int(t[2])] = int(t[3])
            if any(e[0] == "seg" for e in real.log):
                tags.add("caller-write-between-segments")
            if out is None:
                continue
        ref = view if isolated else caller
        nseg = 0
        for e in ev:
            if e[0] == "seg":
                nseg += 1
                if e[2] and prog_entry_has_acts(real.prog, e[1], e[2]):
                    if kind == "awthrow" and e[2] == 2:
                        tags.add("cleanup-via-GeneratorExit-throw")
                    else:
                        tags.add({"awthrow": "handler-via-throw", "awclose": "cleanup-via-awaiter-close",
                                  "athrow": "handler-via-athrow", "aclose": "cleanup-via-aclose",
                                  "sthrow": "handler-via-sync-throw", "sclose": "cleanup-via-sync-close"}
                                 .get(kind, "handler-other"))
            elif e[0] == "set":
                ref[e[1]] = e[2]
            elif e[0] == "get":
                if e[2] != ref[e[1]]:
                    return dict(step=idx, kind=kind, fail="read",
                                what=f"during `{line}` the body read v{e[1]}={e[2]} but "
                                     + ("its own context holds" if isolated else "the shared context holds")
                                     + f" {ref[e[1]]}",
                                expected=f"v{e[1]}={ref[e[1]]}", observed=f"v{e[1]}={e[2]}")
        if nseg > 1:
            tags.add("several-segments-in-one-call")
        if kind == "newit" and real.kinds[:idx].count("newit") >= 1:
            tags.add("second-awaiter")
        o, _reads, cur, sup = out.split("|")
        cur = [int(x) for x in cur.split(",")]
        if cur != caller:
            return dict(step=idx, kind=kind, fail="caller",
                        what=f"after `{line}` the caller's context is {cur}, "
                             + ("its own writes give" if isolated else "caller+body writes give") + f" {caller}",
                        expected=caller, observed=cur)
        if isolated:
            if sup == "none":
                return dict(step=idx, kind=kind, fail="nocontext",
                            what="no private context was created for the coroutine", expected=view, observed=None)
            sup = [int(x) for x in sup.split(",")]
            if sup != view:
                return dict(step=idx, kind=kind, fail="supplied",
                            what=f"after `{line}` the supplied context holds {sup} but the body's view is {view}",
                            expected=view, observed=sup)
        if real.mode == "eager" and kind == "init" and real.it is not None and isinstance(real.it, asyncio.Future):
            tags.add("eager-completed-synchronously")
    return None


def prog_entry_has_acts(prog, pc, kind):
    return pc < len(prog) and bool(prog[pc][kind][0])


def judge(case):
    real = Real(case).run()
    tags = set()
    bad = oracle(real, tags)
    if bad is not None:
        i = bad["step"]
        bad["line"] = real.lines[i]
        bad["reuse"] = real.first_on_new[i] and any(k in ("awsend", "sclose", "athrow", "aclose") for k in real.kinds[:i])
    return real, tags, bad


PATH = {"init": "start", "awsend": "await-send", "awthrow": "await-throw", "awclose": "await-GeneratorExit",
        "athrow": "athrow", "aclose": "aclose", "sthrow": "sync-throw", "sclose": "sync-close",
        "newit": "second-await", "cset": "caller-write"}


def key_of(case, bad, real=None):
    """Identity of a failure = the entry point (code path of CoroStart) at which the coroutine ran
    in the wrong context — independent of script, mode and of which observation exposed it.
    `empty-context:` prefix: the failure disappears when the Context is made non-empty."""
    path = PATH.get(bad["kind"], bad["kind"])
    line = bad.get("line", "")
    if bad["kind"] == "awthrow" and line.endswith("GeneratorExit"):
        path = "await-GeneratorExit"
    if bad.get("reuse"):
        path = "await-reuse"
    if not case.get("sentinel") and case["mode"] in ("given", "cawait", "eager"):
        empty = not any(case["ctx0"]) if case["mode"] != "eager" else not any(case["cur0"])
        if empty:
            try:
                b2 = judge(dict(case, sentinel=True))[2]
            except core.InfraError:
                b2 = bad
            if b2 is None or b2["step"] > bad["step"]:
                return "empty-context"
    return path


def shrink(case, bad):
    """ddmin the driver ops, then drop actions of the script, keeping the same defect key."""
    key = key_of(case, bad)

    def fails(c):
        try:
            b = judge(c)[2]
        except core.InfraError:
            return False
        return b is not None and key_of(c, b) == key

    cur = dict(case)
    if len(cur["ops"]) >= 2:
        cur["ops"] = core.ddmin(cur["ops"], lambda ops: fails(dict(cur, ops=ops)))
    if len(cur["ops"]) == 1 and fails(dict(cur, ops=[])):
        cur["ops"] = []
    # simplify the script: remove actions one at a time
    changed = True
    while changed:
        changed = False
        states = [st.split("/") for st in cur["prog"].split(";")]
        for i, st in enumerate(states):
            for j, e in enumerate(st):
                a, t = e.split(":")
                acts = [x for x in a.split(",") if x]
                for k in range(len(acts)):
                    new = acts[:k] + acts[k + 1:]
                    st2 = list(st)
                    st2[j] = ",".join(new) + ":" + t
                    states2 = list(states)
                    states2[i] = st2
                    cand = dict(cur, prog=";".join("/".join(s) for s in states2))
                    if fails(cand):
                        cur = cand
                        changed = True
                        break
                if changed:
                    break
            if changed:
                break
    # prefer an all-zero caller mapping / the smallest supplied mapping
    for fld in ("cur0", "ctx0"):
        for i in range(NV):
            if cur[fld][i]:
                v = list(cur[fld])
                v[i] = 0
                if fld == "ctx0" and not any(v) and key != "empty-context":
                    continue          # keep the supplied Context non-empty: unambiguous witness
                cand = dict(cur, **{fld: v})
                if fails(cand):
                    cur = cand
    return cur


# ---------------------------------------------------------------------------------------
# generation


def gen_entry(rng, nstates, which):
    acts = []
    for _ in range(rng.choice([0, 1, 1, 2, 2, 3])):
        x = rng.randrange(NV)
        acts.append(f"g{x}" if rng.random() < 0.5 else f"s{x}={rng.randint(1, 9)}")
    r = rng.random()
    nxt = rng.randrange(1, nstates) if nstates > 1 else 0
    aw = f"a{rng.randint(1, 9)}>{nxt}"
    if which == 0:
        term = aw if (r < 0.72 and nstates > 1) else (f"r{rng.randint(0, 9)}" if r < 0.92 else "xE1")
    elif which == 1:
        term = "rr" if r < 0.35 else aw if (r < 0.65 and nstates > 1) else f"r{rng.randint(0, 9)}" if r < 0.85 else "xE2"
    else:
        term = "rr" if r < 0.7 else f"r{rng.randint(0, 9)}" if r < 0.82 else aw if (r < 0.92 and nstates > 1) else "xE2"
    return ",".join(acts) + ":" + term


def gen_case(rng):
    n = rng.choice([1, 2, 2, 3, 3, 4])
    prog = ";".join("/".join(gen_entry(rng, n, w) for w in range(3)) for _ in range(n))
    mode = rng.choice(["given", "given", "given", "cawait", "none", "eager"])
    cur0 = [rng.choice([0, 0, rng.randint(1, 9)]) for _ in range(NV)]
    r = rng.random()
    if r < 0.3:
        ctx0 = [0] * NV
    elif r < 0.5:
        ctx0 = list(cur0)
    else:
        ctx0 = [rng.choice([0, rng.randint(1, 9)]) for _ in range(NV)]
    if mode in ("none", "eager"):
        ctx0 = [0] * NV
    ops = []
    for _ in range(rng.randint(0, 9)):
        r = rng.random()
        e = rng.choice(["E1", "E1", "E2", "CancelledError"])
        if mode in ("eager", "cawait"):
            ops.append("awsend" if r < 0.55 else f"awthrow {e}" if r < 0.7 else "awthrow GeneratorExit" if r < 0.75
                       else "awclose" if r < 0.83 else f"cset {rng.randrange(NV)} {rng.randint(1, 9)}")
        else:
            ops.append("awsend" if r < 0.36 else f"awthrow {e}" if r < 0.46 else "awthrow GeneratorExit" if r < 0.49
                       else "awclose" if r < 0.55 else f"athrow {e}" if r < 0.63 else "aclose" if r < 0.69
                       else f"sthrow {e} {rng.choice([1, 1, 2, 3])}" if r < 0.77 else "sclose" if r < 0.83
                       else "newit" if r < 0.87 else f"cset {rng.randrange(NV)} {rng.randint(1, 9)}")
    return {"prog": prog, "mode": mode, "ctx0": ctx0, "cur0": cur0, "ops": ops}


def case_text(case):
    return json.dumps(case, sort_keys=True)


# ---------------------------------------------------------------------------------------
# a second, fully real variant of eager(): default task factory on a running event loop


async def _eager_loop_case(case, log, keep, ctl):
    prog = parse_prog(case["prog"])
    if case.get("sentinel"):
        SENTINEL.set(1)
    for i, v in enumerate(case["cur0"]):
        if v:
            VARS[i].set(v)
    before = [v.get() for v in VARS]
    obs = {"leak": None}

    async def body():
        # same interpreter, but awaits sleep(0) so that a real Task resumes it
        pc, kind, exc, nseg = 0, 0, None, 0
        while True:
            acts, term = prog[pc][kind] if pc < len(prog) else ([], ("rr",))
            nseg += 1
            if nseg > 150 or ctl.get("dead"):
                return None
            for a in acts:
                if a[0] == "s":
                    VARS[a[1]].set(a[2])
                    log.append(("set", a[1], a[2]))
                else:
                    log.append(("get", a[1], VARS[a[1]].get()))
            if term[0] == "a":
                nxt = term[2]
                try:
                    await asyncio.sleep(0)
                    kind, exc = 0, None
                except GeneratorExit as e:
                    kind, exc = 2, e
                except BaseException as e:  # noqa: BLE001
                    kind, exc = 1, e
                pc = nxt
            elif term[0] == "r":
                return term[1] or None
            elif term[0] == "x":
                raise EXC[term[1]]()
            else:
                if exc is not None:
                    raise exc
                return None

    bc = body()
    keep.append(bc)      # a cancel before the task's first step strands the coroutine (that is C03's
    #                      subject); without this reference its clean-up would run from the garbage
    #                      collector in whatever context happens to be current
    aw = asynkit.eager(bc)
    after_call = [v.get() for v in VARS]
    cancel_at = case.get("cancel_at")
    n = 0
    while not aw.done():
        if cancel_at is not None and n == cancel_at:
            aw.cancel()
        n += 1
        await asyncio.sleep(0)
        if n > 60:
            aw.cancel()
    try:
        aw.result()
    except BaseException:  # noqa: BLE001
        pass
    obs["before"], obs["after_call"], obs["end"] = before, after_call, [v.get() for v in VARS]
    return obs


def eager_loop(ctx, case):
    """Oracle only: eager() with the default task factory on a real loop.  The caller (this
    coroutine's task) must never see a body write, the body must read its own writes."""
    log, keep, ctl = [], [], {}
    obs = _loop().run_until_complete(_eager_loop_case(case, log, keep, ctl))
    n = len(log)
    ctl["dead"] = True
    for o in keep:
        try:
            contextvars.Context().run(o.close)
        except BaseException:  # noqa: BLE001
            pass
    del log[n:]
    view = list(case["cur0"])
    for e in log:
        if e[0] == "set":
            view[e[1]] = e[2]
        elif e[2] != view[e[1]]:
            return dict(step=0, kind="eager-task", fail="read", what=f"body read v{e[1]}={e[2]}, own view {view[e[1]]}",
                        expected=view[e[1]], observed=e[2])
    for k in ("after_call", "end"):
        if obs[k] != obs["before"]:
            return dict(step=0, kind="eager-task", fail="caller",
                        what=f"caller's variables changed from {obs['before']} to {obs[k]} ({k})",
                        expected=obs["before"], observed=obs[k])
    return None


# ---------------------------------------------------------------------------------------


def explore(ctx, cases, label=""):
    all_lines, spans, reals = [], [], []
    for case in cases:
        real, tags, bad = judge(case)
        ctx.case(case_text(case), sorted(tags))
        ctx.tag("mode-" + case["mode"])
        if bad is not None:
            k0 = key_of(case, bad)
            if any(v["key"] == k0 for v in ctx.violations):
                ctx.violation(k0, "", None)          # same defect class again: only counted
                bad = None
        if bad is not None:
            small = shrink(case, bad)
            r2, _, b2 = judge(small)
            if b2 is None:
                small, r2, b2 = case, real, bad
            ctx.violation(key_of(small, b2), label + b2["what"],
                          dict(small, failing_step=r2.lines[b2["step"]], driver_lines=r2.lines),
                          expected=b2["expected"], observed=b2["observed"],
                          theorem="Asynkit.C04.ctx_every_segment / ctx_none_shared / eager_private_copy")
        spans.append((len(all_lines) + 1, len(real.lines)))
        all_lines.append("reset")
        all_lines.extend(real.lines)
        reals.append(real)
    if not getattr(ctx, "lean_ok", True) or not cases:
        return
    mouts = ctx.lean_driver("Ctx", all_lines)
    if len(mouts) != len(all_lines):
        raise core.InfraError(f"driver returned {len(mouts)} lines for {len(all_lines)}")
    reported = 0
    for (start, n), real in zip(spans, reals):
        mo = mouts[start:start + n]
        carry = ""
        for i, (ln, r, m) in enumerate(zip(real.lines, real.outs, mo)):
            if r is None:            # coro_await: init observed together with the first send
                carry = m.split("|")[1] if "|" in m else ""
                continue
            if carry:
                parts = m.split("|")
                if len(parts) == 4:
                    parts[1] = ",".join(x for x in (carry, parts[1]) if x)
                    m = "|".join(parts)
                carry = ""
            if r != m:
                if reported < 3:
                    ctx.disagreement(f"{label}model and implementation answer `{ln}` differently",
                                     dict(real.case, driver_lines=real.lines[: i + 1]),
                                     expected=m, observed=r, theorem="correspondence Drivers/Ctx")
                reported += 1
                break
    ctx.traces += len(cases)


def literal_cases(rng, n):
    opsets = [["awsend", "awsend", "awsend"], ["awsend", "awclose"], ["awsend", "awthrow E1", "awsend"],
              ["awsend", "awthrow GeneratorExit"], ["sclose"], ["sthrow E1 1"], ["sthrow E1 3"], ["aclose", "awsend"],
              ["athrow E1", "awsend", "awsend"], ["athrow CancelledError", "awsend"], ["awsend", "sclose"],
              ["awsend", "aclose", "awsend"], ["awsend", "newit", "awsend"], ["awsend", "sthrow E2 2"]]
    out = []
    for lit in LIT:
        for mode in ("given", "cawait", "none", "eager"):
            for ops in opsets:
                for ctx0 in ([0, 0, 0], [0, 7, 0]):
                    if mode in ("none", "eager") and any(ctx0):
                        continue
                    ops2 = list(ops)
                    for _ in range(n):
                        ops2.insert(rng.randrange(len(ops2) + 1), f"cset {rng.randrange(NV)} {rng.randint(1, 9)}")
                    out.append({"lit": lit, "prog": "literal:" + lit, "mode": mode, "ctx0": ctx0,
                                "cur0": [rng.choice([0, 3]) for _ in range(NV)], "ops": ops2})
    return out


def explore_literal(ctx, cases):
    """Oracle only (no script, hence no model run) on hand-written try/finally/async-with bodies."""
    for case in cases:
        real, tags, bad = judge(case)
        ctx.case(case_text(case), sorted(tags | {"literal-try-finally-body"}))
        if bad is not None:
            ctx.violation(key_of(case, bad), "literal body: " + bad["what"],
                          dict(case, failing_step=real.lines[bad["step"]]),
                          expected=bad["expected"], observed=bad["observed"],
                          theorem="Asynkit.C04.ctx_every_segment / ctx_none_shared / eager_private_copy")


# ---------------------------------------------------------------------------------------
# nested use: a coroutine that itself runs in a supplied / private context starts another one
# with eager() / coro_await(context=copy) / CoroStart(context=copy).  The inner context is a
# distinct Context object that is EQUAL (same content) to the outer one at that moment.


def nested_case(case):
    """Returns None or a `bad` dict.  case: mode (outer: given|eager), variant (inner: eager|cawait|corostart),
    vals = [a, b, c, d] distinct values, cur0, ctx0."""
    a, b, c, d = case["vals"]
    variant = case["variant"]
    obs = {}
    keep = []

    async def inner():
        obs["inner_reads_outer_write"] = VARS[0].get()         # must be `a` (copy taken at the call)
        VARS[1].set(b)
        await tok(1)
        obs["inner_reads_own_write"] = VARS[1].get()           # must be `b`
        obs["inner_sees_later_outer_write"] = VARS[2].get()     # outer wrote c after the copy: must not be c
        VARS[0].set(d)
        return 1

    async def outer():
        VARS[0].set(a)
        ic = inner()
        keep.append(ic)
        if variant == "eager":
            aw = asynkit.coro_eager(ic, task_factory=lambda co: co)
            assert aw.send(None) == ("tok", 1)          # the continuation hands out the pending token
        elif variant == "cawait":
            aw = asynkit.coro_await(ic, context=contextvars.copy_context())
            assert aw.send(None) == ("tok", 1)
        else:
            cs = asynkit.CoroStart(ic, context=contextvars.copy_context())
            keep.append(cs)
            aw = cs.__await__()
            assert aw.send(None) == ("tok", 1)
        keep.append(aw)
        obs["outer_after_inner_start"] = [v.get() for v in VARS]   # inner's b must not be here
        VARS[2].set(c)
        await tok(2)                                                # outer itself suspends and is resumed
        try:
            aw.send(None)
        except StopIteration:
            pass
        obs["outer_after_inner_end"] = [v.get() for v in VARS]     # neither b nor d
        return 2

    caller = _mk_context(case["cur0"])
    oc = outer()
    keep.append(oc)
    captured = []
    if case["mode"] == "given":
        supplied = _mk_context(case["ctx0"], True)
        cs = caller.run(lambda: asynkit.CoroStart(oc, context=supplied))
        it = caller.run(cs.__await__)
    else:
        real_copy = contextvars.copy_context
        first = []

        def spy():
            x = real_copy()
            if not first:
                first.append(x)
            return x

        async def wrapper():
            return caller.run(lambda: asynkit.coro_eager(oc, task_factory=lambda co: co))

        _acoro.copy_context = spy
        try:
            it = _loop().run_until_complete(wrapper())
        finally:
            _acoro.copy_context = real_copy
        supplied = first[0] if first else None
    keep.append(it)
    try:
        r = caller.run(lambda: it.send(None))
        if r == ("tok", 2):
            try:
                caller.run(lambda: it.send(None))
            except StopIteration:
                pass
    except StopIteration:
        pass
    base = list(case["ctx0"]) if case["mode"] == "given" else list(case["cur0"])
    want1 = [a, base[1], base[2]]
    want2 = [a, base[1], c]
    checks = [
        ("inner_reads_outer_write", a, "the inner coroutine does not see what the outer one wrote before starting it"),
        ("inner_reads_own_write", b, "the inner coroutine does not read its own earlier write"),
        ("inner_sees_later_outer_write", base[2], "a later write of the outer coroutine is visible in the inner one's private context"),
        ("outer_after_inner_start", want1, "a write of the inner coroutine is visible in the outer coroutine's context"),
        ("outer_after_inner_end", want2, "a write of the inner coroutine is visible in the outer coroutine's context"),
    ]
    bad = None
    for k, want, what in checks:
        if obs.get(k) != want:
            bad = dict(fail=k, what=f"nested {variant} inside a coroutine run with a {case['mode']} context: {what} "
                                    f"({k}: expected {want}, observed {obs.get(k)})", expected=want, observed=obs.get(k))
            break
    if bad is None and _snap(caller) != list(case["cur0"]):
        bad = dict(fail="caller", what="nested: the outermost caller's context changed", expected=case["cur0"],
                   observed=_snap(caller))
    if bad is None and supplied is not None and _snap(supplied) != want2:
        bad = dict(fail="supplied", what=f"nested: the outer coroutine's context holds {_snap(supplied)}, its own writes give {want2}",
                   expected=want2, observed=_snap(supplied))
    with warnings.catch_warnings():
        warnings.simplefilter("ignore")
        for o in reversed(keep):
            try:
                if hasattr(o, "close") and not isinstance(o, asynkit.CoroStart):
                    contextvars.Context().run(o.close)
            except BaseException:  # noqa: BLE001
                pass
    return bad


def shared_case(case):
    """One Context used twice: a first coroutine runs in `ctx` and, while it runs, a COPY of the
    current context is taken (by hand with copy_context(), or by asyncio for a Task it creates);
    later, code running in that copy drives a second CoroStart / coro_await that was given the
    same `ctx`.  The second coroutine must run in `ctx` itself, not in the copy that drives it."""
    a, b, c, d = case["vals"]
    variant = case["variant"]            # corostart | cawait | close | task
    obs = {}
    keep = []
    ctx = _mk_context(case["ctx0"], case.get("sentinel", True))
    caller = _mk_context(case["cur0"])
    copies = []

    async def second():
        obs["second_reads_first_write"] = VARS[0].get()          # a: it runs in ctx, where first() wrote
        VARS[1].set(b)
        try:
            if variant == "task":
                await asyncio.sleep(0)
            else:
                await tok(1)
            obs["second_reads_own_write"] = VARS[1].get()        # b
            VARS[2].set(c)
        finally:
            VARS[0].set(d)                                       # clean-up write (also on close())
        return 1

    def drive():
        # runs inside the copy
        sc = second()
        keep.append(sc)
        if variant == "cawait":
            w = asynkit.coro_await(sc, context=ctx)
            keep.append(w)
            w.send(None)
            try:
                w.send(None)
            except StopIteration:
                pass
        else:
            cs2 = asynkit.CoroStart(sc, context=ctx)
            keep.append(cs2)
            if variant == "close":
                cs2.close()
            else:
                g = cs2.__await__()
                keep.append(g)
                g.send(None)
                try:
                    g.send(None)
                except StopIteration:
                    pass
        obs["driver_view"] = [v.get() for v in VARS]             # the copy: first()'s write only

    async def first():
        VARS[0].set(a)
        if variant == "task":
            async def child():
                await asynkit.coro_await(second(), context=ctx)
                obs["driver_view"] = [v.get() for v in VARS]
            t = asyncio.ensure_future(child())                     # its context is a copy of ctx
            while not t.done():
                await asyncio.sleep(0)
            t.result()
        else:
            copies.append(contextvars.copy_context())
            await tok(9)
        obs["first_after"] = [v.get() for v in VARS]              # shares ctx with second(): sees its writes
        return 2

    fc = first()
    keep.append(fc)
    if variant == "task":
        async def top():
            return await asynkit.coro_await(fc, context=ctx)
        caller.run(lambda: _loop().run_until_complete(top()))
    else:
        cs1 = caller.run(lambda: asynkit.CoroStart(fc, context=ctx))
        keep.append(cs1)
        copies[0].run(drive)
        obs["copy_after"] = _snap(copies[0])
        g1 = caller.run(cs1.__await__)
        keep.append(g1)
        caller.run(lambda: g1.send(None))
        try:
            caller.run(lambda: g1.send(None))
        except StopIteration:
            pass
    base = list(case["ctx0"])
    copy_view = [a, base[1], base[2]]
    final = [d, b, c] if variant != "close" else [d, b, base[2]]
    checks = [("second_reads_first_write", a, "the second coroutine given the same Context does not see what the first wrote there"),
              ("driver_view", copy_view, "writes of the second coroutine landed in the context of the code that drives it "
                                         "(a copy of the Context), not in the Context it was given")]
    if variant != "close":
        checks.insert(1, ("second_reads_own_write", b, "the second coroutine does not read its own earlier write"))
    if variant != "task":
        checks.append(("copy_after", copy_view, "the copy that drove the second coroutine was written to"))
    checks.append(("first_after", final, "the first coroutine, which shares the Context, does not see the second one's writes"))
    bad = None
    for k, want, what in checks:
        if obs.get(k) != want:
            bad = dict(fail=k, what=f"one Context used twice ({variant}, second use driven from a copy taken during the "
                                    f"first): {what} ({k}: expected {want}, observed {obs.get(k)})",
                       expected=want, observed=obs.get(k))
            break
    if bad is None and _snap(ctx) != final:
        bad = dict(fail="supplied", what=f"one Context used twice ({variant}): the Context holds {_snap(ctx)}, the writes "
                                         f"of its two coroutines give {final}", expected=final, observed=_snap(ctx))
    if bad is None and _snap(caller) != list(case["cur0"]):
        bad = dict(fail="caller", what="one Context used twice: the outermost caller's context changed",
                   expected=case["cur0"], observed=_snap(caller))
    with warnings.catch_warnings():
        warnings.simplefilter("ignore")
        for o in reversed(keep):
            try:
                if hasattr(o, "close") and not isinstance(o, asynkit.CoroStart):
                    contextvars.Context().run(o.close)
            except BaseException:  # noqa: BLE001
                pass
    return bad


def nested_stream(ctx, rng, n):
    for _ in range(max(1, n // 3)):
        vals = rng.sample(range(1, 10), 4)
        case = {"stream": "shared", "variant": rng.choice(["corostart", "cawait", "close", "task"]), "vals": vals,
                "cur0": [0, rng.choice([0, 11]), 0], "ctx0": [0, rng.choice([0, 12]), rng.choice([0, 13])],
                "sentinel": rng.random() < 0.7}
        bad = shared_case(case)
        ctx.case(case_text(case), ["context-shared-second-use-from-a-copy-" + case["variant"]])
        if bad is not None:
            ctx.violation(f"shared-{case['variant']}:{bad['fail']}", bad["what"], case,
                          expected=bad["expected"], observed=bad["observed"],
                          theorem="Asynkit.C04.ctx_every_segment (each CoroStart given the Context)")
    for _ in range(n):
        vals = rng.sample(range(1, 10), 4)
        cur0 = [0, rng.choice([0, 11]), 0]
        case = {"stream": "nested", "mode": rng.choice(["given", "eager"]),
                "variant": rng.choice(["eager", "cawait", "corostart"]), "vals": vals, "cur0": cur0,
                "ctx0": [0, rng.choice([0, 12]), 0]}
        bad = nested_case(case)
        ctx.case(case_text(case), ["nested-" + case["variant"] + "-in-" + case["mode"]])
        if bad is not None:
            ctx.violation(f"nested-{case['variant']}:{bad['fail']}", bad["what"], case,
                          expected=bad["expected"], observed=bad["observed"],
                          theorem="Asynkit.C04.ctx_every_segment / eager_private_copy (applied at each level)")


def corpus_cases():
    d = core.ROOT / "corpus" / PROP
    out = []
    if d.exists():
        for f in sorted(d.glob("*.json")):
            out.append(json.loads(f.read_text()))
    return out


def exhaustive_cases():
    """Every single cleanup path x every mode, on a fixed small family of bodies."""
    progs = [
        "s0=5,g0:a1>1/:rr/:rr;g0,s1=7:r3/g0,s0=9:rr/g0,s2=4:rr",
        "s0=1:a1>1/:rr/:rr;g0:a2>1/g0,s1=2:a3>1/g0,s1=3:rr",
        "g0,s0=2:a1>1/:rr/:rr;g0:r1/g0,s0=3:r2/g0,s0=4:r0",
        "s1=6:r4/:rr/:rr",
    ]
    opsets = [[], ["awsend"], ["awsend", "awsend"], ["awsend", "awthrow E1"], ["awsend", "awclose"],
              ["awsend", "awthrow GeneratorExit"], ["athrow E1"], ["athrow E1", "awsend"], ["aclose"],
              ["aclose", "awsend"], ["sthrow E1 1"], ["sthrow E1 2"], ["sclose"], ["awsend", "sclose"],
              ["awsend", "newit", "awsend"], ["cset 0 8", "awsend", "cset 0 9", "awsend"],
              ["awsend", "cset 1 8", "awthrow E2"], ["awsend", "athrow CancelledError", "awsend"]]
    for p in progs:
        for mode in ("given", "cawait", "none", "eager"):
            for ctx0 in ([0, 0, 0], [3, 0, 1]):
                if mode in ("none", "eager") and any(ctx0):
                    continue
                for cur0 in ([0, 0, 0], [2, 2, 0]):
                    for ops in opsets:
                        yield {"prog": p, "mode": mode, "ctx0": ctx0, "cur0": cur0, "ops": list(ops)}


def run(ctx):
    warnings.filterwarnings("ignore", category=RuntimeWarning, message="coroutine .* was never awaited")
    rng = ctx.rng
    explore(ctx, corpus_cases(), label="corpus: ")
    explore(ctx, list(exhaustive_cases()), label="fixed family: ")
    explore_literal(ctx, literal_cases(rng, 0) + literal_cases(rng, 2))
    nested_stream(ctx, rng, 1200 if ctx.thorough() else 240)
    n = 400000 if ctx.thorough() else 30000
    cases = [gen_case(rng) for _ in range(n)]
    for i in range(0, len(cases), 4000):
        explore(ctx, cases[i:i + 4000])
    for c in cases[:3]:
        ctx.sample(c)
    # eager() with the default task factory on a real event loop (oracle only)
    m = 10000 if ctx.thorough() else 1000
    bad_seen = 0
    for _ in range(m):
        case = gen_case(rng)
        case["mode"] = "eager-task"
        case["ctx0"] = [0] * NV
        case["ops"] = []
        case["cancel_at"] = rng.choice([None, None, 0, 1, 2])
        bad = eager_loop(ctx, case)
        ctx.case(case_text(case), ["eager-default-task-factory"])
        if bad is not None and bad_seen < 50:
            bad_seen += 1
            key = "eager-task"
            if not any(case["cur0"]) and eager_loop(ctx, dict(case, sentinel=True)) is None:
                key = "empty-context"
            ctx.violation(key, "eager() on a running loop: " + bad["what"], case,
                          expected=bad["expected"], observed=bad["observed"],
                          theorem="Asynkit.C04.eager_private_copy")
    ctx.extra["eager_on_real_loop_cases"] = m
    if _LOOP is not None:
        _LOOP.close()


def replay(ctx, data):
    warnings.filterwarnings("ignore", category=RuntimeWarning, message="coroutine .* was never awaited")
    case = {k: v for k, v in data["case"].items() if k not in ("failing_step", "driver_lines")}
    if "lit" in case:
        explore_literal(ctx, [case])
        return
    if case.get("stream") == "shared":
        bad = shared_case(case)
        ctx.case(case_text(case), ["replay"])
        if bad is not None:
            ctx.violation(data.get("key", "shared"), "replay: " + bad["what"], case, expected=bad["expected"],
                          observed=bad["observed"], theorem="Asynkit.C04.ctx_every_segment")
        return
    if case.get("stream") == "nested":
        bad = nested_case(case)
        ctx.case(case_text(case), ["replay"])
        if bad is not None:
            ctx.violation(data.get("key", "nested"), "replay: " + bad["what"], case, expected=bad["expected"],
                          observed=bad["observed"], theorem="Asynkit.C04.ctx_every_segment")
        return
    if case.get("mode") == "eager-task":
        bad = eager_loop(ctx, case)
        ctx.case(case_text(case), ["replay"])
        if bad is not None:
            ctx.violation(data.get("key", "eager-task"), "replay: " + bad["what"], case,
                          expected=bad["expected"], observed=bad["observed"],
                          theorem="Asynkit.C04.eager_private_copy")
        return
    explore(ctx, [case], label="replay: ")
