"""C16 — real-code runner: nested task_timeout blocks on a *virtual-clock* event loop.

The three loop classes (asyncio.SelectorEventLoop, asynkit SchedulingSelectorEventLoop,
PrioritySelectorEventLoop) are subclassed: ``time()`` returns a virtual integer-valued clock and
``_run_once`` jumps the clock to the next timer when nothing is ready (after dropping cancelled
timer heads), so that every ordering of deadline vs completion, including exact ties, is produced
deterministically and no real time is involved.  ``Handle._run`` is wrapped to see every handle.

A case is JSON:
  {"loop": "asyncio"|"sched"|"prio", "aux": [k, ...], "prog": BLOCK,
   "cancel_at": [[tick, nth_handle_at_that_tick], ...]   (optional environment cancels of the main task)
   "children": [{"pre": k, "prog": BLOCK}, ...]}          (optional child tasks, see ["spawn", j])
  BLOCK = {"d": null|int, "body": [ITEM, ...]}
  ITEM  = ["s0"] | ["s", k] | ["aw", j] | ["blk", BLOCK]
        | ["ga", [j, ...]]  `await asyncio.gather(aux_j, ...)`      (the block is suspended on gather's outer future)
        | ["sh", j]         `await asyncio.shield(aux_j)`           (… on shield's outer future)
        | ["fu", i]         `await fut_i`: a bare `loop.create_future()` owned by the environment, which resolves it
                            at tick `futs[i]` (case key "futs": [tick, ...])
        | ["tblk", BLOCK]  nested block whose TimeoutError is caught by the enclosing body, which then goes on
        | ["spawn", j]   create child Python task j *here* (possibly inside timed blocks); the child sleeps
                         `pre` ticks and then runs its own block tree with its own timeouts
        | ["join", j]    await child j (un-shielded) if it was spawned
        | ["sc", k]      `sleep(k)` that swallows a plain cancellation (`except CancelledError: pass`, interrupts
                         re-raised) and goes on — only used together with "storm"
   "storm": n   (optional, 1..3) environment *cancel storm*: the main task is cancelled when the first timer of one of
                its levels has fired and again after each step in which it swallowed a cancel, n times in all, so that
                the interruptor's task_interrupt is refused n times in a row ("cannot interrupt a cancelled task");
                n = 3 drives the interruptor into its give-up path (third RuntimeError -> loop exception handler).
                Outside the property's domain (environment cancels, a body that swallows them): used to tie the
                retry loop to the model and to check the handler context.
Every task's timeout levels are its own: a child spawned inside its creator's timed block inherits the
creator's contextvars, and nothing else.
"""
from __future__ import annotations

import asyncio
import asyncio.events
import heapq

from . import core

MAX_HANDLES = 5000


def _imports():
    from asynkit.experimental import interrupt as I
    from asynkit.experimental import priority as P
    from asynkit.loop import eventloop as E
    return I, P, E


_LOOPS = {}


def loop_class(kind):
    if kind in _LOOPS:
        return _LOOPS[kind]
    I, P, E = _imports()
    base = {"asyncio": asyncio.SelectorEventLoop, "sched": E.SchedulingSelectorEventLoop,
            "prio": P.PrioritySelectorEventLoop}[kind]

    class VirtualLoop(base):  # type: ignore[misc, valid-type]
        _vt = 0.0

        def time(self):
            return self._vt

        def _run_once(self):
            sched = self._scheduled
            while sched and sched[0]._cancelled:
                h = heapq.heappop(sched)
                h._scheduled = False
                self._timer_cancelled_count -= 1
            if not len(self._ready) and sched:
                if sched[0]._when > self._vt:
                    self._vt = float(sched[0]._when)
            super()._run_once()

    _LOOPS[kind] = VirtualLoop
    return VirtualLoop


class Runner:
    def __init__(self, case, inline_none=False, strip_all=False):
        self.I, self.P, self.E = _imports()
        self.case = case
        self.inline_none = inline_none     # reference run: `task_timeout(None)` blocks replaced by nothing
        self.strip_all = strip_all         # reference run: no timeouts at all
        self.logs = {0: []}                # oracle logs per task (harness-authored program only); 0 = main
        self.tids = {}                     # task object -> tid
        self.children = {}                 # j -> task
        self.after = {}                    # tid -> its outermost block has exited
        self.storm_left = case.get("storm", 0)
        self.storm_on = False
        self.in_sc = False
        self.swallowed_now = False
        self.contexts = []                 # raw contexts given to the loop exception handler
        self.trace = []                    # model events
        self.low = []
        self.bad = []
        self.tags = set()
        self.keep = []
        self.levels = {}                   # level id -> dict
        self.nlevel = 0
        self.entering = None
        self.timer_level = {}              # id(TimerHandle) -> level
        self.task_level = {}               # interruptor task -> level
        self.exc_level = {}                # id(interrupt object) -> level
        self.cur_handle_level = None
        self.loop_errors = []
        self.handles = 0
        self.tick_handles = {}
        self.after_block = False

    @property
    def log(self):
        return self.logs[0]

    def tid(self):
        return self.tids.get(asyncio.current_task(), 0)

    def lg(self, *rec):
        self.logs.setdefault(self.tid(), []).append(rec)

    def fail(self, kind, detail):
        self.bad.append((kind, detail))

    def now(self):
        return int(self.loop.time())

    # ------------------------------------------------------------------ the program
    def classify(self, e):
        if isinstance(e, self.I.TimeoutInterrupt):
            return "intr"
        if isinstance(e, asyncio.TimeoutError):
            return "timeout"
        if isinstance(e, asyncio.CancelledError):
            return "cancel"
        return type(e).__name__

    async def run_item(self, item, path):
        kind = item[0]
        if kind == "blk":
            await self.run_block(item[1], path)
            return
        if kind == "tblk":
            # a nested block whose TimeoutError is handled right here, inside the enclosing block
            try:
                await self.run_block(item[1], path)
            except asyncio.TimeoutError as e:
                self.keep.append(e)
                self.lg("caught", path, self.now())
                self.tags.add("inner-timeout-handled-inside-outer-block")
            return
        if kind == "spawn":
            self.spawn(item[1])
            return
        if kind == "join" and item[1] not in self.children:
            return
        self.lg("op_start", path, kind, self.now())
        if kind == "s0":
            await asyncio.sleep(0)
        elif kind == "s":
            await asyncio.sleep(item[1])
        elif kind == "sc":
            self.in_sc = True
            try:
                await asyncio.sleep(item[1])
            except asyncio.CancelledError as e:
                if isinstance(e, self.I.InterruptException):
                    raise
                self.keep.append(e)
                self.swallowed_now = True
                self.lg("swallowed", path, self.now())
                self.tags.add("cancel-swallowed-in-block")
            finally:
                self.in_sc = False
        elif kind == "aw":
            r = await self.aux[item[1]]
            if r != ("aux", item[1]):
                self.fail("awaited-task-result", f"aux {item[1]} returned {r!r}")
        elif kind == "ga":
            self.tags.add("await-gather")
            r = await asyncio.gather(*[self.aux[j] for j in item[1]])
            if r != [("aux", j) for j in item[1]]:
                self.fail("awaited-task-result", f"gather returned {r!r}")
        elif kind == "sh":
            self.tags.add("await-shield")
            r = await asyncio.shield(self.aux[item[1]])
            if r != ("aux", item[1]):
                self.fail("awaited-task-result", f"shield returned {r!r}")
        elif kind == "fu":
            self.tags.add("await-bare-future")
            r = await self.futs[item[1]]
            if r != ("fut", item[1]):
                self.fail("awaited-task-result", f"future {item[1]} gave {r!r}")
        elif kind == "join":
            r = await self.children[item[1]]
            if r != ("child", item[1]):
                self.fail("awaited-task-result", f"child {item[1]} returned {r!r}")
        self.lg("op_end", path, kind, self.now())

    async def run_body(self, body, path):
        for i, item in enumerate(body):
            await self.run_item(item, path + (i,))

    async def run_block(self, blk, path):
        d = blk["d"]
        if self.strip_all or (d is None and self.inline_none):
            await self.run_body(blk["body"], path)
            return
        L = self.nlevel
        self.nlevel += 1
        t_in = self.now()
        info = self.levels[L] = dict(d=d, t_in=t_in, path=path, out=None, t_out=None, seen=None,
                                     task=self.tid())
        self.lg("enter", L, d, t_in)
        self.low.append(("enter", L, d is not None))
        try:
            self.entering = L
            async with self.I.task_timeout(d):
                self.entering = None
                try:
                    await self.run_body(blk["body"], path)
                except BaseException as e:  # noqa: BLE001
                    self.keep.append(e)
                    info["seen"] = e
                    self.lg("body_exc", L, self.classify(e), self.now())
                    raise
        except BaseException as e:  # noqa: BLE001
            self.keep.append(e)
            info["out"], info["t_out"], info["exc"] = self.classify(e), self.now(), e
            self.lg("exit_exc", L, self.classify(e), self.now())
            self.low.append(("exit", L, info["seen"], e))
            raise
        else:
            info["out"], info["t_out"] = "ok", self.now()
            self.lg("exit_ok", L, self.now())
            self.low.append(("exit", L, None, None))
        finally:
            self.entering = None

    async def aux_task(self, j, k):
        await asyncio.sleep(k)
        return ("aux", j)

    def spawn(self, j):
        if j in self.children:
            return
        tid = j + 1
        co = self.task_body(tid, self.case["children"][j]["prog"], self.case["children"][j].get("pre", 0))
        self.keep.append(co)
        t = self.I.create_pytask(co)
        self.tids[t] = tid
        self.children[j] = t
        self.logs[tid] = []
        self.tags.add("child-spawned-in-timed-block" if any(
            lv["out"] is None and lv["d"] is not None and lv["task"] == self.tid()
            for lv in self.levels.values()) else "child-spawned")

    async def task_body(self, tid, prog, pre=0):
        """what the main task (tid 0) and every child task runs: its own block tree, then a tail during
        which nothing may reach it any more"""
        if pre:
            await asyncio.sleep(pre)
        try:
            await self.run_block(prog, ())
            self.lg("prog", "ok", self.now())
        except asyncio.TimeoutError:
            self.lg("prog", "timeout", self.now())
        except asyncio.CancelledError as e:
            self.lg("prog", self.classify(e), self.now())
            if self.classify(e) == "intr":
                self.fail("interrupt-escaped", "a TimeoutInterrupt left the outermost block unconverted")
        except BaseException as e:  # noqa: BLE001
            # anything else out of task_timeout (AssertionError, RuntimeError, …): recorded and judged, not a crash
            self.keep.append(e)
            self.lg("prog", type(e).__name__, self.now())
            self.fail("foreign-exception", f"task {tid}: {type(e).__name__}: {e} escaped from the timed block")
        self.after[tid] = True
        if tid == 0:
            self.after_block = True
        try:
            for _ in range(3):
                await asyncio.sleep(0)
            await asyncio.sleep(self.horizon if tid == 0 else 2)
            for _ in range(3):
                await asyncio.sleep(0)
            if tid == 0:
                for j in sorted(self.children):
                    await self.children[j]
        except BaseException as e:  # noqa: BLE001
            self.keep.append(e)
            self.fail("exception-after-block",
                      f"{type(e).__name__} reached task {tid} at t={self.now()} after its block had exited")
        self.lg("tail", "done", self.now())
        return ("child", tid - 1)

    async def main(self):
        self.tids[asyncio.current_task()] = 0
        return await self.task_body(0, self.case["prog"])

    # ------------------------------------------------------------------ instrumentation
    def patch(self):
        run = self
        loop = self.loop
        orig_call_at = loop.call_at
        orig_create_task = loop.create_task
        orig_throw = self.I.task_throw

        def call_at(when, cb, *a, **kw):       # call_later goes through self.call_at
            h = orig_call_at(when, cb, *a, **kw)
            if run.entering is not None:
                run.timer_level[id(h)] = run.entering
                run.levels[run.entering]["timer"] = h
                run.keep.append(h)
            return h

        def create_task(coro, **kw):
            t = orig_create_task(coro, **kw)
            if run.cur_handle_level is not None:
                run.task_level[t] = run.cur_handle_level
                run.levels[run.cur_handle_level]["itask"] = t
                run.keep.append(coro)
            return t

        def task_throw(task, exc):
            L = run.task_level.get(asyncio.current_task())
            try:
                orig_throw(task, exc)
            except RuntimeError:
                run.low.append(("throw", L, False))
                if L is not None:
                    run.levels[L]["refusals"] = run.levels[L].get("refusals", 0) + 1
                raise
            if L is not None:
                run.exc_level[id(exc)] = L
                run.keep.append(exc)

            run.low.append(("throw", L, True))
            if run.after.get(run.tids.get(task, 0)):
                run.fail("interrupt-after-exit", f"task_throw performed at t={run.now()} on task "
                         f"{run.tids.get(task, 0)} after its block had exited")
            elif L is not None and run.tids.get(task, 0) != run.levels[L]["task"]:
                run.fail("interrupt-wrong-task", f"level {L} of task {run.levels[L]['task']} interrupted task "
                         f"{run.tids.get(task, 0)}")
            elif L is not None and run.levels[L]["out"] is not None:
                run.fail("interrupt-after-exit",
                         f"level {L} (exited at t={run.levels[L]['t_out']}) threw its interrupt at t={run.now()}")

        loop.call_at = call_at
        loop.create_task = create_task
        self.I.task_throw = task_throw
        orig_run = asyncio.events.Handle._run

        def _run(handle):
            run.before_handle(handle)
            try:
                orig_run(handle)
            finally:
                run.after_handle(handle)

        asyncio.events.Handle._run = _run

        def undo():
            asyncio.events.Handle._run = orig_run
            self.I.task_throw = orig_throw
        return undo

    def before_handle(self, handle):
        self.handles += 1
        if self.handles > MAX_HANDLES:
            # misbehaving code under test (e.g. an interruptor that never stops retrying): an observation
            self.bad.append(("livelock", f"the run does not finish within {MAX_HANDLES} handles"))
            raise RuntimeError("C16 livelock")
        self.cur_handle_level = self.timer_level.get(id(handle))
        if self.cur_handle_level is not None:
            self.levels[self.cur_handle_level]["fired"] = True
        self.cur_itask = None
        cb = getattr(handle, "_callback", None)
        t = getattr(cb, "__self__", None)
        if t in self.task_level:
            self.cur_itask = self.task_level[t]

    def after_handle(self, handle):
        out = []
        T = lambda L: self.levels[L]["task"]        # noqa: E731
        touched = set()
        if self.cur_handle_level is not None:
            out.append(f"ev {T(self.cur_handle_level)} fire {self.cur_handle_level}")
            touched.add(T(self.cur_handle_level))
            self.tags.add("timer-fired")
        throws = [e for e in self.low if e[0] == "throw"]
        if self.cur_itask is not None:
            L = self.cur_itask
            touched.add(T(L))
            if throws:
                out.append(f"ev {T(L)} istep {L} " + ("thrown" if throws[0][2] else "refused"))
                if not throws[0][2]:
                    self.tags.add("interrupt-refused")
            else:
                out.append(f"ev {T(L)} istep {L} none")
        exits = []
        for e in self.low:
            if e[0] == "enter":
                out.append(f"ev {T(e[1])} enter {e[1]} {int(e[2])}")
                touched.add(T(e[1]))
            elif e[0] == "exit":
                exits.append(e)
            elif e[0] == "after":
                pass
        if exits:
            touched.add(T(exits[0][1]))
            out.extend(self.unwind_events(exits, T(exits[0][1])))
        self.low = []
        self.cur_handle_level = None
        self.cur_itask = None
        # environment cancels at chosen points
        for tick, nth in self.case.get("cancel_at", []):
            k = self.tick_handles.get(self.now(), 0)
            if tick == self.now() and nth == k and self.levels and not self.case.get("children") and not self.main_task.done() and not self.after_block:
                if self.main_task.cancel():
                    self.tags.add("env-cancel")
        self.tick_handles[self.now()] = self.tick_handles.get(self.now(), 0) + 1
        # cancel storm: first cancel when a timer of the main task has fired, then one after every swallow
        if self.storm_left > 0 and not self.main_task.done() and not self.after_block:
            fired_now = any(ln.split()[2] == "fire" and ln.split()[1] == "0" for ln in out if ln.startswith("ev "))
            if (fired_now and not self.storm_on) or (self.storm_on and self.swallowed_now):
                if self.in_sc and self.main_task.cancel():
                    self.storm_on = True
                    self.storm_left -= 1
                    self.tags.add("env-cancel")
        self.swallowed_now = False
        if out:
            self.trace.extend(out)
            for t in sorted(touched):
                self.trace.append(f"obs {t} " + self.observe(t))

    def unwind_events(self, exits, t):
        """consecutive block exits inside one step of the main task"""
        out = []
        i = 0
        while i < len(exits):
            _, L, seen, exc = exits[i]
            if exc is None:
                out.append(f"ev {t} exitOk {L}")
                i += 1
                continue
            # a chain of exceptional exits (innermost first) caused by one exception
            chain = [exits[i]]
            j = i + 1
            while j < len(exits) and exits[j][3] is not None and (
                    exits[j][2] is chain[-1][3]):
                chain.append(exits[j])
                j += 1
            first_seen = chain[0][2]
            if isinstance(first_seen, self.I.TimeoutInterrupt):
                o = self.exc_level.get(id(first_seen))
                res = []
                for (_, l2, s2, e2) in chain:
                    res.append("T" if isinstance(e2, asyncio.TimeoutError) else
                               "I" if e2 is first_seen else "X")
                out.append(f"ev {t} raise {'-' if o is None else o} {len(chain)} " + "".join(res))
            else:
                for (_, l2, s2, e2) in chain:
                    out.append(f"ev {t} exitOther {l2}")
            i = j
        return out

    def observe(self, t):
        parts = []
        for L in sorted(self.levels):
            info = self.levels[L]
            if info["task"] != t:
                continue
            th = info.get("timer")
            if th is None:
                ts = "none"
            elif th.cancelled():
                ts = "cancelled"
            elif info.get("fired"):
                ts = "fired"
            else:
                ts = "armed"
            it = info.get("itask")
            its = "-" if it is None else ("done" if it.done() else "live")
            parts.append(f"{L}:{'in' if info['out'] is None else 'out'}:{ts}:{its}")
        return " ".join(parts) if parts else "-"

    # ------------------------------------------------------------------ run
    def run(self):
        case = self.case
        self.loop = loop = loop_class(case["loop"])()
        def on_error(ctx):
            # installed as the loop's `call_exception_handler` itself, so that every report is seen whatever
            # asyncio's dispatch to custom handlers does with it (3.12 runs them inside context["task"]'s context)
            self.contexts.append(dict(ctx))
            self.loop_errors.append(type(ctx.get("exception")).__name__ + ":" + str(ctx.get("message")))
        loop.call_exception_handler = on_error
        import random as _r
        saved_random = self.P.random.random
        self.P.random.random = lambda: 0.5
        self.horizon = 5 + max_time(case)
        undo = self.patch()

        def resolver(i):
            def resolve():
                f = self.futs[i]
                if f.cancelled():
                    self.fut_lost.append(i)       # somebody cancelled a future that is the environment's
                elif not f.done():
                    f.set_result(("fut", i))
            return resolve

        async def boot():
            self.futs, self.fut_lost = [], []
            for i, tick in enumerate(case.get("futs", [])):
                self.futs.append(loop.create_future())
                loop.call_later(tick, resolver(i))
            self.aux = []
            for j, k in enumerate(case.get("aux", [])):
                co = self.aux_task(j, k)
                self.keep.append(co)
                self.aux.append(self.I.create_pytask(co))
            co = self.main()
            self.keep.append(co)
            self.main_task = self.I.create_pytask(co)
            await self.main_task
            for _ in range(3):
                await asyncio.sleep(0)

        try:
            bt = loop.create_task(boot())
            loop.run_until_complete(bt)
            self.final_checks()
        finally:
            undo()
            self.P.random.random = saved_random
            try:
                for t in asyncio.all_tasks(loop):
                    t.cancel()
                loop.run_until_complete(asyncio.sleep(0))
            except Exception:  # noqa: BLE001
                pass
            loop.close()
        return self

    def final_checks(self):
        # No exception may escape the loop.  The one admissible report is the interruptor's own give-up
        # report after three refusals (environment cancel storm); whether and how that report reaches an
        # application's handler is outside C16 (see notes/C16.md) and is only recorded, not judged.
        gave_up = {id(info.get("itask")): L for L, info in self.levels.items() if info.get("refusals", 0) >= 3}
        for L in gave_up.values():
            self.tags.add("third-refusal-give-up")
        for c in self.contexts:
            if id(c.get("task")) in gave_up and str(c.get("message", "")).startswith("timeout interruptor failed"):
                self.tags.add("give-up-reported")
                continue
            self.fail("loop-exception-handler",
                      type(c.get("exception")).__name__ + ":" + str(c.get("message")))
        for j, t in enumerate(self.aux):
            if "env-cancel" in self.tags:
                break
            if not t.done() or t.cancelled() or t.exception() is not None:
                self.fail("awaited-task-cancelled", f"aux task {j}: done={t.done()} cancelled={t.cancelled()}")
        for i, f in enumerate(self.futs):
            if "env-cancel" in self.tags:
                break
            if i in self.fut_lost or f.cancelled() or not f.done():
                self.fail("awaited-future-cancelled",
                          f"future {i} (created and resolved by the environment, only awaited inside the block): "
                          f"cancelled={f.cancelled()} done={f.done()}")
        for j, t in self.children.items():
            if not t.done() or t.cancelled() or t.exception() is not None:
                self.fail("child-task-cancelled", f"child task {j}: done={t.done()} cancelled={t.cancelled()}")
        for L, info in self.levels.items():
            it = info.get("itask")
            if it is not None and (not it.done() or it.cancelled() or it.exception() is not None):
                self.fail("interruptor-leftover", f"interruptor of level {L} did not finish cleanly")
        pend = [t for t in asyncio.all_tasks(self.loop) if not t.done()]
        if pend:
            self.fail("tasks-left", f"{len(pend)} task(s) still pending at the end")


def max_time(case):
    def tot(blk):
        s = 0
        for it in blk["body"]:
            if it[0] in ("s", "sc"):
                s += it[1]
            elif it[0] in ("blk", "tblk"):
                s += tot(it[1])
        return s
    return (tot(case["prog"]) + sum(case.get("aux", [])) + 3
            + sum(c.get("pre", 0) + tot(c["prog"]) + 3 for c in case.get("children", []))
            + sum(case.get("futs", [])))


# ---------------------------------------------------------------------------------------
# the oracle: the property, judged on the log of the real run (no model involved)


def judge(r: Runner):
    """appends to r.bad"""
    env_cancel = "env-cancel" in r.tags
    for L, info in r.levels.items():
        d, t_in, t_out, out = info["d"], info["t_in"], info["t_out"], info["out"]
        if out is None:
            r.fail("block-never-exited", f"level {L}")
            continue
        seen = info["seen"]
        if d is None:
            # task_timeout(None) never interferes: whatever came out of the body went out unchanged
            if out != "ok" and info["exc"] is not seen:
                r.fail("none-interferes", f"level {L} (None) turned {type(seen).__name__} into {out}")
            continue
        D = max(t_in + d, t_in)
        if info.get("refusals", 0) >= 3 and t_out > D:
            # Every attempt to interrupt at the deadline was legitimately refused (the target had a pending
            # cancellation each time — C15's contract; environment cancel storm, body swallowing the cancels):
            # outside what C16 states; the block's late end is not judged.
            r.tags.add("deadline-missed-after-three-refusals")
            continue
        if t_out > D:
            r.fail("outlived-deadline",
                   f"level {L}: entered t={t_in}, deadline t={t_in + d}, still inside at t={t_out} (left with {out})")
        converted = out == "timeout" and r.classify(seen) == "intr"
        if converted:
            r.tags.add("timeout-raised")
            if t_out != D:
                r.fail("timeout-at-wrong-time",
                       f"level {L}: TimeoutError raised at t={t_out}, deadline was t={t_in + d} (entered t={t_in})")
            if info["exc"].__cause__ is not seen:
                r.fail("timeout-cause", f"level {L}: TimeoutError.__cause__ is not the interrupt that arrived")
            o = r.exc_level.get(id(seen))
            if o is not None and o != L:
                r.fail("wrong-level", f"level {L} converted the interrupt of level {o}")
        elif r.classify(seen) == "intr" if seen is not None else False:
            # a foreign interrupt must pass unchanged
            if info["exc"] is not seen:
                r.fail("foreign-interrupt-changed", f"level {L}: {out} left instead of the same interrupt object")
            else:
                r.tags.add("foreign-interrupt-passed")
                o = r.exc_level.get(id(seen))
                if o == L:
                    r.fail("wrong-level", f"level {L} let its own interrupt pass unconverted")
        elif out == "ok":
            r.tags.add("block-completed")
            if t_out == D and d > 0:
                r.tags.add("tie-completed")
    # an interrupted op is the one in progress: an unfinished op is directly followed by the exception
    for tid, log in r.logs.items():
        for a, b in zip(log, log[1:]):
            if a[0] == "op_start" and not (b[0] == "op_end" and b[1] == a[1]) and b[0] not in (
                    "body_exc", "prog", "swallowed"):
                r.fail("interrupt-not-at-suspension-point", f"task {tid}: op {a} was followed by {b}")
    # ties
    for L, info in r.levels.items():
        if info["d"] is not None and info["out"] == "timeout" and info["d"] > 0:
            for rec in r.logs.get(info["task"], []):
                if rec[0] == "op_end" and rec[3] == info["t_out"]:
                    r.tags.add("tie-deadline-equals-completion")
    ds = [(i["t_in"] + i["d"]) for i in r.levels.values() if i["d"] is not None]
    if len(ds) != len(set(ds)):
        r.tags.add("equal-deadlines")
    if any(i["d"] is not None and i["d"] <= 0 for i in r.levels.values()):
        r.tags.add("deadline-not-in-future")
    if any(i["d"] is None for i in r.levels.values()):
        r.tags.add("none-level")
    for L, info in r.levels.items():
        if info["task"] != 0 and info["d"] is not None:
            r.tags.add("child-timed-block")
            if info["out"] == "timeout":
                r.tags.add("child-timeout-raised")
            # did the child's block outlast every block of its creator that was open when it started?
            if any(p["task"] == 0 and p["d"] is not None and p["t_in"] <= info["t_in"] and p["t_out"] is not None
                   and p["t_out"] < (info["t_out"] or 0) for p in r.levels.values()):
                r.tags.add("child-block-outlasts-parent-block")


def canon_log(r):
    """all tasks' logs without block markers (used to compare with reference runs)"""
    return [(tid,) + tuple(rec) for tid in sorted(r.logs) for rec in r.logs[tid]
            if rec[0] in ("op_start", "op_end", "prog", "tail", "swallowed", "caught")]
