"""One-handle-at-a-time stepper for PriorityLock / PriorityTask programs (shared by C11, C12, C13).

A *case* is JSON:

  {"loop": "stock" | "prio", "nlocks": n, "nevents": m,
   "workers": [{"kind": "P" | "Y" | "T", "pri": "<spec>", "script": [["acq", k], ["sleep"],
                ["wait", e], ["rel"], ...]}, ...],
   "env": [[n, "cancel", i] | [n, "throw", i, code] | [n, "interrupt", i, code, urgent] |
           [n, "set", e], ...]}            # n = number of handles run before the action happens

kind P = PriorityTask(priority=pri), Y = Python task (asyncio.tasks._PyTask, what create_pytask
makes), T = plain asyncio.Task, R = a PriorityTask subclass whose overridden `priority()` can be armed to
raise once (script op ["arm", i, n]: the n-th call of worker i's priority() from now, within the current
handle, raises UserPriorityError), D = a Python task that only duck-types the priority protocol
(add_owned_lock / remove_owned_lock / set_waiting_on / effective_priority / propagate_priority; it is not a
PriorityTask).  For the model R and D are priority tasks.  ["eacq", k] .. ["rel"] is an acquire started
eagerly (asynkit.coro_eager: the first part runs in the worker, the rest in a helper task) and a plain
release(); runs that use it are judged by the oracles only (the helper task has no counterpart in the model).  `acq k` .. `rel` is `async with locks[k]:`; nesting always goes to
higher lock numbers (fixed lock order).  The real primitives run on a real loop
(asyncio.SelectorEventLoop or PrioritySelectorEventLoop); `asyncio.events.Handle._run` is wrapped,
so after every ready handle the stepper regains control, performs the environment actions that are
due, records the observable state and evaluates the oracles.  Nothing here looks at the Lean model.

The run produces
  * `lines` / `expect`: the event trace for lean/Drivers/Lock.lean and the observation the model
    must reproduce after every handle and every environment action;
  * `fails`: oracle failures [(kind, detail)] - the properties themselves, checked on real objects;
  * `tags`: the distinguishing situations the run reached.
"""
from __future__ import annotations

import asyncio
import itertools
from fractions import Fraction

from . import core

MAX_HANDLES = 3000


class E2(Exception):
    pass


class E3(BaseException):
    pass


class UserPriorityError(Exception):
    """what an armed user-written priority() raises"""


PRIO_KINDS = ("P", "R", "D")


def isp(kind: str) -> bool:
    """does a worker of this kind take part in the priority protocol?"""
    return kind in PRIO_KINDS


_CLASSES = {}


def task_classes():
    """(RaisingTask, DuckTask), built on the library of the tree under test"""
    P, _ = _mods()
    if _CLASSES.get("P") is not P:
        class RaisingTask(P.PriorityTask):
            _armed = 0

            def priority(self):
                if self._armed:
                    self._armed -= 1
                    if self._armed == 0:
                        raise UserPriorityError()
                return self.priority_value

        PT = P.PriorityTask

        class DuckTask(asyncio.tasks._PyTask):
            def __init__(self, coro, *, loop=None, priority=0):
                self.priority_value = priority
                self._holding_locks = set()
                self._waiting_on = None
                super().__init__(coro, loop=loop)

            add_owned_lock = PT.add_owned_lock
            remove_owned_lock = PT.remove_owned_lock
            set_waiting_on = PT.set_waiting_on
            priority = PT.priority
            effective_priority = PT.effective_priority
            propagate_priority = PT.propagate_priority

        _CLASSES.update(P=P, R=RaisingTask, D=DuckTask)
    return _CLASSES["R"], _CLASSES["D"]


def _mods():
    from asynkit.experimental import interrupt as I
    from asynkit.experimental import priority as P
    return P, I


def pyval(spec: str):
    """priority spec -> the Python object handed to PriorityTask"""
    P, _ = _mods()
    if spec in ("HIGH", "LOW", "NORMAL"):
        return P.Priority[spec]
    if spec.endswith("f"):
        return float(Fraction(spec[:-1]))
    if "/" in spec:
        return float(Fraction(spec))
    return int(spec)


def frac(x) -> Fraction:
    return Fraction(float(x))


def fr(x: Fraction) -> str:
    return f"{x.numerator}/{x.denominator}"


def make_exc(code: int):
    _, I = _mods()
    if code == 0:
        return asyncio.CancelledError()
    if code == 1:
        return I.InterruptException()
    if code == 2:
        return E2()
    return E3()


_ORIG_RUN = asyncio.events.Handle._run
_CURRENT = None


def _noop():
    return None


def _patched_run(handle):
    run = _CURRENT
    if run is None or handle._loop is not run.loop:
        return _ORIG_RUN(handle)
    run.before(handle)
    try:
        return _ORIG_RUN(handle)
    finally:
        run.after(handle)


class Run:
    def __init__(self, case: dict, sched_oracle: bool = False):
        self.case = case
        self.prio = case["loop"] == "prio"
        self.sched_oracle = sched_oracle
        self.lines: list[str] = []
        self.expect: list[str] = []          # one per "obs" line
        self.fails: list[tuple[str, str]] = []
        self.tags: set[str] = set()
        self.n = 0
        self.env = sorted((list(a) for a in case.get("env", [])), key=lambda a: a[0])
        self.count: dict[int, int] = {}
        self.holder: dict[int, int] = {}
        self.hold: dict[int, set] = {}
        self.waiting: dict[int, int] = {}
        self.arrival: dict[int, int] = {}
        self.stamp = itertools.count()
        self.handed: dict[int, set] = {}
        self.keep: list = []
        self.outcome: dict[int, str] = {}
        self.faulted: set[int] = set()
        self.entered: dict[int, int] = {}
        self.loop_errors: list = []
        self.agents: dict = {}
        self.cur = None
        self.cur_exc = False
        self.stuck = False
        self.handovers = 0
        self.giveups = 0
        self.cycle_failed = set()
        self.cb_failed = set()
        self.armed = []
        self.no_replay = False
        self.eager_pending = {}
        self.aborted = False
        self.last_keys: dict = {}

    # ------------------------------------------------------------------ worker programs
    def ev(self, text: str):
        self.lines.append("ev " + text)

    async def worker(self, w: int):
        try:
            await self.block(w, self.case["workers"][w]["script"], 0)
            self.outcome[w] = "ok"
        except BaseException as e:  # noqa: BLE001
            self.outcome[w] = type(e).__name__

    async def block(self, w, ops, i):
        while i < len(ops):
            op = ops[i]
            if op[0] == "rel":
                return i + 1
            if op[0] == "sleep":
                self.ev("sleep")
                await asyncio.sleep(0)
                i += 1
            elif op[0] == "wait":
                self.ev(f"wait {op[1]}")
                await self.events[op[1]].wait()
                i += 1
            elif op[0] == "badrel":
                self.bad_release(w, op[1])
                i += 1
            elif op[0] == "arm":
                t = self.tasks[op[1]]
                if hasattr(type(t), "_armed"):
                    t._armed = op[2]
                    self.armed.append(t)
                i += 1
            elif op[0] == "eacq":
                i = await self.eager_block(w, ops, i)
            else:
                k = op[1]
                cyc = self.closes_cycle(w, k)
                at = len(self.lines)
                self.ev(f"acquire {k}")
                self.waiting[w] = k
                self.arrival[w] = next(self.stamp)
                try:
                    async with self.locks[k]:
                        self.enter(w, k)
                        try:
                            i = await self.block(w, ops, i + 1)
                        finally:
                            self.leave(w, k)
                except RecursionError:
                    # the wait-for graph has a cycle through this edge, or the chain from the lock's owner
                    # leads into one (a bystander): effective_priority() / propagate_priority() recurse
                    # without end and acquire() raises from inside its try block.  That is what the library does on a lock-order cycle of PriorityTasks; the
                    # model's event for it is `acquireFails` (no net change).
                    if cyc and self.lines[at] == f"ev acquire {k}" and "obs" not in self.lines[at:]:
                        self.lines[at] = f"ev acquirefails {k}"
                        self.cycle_failed.add(w)
                        self.tags.add("acquire-raises-on-lock-order-cycle" if cyc == 1 else
                                      "bystander-acquire-raises-while-cycle-exists")
                    raise
                except UserPriorityError:
                    # a user-written priority() raised while acquire() computed the waiter's key or told
                    # the owner about the new waiter: acquire() raises, the queue entry (if any) is removed
                    # again by its finally clause - for the model, `acquireFails`
                    if self.lines[at] == f"ev acquire {k}" and "obs" not in self.lines[at:]:
                        self.lines[at] = f"ev acquirefails {k}"
                        self.cycle_failed.add(w)
                        self.cb_failed.add(w)
                        self.tags.add("acquire-raises-from-user-priority-callback")
                    raise
                finally:
                    if self.waiting.pop(w, None) is not None:
                        self.giveups += 1          # left the queue without getting the lock
                    self.handover_check(k)
        return i

    async def eager_block(self, w, ops, i):
        """["eacq", k] ... ["rel"]: acquire() started eagerly in the worker, continued by a helper task"""
        import asynkit
        k = ops[i][1]
        self.no_replay = True
        self.waiting[w] = k
        self.arrival[w] = next(self.stamp)
        try:
            pending = asynkit.coro_eager(self.locks[k].acquire())
            if self.locks[k]._waiters and any(wr() is self.tasks[w] for _, wr in self.locks[k]._waiters):
                self.tags.add("contended-acquire-started-eagerly")
            self.eager_pending[w] = (k, pending)
            try:
                try:
                    await pending
                finally:
                    self.eager_check()
                    self.eager_pending.pop(w, None)
                i = await self.block(w, ops, i + 1)
            finally:
                if k in self.hold.get(w, ()):      # the acquire was completed (by the helper task, perhaps)
                    self.leave(w, k)
                    self.locks[k].release()
        finally:
            if self.waiting.pop(w, None) is not None:
                self.giveups += 1
            self.handover_check(k)
        return i

    def eager_check(self):
        """an eagerly started acquire() that its helper task has completed: the worker holds the lock"""
        for w, (k, pending) in list(self.eager_pending.items()):
            if k not in self.hold.get(w, ()) and pending.done() and not pending.cancelled() \
                    and pending.exception() is None:
                self.enter(w, k)
            elif pending.done() and self.waiting.get(w) == k:
                del self.waiting[w]                # the helper task has left the queue without the lock
                self.giveups += 1

    def closes_cycle(self, w, k):
        """would worker w, by waiting for lock k, close a cycle of the harness's wait-for graph, or does
        the chain holder(k) -> lock it waits for -> its holder -> ... run into a cycle that exists already
        (possibly a transient one, through a cancelled waiter that has not run yet)?  In both cases the
        priority recursion started by this acquire() does not end."""
        h, seen = self.holder.get(k), set()
        while h is not None:
            if h == w:
                return 1
            if h in seen:
                return 2
            seen.add(h)
            kk = self.waiting.get(h)
            if kk is None:
                return 0
            h = self.holder.get(kk)
        return 0

    def lock_view(self, k):
        lock = self.locks[k]
        own = lock._owning() if lock._owning is not None else None
        return (lock.locked(), self.index.get(own),
                [(v, fr(p), f.done(), f.cancelled()) for p, _, f, v in self.entries(k)],
                [sorted(self.lockidx[id(x)] for x in t._holding_locks) if
                 isp(self.case["workers"][i]["kind"]) else None for i, t in enumerate(self.tasks)])

    def bad_release(self, w, k):
        """`release()` by a task that does not hold the lock: must be refused and change nothing"""
        if k in self.hold.get(w, ()):
            return                               # it does hold it: not an erroneous release
        self.ev(f"badrelease {k}")
        self.tags.add("release-by-non-holder" + ("-while-held" if self.count.get(k, 0) else ""))
        before = self.lock_view(k)
        try:
            self.locks[k].release()
            self.fail("bad-release", f"worker {w} released lock {k} which it does not hold "
                                     f"(holder: {self.holder.get(k)}) and was not refused")
        except (AssertionError, RuntimeError):
            pass
        after = self.lock_view(k)
        if after != before:
            self.fail("bad-release", f"worker {w}'s release of lock {k} (holder: {self.holder.get(k)}) was "
                                     f"refused but changed the lock: {before} -> {after}")

    def enter(self, w, k):
        self.disarm()                 # an armed priority() is for the first part of one acquire() only
        self.waiting.pop(w, None)
        self.count[k] = self.count.get(k, 0) + 1
        self.entered[w] = self.entered.get(w, 0) + 1
        if self.count[k] > 1:
            self.fail("mutual-exclusion", f"worker {w} entered lock {k} while worker "
                                          f"{self.holder.get(k)} is inside")
        self.holder[k] = w
        self.hold.setdefault(w, set()).add(k)

    def leave(self, w, k):
        self.count[k] -= 1
        if self.holder.get(k) == w:
            del self.holder[k]
        self.hold[w].discard(k)
        self.ev(f"release {k}")

    # ------------------------------------------------------------------ independent graph
    def own(self, w) -> Fraction:
        return self.owns[w]

    def eff(self, w, depth=0) -> Fraction:
        """effective priority recomputed from the harness's own wait-for graph"""
        if not isp(self.case["workers"][w]["kind"]) or depth > 40:
            return Fraction(0)
        best = self.owns[w]
        for k in self.hold.get(w, ()):
            for v, kk in self.waiting.items():
                if kk == k:
                    best = min(best, self.eff(v, depth + 1))
        return best

    def inherit_depth(self, w, depth=0) -> int:
        """length of the longest chain of tasks from which `w` currently inherits"""
        if not isp(self.case["workers"][w]["kind"]) or depth > 40:
            return 0
        d = 0
        for k in self.hold.get(w, ()):
            for v, kk in self.waiting.items():
                if kk == k:
                    d = max(d, 1 + self.inherit_depth(v, depth + 1))
        return d

    # ------------------------------------------------------------------ raw views of real objects
    def entries(self, k):
        """[(priority key, sequence, future, worker index)] of lock k in pop order"""
        q = self.locks[k]._waiters
        if not q:
            return []
        out = []
        for e in q._pq:
            fut, wr = e.obj
            out.append((frac(e.priority), e.sequence, fut, self.index.get(wr())))
        out.sort(key=lambda t: (t[0], t[1]))
        return out

    def ready_map(self):
        """worker index -> (kind 'w'|'r'|'x', class-1 key or None) for handles in the ready queue"""
        res = {}
        if self.prio:
            items = [(e.obj, e.priority) for e in self.loop.ready_queue._pq._pq]
        else:
            items = [(h, None) for h in self.loop._ready]
        for h, pv in items:
            if h._cancelled:
                continue
            cb = h._callback
            owner = getattr(cb, "__self__", None)
            w = self.index.get(owner)
            if w is None:
                continue
            name = getattr(cb, "__name__", "") or type(cb).__name__
            if "wakeup" in name:
                kind = "w"
            elif h._args and isinstance(h._args[0], BaseException):
                kind = "x"
            else:
                kind = "r"
            key = None
            if pv is not None and pv.priority_class == 1:
                key = frac(pv.priority())
            res[w] = (kind, key)
        return res

    def real_eff(self, w):
        """task.effective_priority() of the real object; a raising call is an oracle failure"""
        try:
            return frac(self.tasks[w].effective_priority())
        except BaseException as e:  # noqa: BLE001
            self.fail("eff-raises", f"worker {w}: effective_priority() raised {type(e).__name__}")
            return None

    def ready_order(self, skip=None):
        """worker index (None for other handles) of the ready entries in pop order (priority loop)"""
        ents = [e for e in self.loop.ready_queue._pq._pq if not e.obj._cancelled]
        ents.sort(key=lambda e: (e.priority.priority_class, e.priority.priority(), e.sequence))
        out = []
        for e in ents:
            w = self.index.get(getattr(e.obj._callback, "__self__", None))
            if w is not None and w == skip:
                continue
            out.append(w)
        return out

    def observe(self) -> str:
        rm = self.ready_map()
        parts = []
        for k, lock in enumerate(self.locks):
            own = lock._owning() if lock._owning is not None else None
            ws = ";".join(f"{w},{fr(p)},{'p' if not f.done() else ('c' if f.cancelled() else 'r')}"
                          for p, _, f, w in self.entries(k)) or "-"
            parts.append(f"L{k}:{1 if lock.locked() else 0}:"
                         f"{self.index.get(own, '?') if own is not None else '-'}:{ws}")
        for w, t in enumerate(self.tasks):
            kind = self.case["workers"][w]["kind"]
            if t.done():
                st = "d"
            elif w in rm:
                st = rm[w][0]
            else:
                st = "b"
            if isp(kind):
                hl = sorted(self.lockidx[id(x)] for x in t._holding_locks)
                hold = ".".join(map(str, hl)) or "-"
                wo = self.lockidx[id(t._waiting_on)] if t._waiting_on is not None else "-"
                re = self.real_eff(w)
                eff = fr(re) if re is not None else "ERR"
            else:
                hold, wo, eff = "-", "-", "0/1"
            key = rm[w][1] if w in rm else None
            parts.append(f"T{w}:{st}:{1 if t._must_cancel else 0}:{hold}:{wo}:{eff}:"
                         f"{fr(key) if key is not None else '-'}")
        return "|".join(parts)

    # ------------------------------------------------------------------ oracles
    def fail(self, kind, detail):
        # at most three reports per kind, so that a failure repeated at every boundary cannot
        # crowd out a different kind found later in the same run
        if sum(1 for k, _ in self.fails if k == kind) < 3:
            self.fails.append((kind, f"after {self.n} handles: {detail}"))

    def handover_check(self, k):
        """called right after anything that can wake a waiter of lock k"""
        ents = self.entries(k)
        seen = self.handed.setdefault(k, set())
        for p, _, fut, w in ents:
            if fut.done() and not fut.cancelled() and id(fut) not in seen:
                seen.add(id(fut))
                self.keep.append(fut)
                self.handovers += 1
                cands = [(self.eff(v), self.arrival.get(v, -1), v) for _, _, _, v in ents
                         if v is not None]
                best = min(cands)
                self.tags.add("handover")
                if self.cur_exc:
                    self.tags.add("handover-by-giveup")
                if len(cands) >= 2:
                    self.tags.add("handover-contended")
                    if sum(1 for c in cands if c[0] == best[0]) >= 2:
                        self.tags.add("handover-tie")
                    static = min((self.arrive_pri.get(v, Fraction(0)), self.arrival.get(v, -1), v)
                                 for _, _, v in cands)
                    if static[2] != best[2]:
                        self.tags.add("handover-decided-by-inherited-priority")
                d = self.inherit_depth(best[2])
                if d >= 2 and len(cands) >= 2 and best[0] != self.owns[best[2]]:
                    self.tags.add(f"handover-inherited-through-chain-{min(d, 3)}")
                if best[2] != w:
                    self.fail("handover-order-after-giveup" if self.giveups else "handover-order",
                              f"lock {k} handed to worker {w} (eff {fr(self.eff(w))}, arrival "
                              f"{self.arrival.get(w)}) while worker {best[2]} (eff {fr(best[0])}, "
                              f"arrival {best[1]}) is waiting; waiters="
                              f"{[(v, fr(e), a) for e, a, v in sorted(cands, key=lambda c: c[1])]}")

    def boundary(self):
        """record the observation and evaluate the state oracles (between two handles)"""
        self.lines.append("obs")
        self.expect.append(self.observe())
        rm = self.ready_map()
        for k, lock in enumerate(self.locks):
            c = self.count.get(k, 0)
            if lock.locked() != (c == 1):
                self.fail("locked-mismatch", f"lock {k}: locked()={lock.locked()} but {c} "
                                             f"worker(s) inside")
            own = lock._owning() if lock._owning is not None else None
            if self.index.get(own, "?") != self.holder.get(k):
                self.fail("owner-mismatch", f"lock {k} records "
                          f"{'worker %s' % self.index[own] if own in self.index else repr(own)} as its holder "
                          f"while worker {self.holder.get(k)} is inside")
            ents = self.entries(k)
            woken = [v for _, _, f, v in ents if f.done() and not f.cancelled()]
            if len(woken) > 1:
                self.fail("double-wakeup", f"lock {k}: workers {woken} have all been woken for it "
                          f"(queue of {len(ents)})")
            if len(ents) > 8:
                self.tags.add("queue-longer-than-8" if len(ents) <= 16 else "queue-longer-than-16")
                if any(f.done() for _, _, f, _ in ents):
                    self.tags.add("long-queue-with-wakeup-in-flight")
            for _, _, _, v in ents:
                if v is None or self.waiting.get(v) != k:
                    self.fail("dead-entry", f"lock {k} has a queue entry for worker {v}, which is not "
                                            f"suspended in acquire({k}) (waiting: {dict(self.waiting)})")
            if not lock.locked() and ents:
                inflight = any(f.done() for _, _, f, _ in ents) or any(
                    rm.get(w, ("", None))[0] == "x" for _, _, _, w in ents)
                if not inflight:
                    self.fail("lost-wakeup", f"lock {k} is free, workers "
                              f"{[w for _, _, _, w in ents]} are queued and none is woken or "
                              f"scheduled with an exception")
            # waiter keys vs recomputed priorities (statistics only; C12 judges at hand-over)
            for p, _, f, w in ents:
                if w is None:
                    continue
                old = self.last_keys.get((k, w, self.arrival.get(w)))
                if old is not None and old != p:
                    self.tags.add("rekeyed-while-queued")
                self.last_keys[(k, w, self.arrival.get(w))] = p
                if w not in self.arrive_pri or self.arrive_seen.get(w) != self.arrival.get(w):
                    self.arrive_pri[w] = p
                    self.arrive_seen[w] = self.arrival.get(w)
        for w, t in enumerate(self.tasks):
            if not isp(self.case["workers"][w]["kind"]):
                continue
            real = self.real_eff(w)
            mine = self.eff(w)
            hl = sorted(self.lockidx[id(x)] for x in t._holding_locks)
            wo = self.lockidx[id(t._waiting_on)] if t._waiting_on is not None else None
            if hl != sorted(self.hold.get(w, ())) or wo != self.waiting.get(w):
                self.fail("holding-mismatch", f"worker {w}: _holding_locks={hl} _waiting_on={wo} but it "
                          f"is inside {sorted(self.hold.get(w, ()))} and waits for {self.waiting.get(w)}")
            if real is None:
                continue
            if real != mine:
                self.fail("eff-mismatch", f"worker {w}: effective_priority()={fr(real)} but the "
                          f"wait-for graph gives {fr(mine)} (holding {sorted(self.hold.get(w, ()))}, "
                          f"waiting {dict(self.waiting)})")
            if mine != self.owns[w]:
                self.tags.add("inherits")
                d = self.inherit_depth(w)
                if d >= 2:
                    self.tags.add(f"inherits-through-chain-{min(d, 4)}")
        for w, k in self.waiting.items():
            h = self.holder.get(k)
            if h is None or not isp(self.case["workers"][h]["kind"]):
                continue
            hw = self.real_eff(h)
            ww = self.real_eff(w) if isp(self.case["workers"][w]["kind"]) else Fraction(0)
            if hw is None or ww is None:
                continue
            if hw > ww:
                self.fail("holder-less-urgent", f"worker {w} (eff {fr(ww)}) waits for lock {k} "
                          f"held by worker {h} whose effective_priority() is {fr(hw)}")
            if h in self.waiting:
                self.tags.add("holder-blocked-on-lock")
            elif h not in rm:
                self.tags.add("holder-blocked-on-event")
            else:
                self.tags.add("holder-runnable")
        self.last_rm = rm

    def sched_check(self, x):
        """priority loop, fault-free runs: worker x is about to run."""
        rm = self.last_rm
        ex = self.eff(x)
        for w, k in self.waiting.items():
            if w in rm or w == x:
                continue                      # woken, not blocked any more
            ew = self.eff(w)
            h, hops = self.holder.get(k), 0
            while h is not None and hops < 10:
                if h == x:
                    # the holder itself runs; did inheritance put it ahead of a runnable task
                    # that is more urgent than the holder's own priority but less urgent than W?
                    if any(m != x and ew < self.eff(m) < self.owns[x] for m in rm):
                        self.tags.add("holder-ran-ahead-of-medium-task")
                    break
                if h in rm:
                    self.tags.add("sched-decision-with-runnable-holder")
                    if ex > ew:
                        self.fail("inversion-on-priority-loop",
                                  f"worker {x} (eff {fr(ex)}) runs while worker {w} (eff {fr(ew)}) "
                                  f"waits and runnable worker {h} holds a lock blocking it")
                    break
                if h in self.waiting:
                    h = self.holder.get(self.waiting[h])
                    hops += 1
                else:
                    break

    # ------------------------------------------------------------------ stepping
    def before(self, handle):
        owner = getattr(handle._callback, "__self__", None)
        w = self.index.get(owner)
        self.cur = w
        if w is not None:
            kind = self.last_rm.get(w, ("r", None))[0]
            t = self.tasks[w]
            fw = t._fut_waiter
            self.cur_exc = bool(kind == "x" or t._must_cancel or (fw is not None and fw.cancelled()))
            if self.sched_oracle and self.prio:
                self.sched_check(w)
            self.ev(f"resume {w}")

    def disarm(self):
        for t in self.armed:
            t._armed = 0
        self.armed = []

    def after(self, handle):
        self.disarm()
        self.n += 1
        if self.n > MAX_HANDLES:
            self.loop.stop()
            raise core.InfraError("stepper: more than %d handles" % MAX_HANDLES)
        w = self.cur
        self.cur = None
        if w is not None:
            if self.tasks[w].done():
                self.ev("finish")
        else:
            owner = getattr(handle._callback, "__self__", None)
            ag = self.agents.get(id(owner))
            if ag is not None and not ag["reported"]:
                ag["reported"] = True
                self.ev(f"interrupt {ag['target']} {ag['code']}")
        self.cur_exc = False
        self.eager_check()
        self.boundary()
        self.pump()

    def classify_fault(self, i):
        t = self.tasks[i]
        if t.done():
            return
        if i in self.waiting:
            self.tags.add("fault-woken-not-run" if i in self.last_rm else "fault-while-waiting")
        elif self.hold.get(i):
            self.tags.add("fault-while-holding")
        elif self.entered.get(i, 0) == 0 and i in self.last_rm:
            self.tags.add("fault-other")

    def do_env(self, act):
        """one environment action; an exception escaping from the library or the loop here is a
        finding (reported as loop-error), after which the run is abandoned"""
        try:
            self._do_env(act)
        except core.InfraError:
            raise
        except BaseException as e:  # noqa: BLE001
            self.fail("loop-error", f"environment action {act[1:]} raised {type(e).__name__}")
            self.aborted = True
            self.env = []
            self.loop.stop()

    def _do_env(self, act):
        P, I = _mods()
        kind = act[1]
        if kind == "set":
            self.events[act[2]].set()
            self.ev(f"set {act[2]}")
        elif kind == "cancel":
            i = act[2]
            self.classify_fault(i)
            if self.tasks[i].cancel():
                self.faulted.add(i)
            self.ev(f"cancel {i}")
        elif kind == "throw":
            i, code = act[2], act[3]
            self.classify_fault(i)
            try:
                I.task_throw(self.tasks[i], make_exc(code))
                self.faulted.add(i)
            except RuntimeError:
                self.tags.add("throw-refused")
            self.ev(f"throw {i} {code}")
        elif kind == "callsoon":
            # a pending callback that is not a bound method of a task (call_soon(function), what
            # gather / timers / user code put into the ready queue); it does nothing when it runs
            self.loop.call_soon(_noop)
            self.tags.add("non-task-callback-in-ready-queue")
            return
        elif kind == "reinsert":
            # scheduling.task_reinsert(task, pos): the task's ready handle is moved to position `pos`;
            # on the priority loop it, and the entries popped before it, become positional (class 0)
            from asynkit.scheduling import task_reinsert
            i, pos = act[2], act[3]
            if i not in self.last_rm or self.tasks[i].done():
                return                      # not in the ready queue: nothing to move
            promoted = [w for w in self.ready_order(skip=i)[:pos] if w is not None] if self.prio else []
            task_reinsert(self.tasks[i], pos)
            self.tags.add("ready-entry-made-positional" + ("-woken-lock-waiter" if i in self.waiting else ""))
            self.ev(f"reinsert {i} " + (",".join(map(str, promoted)) or "-"))
        elif kind == "interrupt":
            i, code, urgent = act[2], act[3], act[4]
            coro = self.agent(i, code)
            if self.prio:
                ag = P.PriorityTask(coro, loop=self.loop, priority=-1000 if urgent else 1000)
            else:
                ag = asyncio.tasks._PyTask(coro, loop=self.loop)
            self.agents[id(ag)] = {"task": ag, "target": i, "code": code, "reported": False}
            return                      # the event is recorded when the agent runs
        self.boundary()

    async def agent(self, i, code):
        _, I = _mods()
        self.classify_fault(i)
        try:
            t = self.tasks[i]
            coro = I.task_interrupt(t, make_exc(code))
            await coro
            self.faulted.add(i)
        except RuntimeError:
            self.tags.add("throw-refused")

    def ready_len(self):
        return len(self.loop.ready_queue) if self.prio else len(self.loop._ready)

    def pump(self):
        while self.env and self.env[0][0] <= self.n:
            self.do_env(self.env.pop(0))
        while self.ready_len() == 0 and not self.aborted:
            if self.env:
                self.do_env(self.env.pop(0))
                continue
            unset = [e for e, ev in enumerate(self.events) if not ev.is_set()]
            if unset:
                self.do_env([self.n, "set", unset[0]])
                continue
            self.loop.stop()
            break

    def execute(self):
        global _CURRENT
        P, _ = _mods()
        case = self.case
        self.loop = P.PrioritySelectorEventLoop() if self.prio else asyncio.SelectorEventLoop()
        if self.prio:
            self.loop.ready_queue.priority_boost_factor = 0
        self.loop.set_exception_handler(lambda l, c: self.loop_errors.append(
            repr(c.get("exception") or c.get("message"))))
        self.locks = [P.PriorityLock() for _ in range(case["nlocks"])]
        self.lockidx = {id(l): k for k, l in enumerate(self.locks)}
        self.events = [asyncio.Event() for _ in range(case["nevents"])]
        self.owns, self.tasks, coros = [], [], []
        specs = []
        for w, wk in enumerate(case["workers"]):
            coro = self.worker(w)
            coros.append(coro)
            if isp(wk["kind"]):
                v = pyval(wk["pri"])
                self.owns.append(frac(v))
                RT, DT = task_classes()
                cls = {"P": P.PriorityTask, "R": RT, "D": DT}[wk["kind"]]
                t = cls(coro, loop=self.loop, priority=v)
                if wk["kind"] == "D":
                    self.tags.add("duck-typed-priority-task")
                specs.append("P:" + fr(frac(v)))
                if isinstance(v, P.Priority):
                    self.tags.add("priority-enum-member")
                elif isinstance(v, float):
                    self.tags.add("priority-float")
            else:
                self.owns.append(Fraction(0))
                t = (asyncio.tasks._PyTask if wk["kind"] == "Y" else asyncio.Task)(coro, loop=self.loop)
                specs.append("N")
                self.tags.add("plain-task-mixed-in")
            t._log_destroy_pending = False
            self.tasks.append(t)
        self.index = {t: w for w, t in enumerate(self.tasks)}
        self.index[None] = None
        self.arrive_pri, self.arrive_seen = {}, {}
        self.last_rm = {}
        self.lines.append(f"init {1 if self.prio else 0} {case['nlocks']} " + " ".join(specs))
        self.boundary()
        _CURRENT = self
        asyncio.events.Handle._run = _patched_run
        try:
            self.loop.run_forever()
        except core.InfraError:
            raise
        except BaseException as e:  # noqa: BLE001
            # the event loop itself died (e.g. its ready queue lost track of an entry): a finding
            self.fail("loop-error", f"the event loop stopped with {type(e).__name__}: {e}")
            self.crashed = True
        finally:
            asyncio.events.Handle._run = _ORIG_RUN
            _CURRENT = None
        if not getattr(self, "crashed", False):
            self.final_checks()
        else:
            self.aborted = True
        # release everything (coroutines were kept alive until the logs were complete)
        for ag in self.agents.values():
            ag["task"]._log_destroy_pending = False
        try:
            for t in self.tasks:
                if not t.done():
                    t.cancel()
            self.loop.run_until_complete(asyncio.sleep(0, ))
        except BaseException:  # noqa: BLE001
            pass
        self.loop.close()
        return self

    def final_checks(self):
        if self.aborted:
            return
        unfinished = [w for w, t in enumerate(self.tasks) if not t.done()]
        if unfinished:
            self.stuck = True
            self.fail("lost-wakeup", f"no handle is left to run, all events are set, and workers "
                      f"{unfinished} never finished (waiting: {dict(self.waiting)})")
        for w, t in enumerate(self.tasks):
            oc = self.outcome.get(w)
            if oc == "UserPriorityError" and w in self.cb_failed:
                continue                    # its own acquire() raised what the user callback raised
            if oc == "RecursionError" and w in self.cycle_failed:
                continue                    # acquire() on a lock-order cycle: the documented way out
            if t.done() and w not in self.faulted and oc not in ("ok", None):
                self.fail("spurious-exception", f"worker {w} was never cancelled or interrupted "
                          f"but ended with {oc}")
            if t.done() and oc is None and w not in self.faulted:
                self.fail("spurious-exception", f"worker {w} ended without running")
        if self.loop_errors:
            self.fail("loop-error", "; ".join(self.loop_errors[:3]))
        if not unfinished:
            for k, lock in enumerate(self.locks):
                if lock.locked() or lock._owning is not None or lock._waiters:
                    self.fail("unclean-quiescence", f"lock {k}: locked={lock.locked()} "
                              f"owner={lock._owning} waiters={len(lock._waiters or ())}")
            for w, t in enumerate(self.tasks):
                if isp(self.case["workers"][w]["kind"]) and (t._holding_locks or t._waiting_on):
                    self.fail("unclean-quiescence", f"worker {w} still records holding="
                              f"{len(t._holding_locks)} waiting_on={t._waiting_on}")
        if any(self.outcome.get(w) == "ok" and w in self.faulted for w in range(len(self.tasks))):
            pass


def run_case(case, sched_oracle=False) -> Run:
    return Run(case, sched_oracle).execute()


# ---------------------------------------------------------------------------------------
# generation

PRI_POOL = ["0", "1", "-1", "2", "-2", "3", "5", "-5", "1/2", "-3/2", "HIGH", "LOW", "NORMAL",
            "2f", "-1f"]


def gen_block(rng, nl, ne, minlock, budget, hold_bias, badrel=0.0, held=()):
    ops = []
    while budget[0] > 0 and rng.random() < 0.85:
        r = rng.random()
        budget[0] -= 1
        free = [k for k in range(nl) if k not in held]
        if badrel and free and rng.random() < badrel:
            ops.append(["badrel", rng.choice(free)])
        elif r < 0.45 and minlock < nl:
            k = rng.randint(minlock, nl - 1)
            inner = gen_block(rng, nl, ne, k + 1, budget, hold_bias, badrel, tuple(held) + (k,))
            if rng.random() < hold_bias:
                inner.insert(rng.randint(0, len(inner)), ["sleep"] if (ne == 0 or rng.random() < 0.6)
                             else ["wait", rng.randrange(ne)])
            ops += [["acq", k]] + inner + [["rel"]]
        elif r < 0.8 or ne == 0:
            ops.append(["sleep"])
        else:
            ops.append(["wait", rng.randrange(ne)])
    return ops


def gen_case(rng, mode):
    """mode: 'C13' (all faults, 1..2 locks), 'C11' (PriorityTasks only, no faults, chains),
    'C12' (2..6 contenders, plain tasks mixed in, cancels)."""
    loop = rng.choice(["stock", "prio"])
    if mode == "C13":
        nl, nw = rng.randint(1, 2), rng.randint(2, 5)
    elif mode == "C11":
        nl, nw = rng.randint(1, 3), rng.randint(2, 5)
        if rng.random() < 0.6:
            loop = "prio"
    else:
        nl, nw = rng.randint(1, 3), rng.randint(2, 6)
    ne = rng.randint(0, 2)
    workers = []
    for _ in range(nw):
        if mode == "C11":
            kind = "P"
        elif mode == "C12":
            kind = rng.choice("PPPPTY")
        else:
            kind = rng.choice("PPYYYT")
        script = gen_block(rng, nl, ne, 0, [rng.randint(2, 7)], 0.7,
                           badrel=0.12 if (mode == "C13" and rng.random() < 0.5) else 0.0)
        if not any(o[0] == "acq" for o in script):
            k = rng.randrange(nl)
            script += [["acq", k], ["sleep"], ["rel"]]
        if rng.random() < 0.4:
            script = [["sleep"]] * rng.randint(1, 3) + script
        workers.append({"kind": kind, "pri": rng.choice(PRI_POOL), "script": script})
    env = []
    horizon = 6 * nw
    for e in range(ne):
        if rng.random() < 0.7:
            env.append([rng.randint(1, horizon), "set", e])
    nf = 0 if mode == "C11" else rng.choice([0, 1, 1, 2, 3, 4] if mode == "C13" else [0, 0, 1, 2])
    for _ in range(nf):
        i = rng.randrange(nw)
        n = rng.randint(1, horizon)
        k = workers[i]["kind"]
        if mode == "C13" and k == "Y" and rng.random() < 0.75:
            if rng.random() < 0.5:
                env.append([n, "throw", i, rng.randrange(4)])
            else:
                env.append([n, "interrupt", i, rng.randrange(4), rng.random() < 0.5])
        else:
            env.append([n, "cancel", i])
    if mode == "C13" and rng.random() < 0.25:
        for _ in range(rng.randint(1, 2)):
            env.append([rng.randint(1, horizon), "reinsert", rng.randrange(nw), rng.randint(0, 2)])
    env.sort(key=lambda a: a[0])
    return {"loop": loop, "nlocks": nl, "nevents": ne, "workers": workers, "env": env}


def gen_inherit_case(rng, mode):
    """Directed shape for C11/C12: holder H of lock b; queued waiters on b, one of which (Q) holds
    lock a < b; an urgent task U then waits on a, raising Q while it is queued."""
    loop = rng.choice(["stock", "prio"])
    pris = rng.sample(["-5", "-2", "-1", "0", "1", "2", "3", "5", "HIGH", "LOW", "1/2"], 4)
    nl = rng.choice([2, 3])
    a, b = (0, 1) if nl == 2 else rng.choice([(0, 1), (0, 2), (1, 2)])
    mk = lambda kind, pri, script: {"kind": kind, "pri": pri, "script": script}  # noqa: E731
    pad = lambda n: [["sleep"]] * n  # noqa: E731
    # the holder of b may be a plain / Python task: it takes no part in inheritance, but waiters
    # queued behind it must still be re-keyed
    H = mk("P" if mode == "C11" else rng.choice("PPTY"), pris[0],
           [["acq", b]] + pad(rng.randint(3, 6)) + [["rel"]])
    Q = mk("P", rng.choice(["3", "5", "LOW", "2"]), pad(1) + [["acq", a], ["acq", b], ["sleep"], ["rel"], ["rel"]])
    V = mk(rng.choice("PPT") if mode != "C11" else "P", rng.choice(["0", "1", "NORMAL", "1/2"]),
           pad(rng.randint(1, 2)) + [["acq", b], ["sleep"], ["rel"]])
    U = mk("P", rng.choice(["-5", "-2", "HIGH", "-3/2"]), pad(rng.randint(2, 3)) + [["acq", a], ["rel"]])
    ws = [H, Q, V, U]
    if rng.random() < 0.5:
        ws.append(mk("P", rng.choice(PRI_POOL), gen_block(rng, nl, 0, 0, [4], 0.7) or pad(1)))
    order = [0] + rng.sample(range(1, len(ws)), len(ws) - 1)
    ws = [ws[i] for i in order]
    env = []
    if mode == "C12" and rng.random() < 0.3:
        env.append([rng.randint(2, 14), "cancel", rng.randrange(len(ws))])
    return {"loop": loop, "nlocks": nl, "nevents": 0, "workers": ws, "env": env}


def gen_inflight_case(rng):
    """Directed shape for C13: a holder releases while several waiters are queued, a more urgent
    task arrives while the woken waiter has not run yet, and another queued waiter is cancelled
    or interrupted around that moment."""
    loop = rng.choice(["stock", "prio"])
    mk = lambda kind, pri, script: {"kind": kind, "pri": pri, "script": script}  # noqa: E731
    pad = lambda n: [["sleep"]] * n  # noqa: E731
    use_ev = rng.random() < 0.6
    hold = [["wait", 0]] if use_ev else pad(rng.randint(2, 4))
    ws = [mk(rng.choice("PPT"), rng.choice(["0", "1", "NORMAL"]), [["acq", 0]] + hold + [["rel"]])]
    nq = rng.randint(2, 3)
    for _ in range(nq):
        ws.append(mk(rng.choice("PYY"), rng.choice(["0", "0", "1", "NORMAL"]),
                     [["acq", 0]] + pad(rng.randint(0, 2)) + [["rel"]]))
    ws.append(mk("P", rng.choice(["-1", "-2", "HIGH", "-3/2"]),
                 pad(rng.randint(1, 5)) + [["acq", 0]] + pad(rng.randint(0, 1)) + [["rel"]]))
    if rng.random() < 0.3:
        ws.append(mk(rng.choice("PY"), rng.choice(PRI_POOL), pad(rng.randint(0, 3)) + [["acq", 0], ["rel"]]))
    n0 = rng.randint(len(ws), len(ws) + 5)
    env = []
    if use_ev:
        env.append([n0, "set", 0])
    for _ in range(rng.randint(1, 2)):
        i = rng.randint(1, nq)
        n = n0 + rng.randint(-1, 3)
        if ws[i]["kind"] == "Y" and rng.random() < 0.6:
            if rng.random() < 0.6:
                env.append([n, "throw", i, rng.randrange(4)])
            else:
                env.append([n, "interrupt", i, rng.randrange(4), rng.random() < 0.5])
        else:
            env.append([n, "cancel", i])
    env.sort(key=lambda a: a[0])
    return {"loop": loop, "nlocks": 1, "nevents": 1 if use_ev else 0, "workers": ws, "env": env}


def gen_chain_contended_case(rng, mode="C12", crowd=0):
    """(`crowd` > 0: a chain over 3 locks, and that many less urgent tasks are queued on the middle lock
    next to the chain task, before the urgent task arrives.)
    Directed shape for C12 (also valid for C11): a chain over n = 2..3 locks taken in ascending
    order - the top task holds L(n-1); task i holds L(i) and is queued on L(i+1); an urgent task
    arrives last on L0, so its priority has to travel through the whole chain *while every link is
    already queued* - plus 1..2 competitors of intermediate urgency queued on locks of the chain
    (always one on the top lock).  When the top lock is released it must go to the chain task
    (effective priority inherited through 2..3 locks), not to the competitor."""
    n = 3 if crowd else rng.choice([2, 3, 3])
    loop = rng.choice(["stock", "prio"])
    pad = lambda k: [["sleep"]] * k  # noqa: E731
    ws = []
    hold_n = n + rng.randint(5, 9) + (2 if crowd else 0)
    ws.append({"kind": "P" if mode == "C11" else rng.choice("PPPTY"),
               "pri": rng.choice(["5", "3", "LOW", "2", "1"]),
               "script": [["acq", n - 1]] + pad(hold_n) + [["rel"]]})
    for i in range(n - 2, -1, -1):
        ws.append({"kind": "P", "pri": rng.choice(["1", "2", "3", "5", "LOW", "1/2"]),
                   "script": pad(n - 1 - i) + [["acq", i], ["acq", i + 1]] + pad(rng.randint(0, 1))
                   + [["rel"], ["rel"]]})
    ws.append({"kind": "P", "pri": rng.choice(["-5", "-2", "HIGH", "-3/2"]),
               "script": pad(n + rng.randint(1, 3) + (2 if crowd else 0)) + [["acq", 0], ["rel"]]})
    for _ in range(crowd):
        ws.append({"kind": "P" if mode == "C11" else rng.choice("PPPT"),
                   "pri": rng.choice(["6", "7", "8", "LOW", "15/2"]),
                   "script": pad(rng.randint(1, 3)) + [["acq", 1], ["rel"]]})
    locks = [n - 1] + [rng.randrange(n) for _ in range(rng.randint(0, 1))]
    for k in locks:
        kind = "P" if mode == "C11" else rng.choice("PPPT")
        ws.append({"kind": kind, "pri": rng.choice(["0", "NORMAL", "-1", "1/2", "0"]),
                   "script": pad(rng.randint(1, n + 2)) + [["acq", k]] + pad(rng.randint(0, 1)) + [["rel"]]})
    if mode == "C11":
        for _ in range(rng.randint(1, 2)):
            ws.append({"kind": "P", "pri": rng.choice(["-1", "-2", "-3/2", "0", "1/2", "1"]),
                       "script": pad(rng.randint(3, 10))})
    head, rest = ws[:1], ws[1:]
    if rng.random() < 0.5:
        rng.shuffle(rest)
    env = []
    if mode == "C12" and rng.random() < 0.15:
        env.append([rng.randint(3, 4 * n + 6), "cancel", rng.randrange(1, len(ws))])
    return {"loop": loop, "nlocks": n, "nevents": 0, "workers": head + rest, "env": env}


def gen_reuse_case(rng):
    """Directed shape for C12: a lock object is used twice.  H takes and releases lock a while nobody
    waits for it; later K holds a and an urgent task waits for it; H, holding nothing, queues on
    lock b behind a more urgent, earlier waiter X.  H's key must be its own priority."""
    loop = rng.choice(["stock", "stock", "prio"])
    a, b = rng.choice([(0, 1), (1, 0)])
    mk = lambda kind, pri, script: {"kind": kind, "pri": pri, "script": script}  # noqa: E731
    pad = lambda n: [["sleep"]] * n  # noqa: E731
    H = mk("P", rng.choice(["3", "5", "LOW", "2"]),
           [["acq", a]] + pad(rng.randint(0, 1)) + [["rel"]] + pad(rng.randint(4, 7))
           + [["acq", b]] + pad(rng.randint(0, 1)) + [["rel"]])
    K = mk(rng.choice("PPT"), rng.choice(PRI_POOL), pad(rng.randint(2, 3)) + [["acq", a]]
           + pad(rng.randint(7, 10)) + [["rel"]])
    U = mk("P", rng.choice(["-5", "-2", "HIGH", "-3/2"]), pad(rng.randint(3, 4)) + [["acq", a], ["rel"]])
    G = mk(rng.choice("PPT"), rng.choice(PRI_POOL), [["acq", b]] + pad(rng.randint(9, 13)) + [["rel"]])
    X = mk(rng.choice("PPT"), rng.choice(["0", "NORMAL", "1", "1/2", "-1"]),
           pad(rng.randint(1, 3)) + [["acq", b]] + pad(rng.randint(0, 1)) + [["rel"]])
    ws = [H, G, K, U, X]
    if rng.random() < 0.5:
        rest = ws[1:]
        rng.shuffle(rest)
        ws = [H] + rest
    return {"loop": loop, "nlocks": 2, "nevents": 0, "workers": ws, "env": []}


def gen_headkey_case(rng, crowd=0):
    """(`crowd` > 0: that many more, less urgent, tasks are queued on L2 next to B and X.)
    Directed shape for C11 on the priority loop (strict priorities, so the order of arrival is
    arranged with gate events): C holds L2 and waits inside; B holds L1 and is queued on L2; X, more
    urgent than B's own priority, is queued on L2 too, so B is *not* at the head of L2's queue.  Then
    C and a medium task M become runnable and the urgent W arrives on L1 in the same instant: W's
    priority has to reach C's ready-queue entry through the non-head waiter B, and C must run
    before M."""
    mk = lambda pri, script: {"kind": "P", "pri": pri, "script": script}  # noqa: E731
    pw = rng.choice(["-5", "HIGH", "-4"])
    pm = rng.choice(["-2", "-3/2", "-3"])
    px = rng.choice(["-1", "0", "NORMAL", "-1/2"])
    pc, pb = rng.choice([("1", "2"), ("1", "3"), ("2", "5"), ("1/2", "LOW")])
    W = mk(pw, [["wait", 2], ["acq", 1], ["rel"]])
    M = mk(pm, [["wait", 1]] + [["sleep"]] * rng.randint(1, 3))
    X = mk(px, [["wait", 3], ["acq", 2], ["rel"]])
    C = mk(pc, [["acq", 2], ["wait", 0]] + [["sleep"]] * rng.randint(0, 2) + [["rel"]])
    B = mk(pb, [["acq", 1], ["acq", 2], ["rel"], ["rel"]])
    ws = [W, M, X, C, B]
    for _ in range(crowd):
        ws.append(mk(rng.choice(["6", "7", "8", "LOW", "15/2"]), [["wait", 3], ["acq", 2], ["rel"]]))
    rng.shuffle(ws)
    env = [[len(ws), "set", 3]] + [[len(ws) + 1 + crowd, "set", e] for e in rng.sample([0, 1, 2], 3)]
    return {"loop": "prio", "nlocks": 3, "nevents": 4, "workers": ws, "env": env}


def gen_woken_holder_case(rng):
    """Directed shape for C11, priority loop: a holder that has just been handed another lock but has
    not run yet.  H holds L1 and is queued on L2, held by the very urgent R.  In one instant R is let go
    (it releases L2: H is woken, runnable, `_waiting_on` still set), the urgent W is released towards L1
    and a medium task M becomes runnable.  W's priority must reach H's ready-queue entry at once, so that
    H runs before M."""
    mk = lambda pri, script: {"kind": "P", "pri": pri, "script": script}  # noqa: E731
    pr = rng.choice(["-20", "-15", "-12"])
    pw = rng.choice(["-5", "HIGH", "-4"])
    pm = rng.choice(["0", "NORMAL", "-1", "1", "1/2"])
    ph = rng.choice(["5", "LOW", "3", "7"])
    l1, l2 = rng.choice([(0, 1), (0, 2), (1, 2)])
    R = mk(pr, [["acq", l2], ["wait", 0], ["rel"]] + [["sleep"]] * rng.randint(0, 1))
    H = mk(ph, [["acq", l1], ["acq", l2]] + [["sleep"]] * rng.randint(0, 1) + [["rel"], ["rel"]])
    W = mk(pw, [["wait", 1], ["acq", l1], ["rel"]])
    M = mk(pm, [["wait", 2]] + [["sleep"]] * rng.randint(0, 2))
    ws = [R, H, W, M]
    env = [[4, "set", e] for e in rng.sample([0, 1, 2], 3)]
    if rng.random() < 0.5:
        # everybody more urgent than 0, and a non-task callback (priority 0) pending in the ready queue
        # while the inheritance happens: the loop must still find and re-key the holder's entry
        for wk, pri in zip(ws, [rng.choice(["-20", "-15"]), rng.choice(["-1", "-3/2"]),
                                rng.choice(["-8", "HIGH", "-6"]), rng.choice(["-3", "-4", "-2"])]):
            wk["pri"] = pri
        env = [[4, "callsoon"]] * rng.randint(1, 2) + env
    rng.shuffle(ws)
    return {"loop": "prio", "nlocks": 3, "nevents": 3, "workers": ws, "env": env}


def gen_fallback_case(rng):
    """Directed shape for C11 ("falls back when they stop waiting"), priority loop, one cancel:
    W waits for L0 held by B, B is queued on L1 held by C (chain of length 2); independently W2 waits
    for L2 held by M.  C and M become runnable in the instant in which W is cancelled: the priority C
    inherited through the chain must fall back at once, so that M (which blocks W2) runs before C.
    On the stock loop the same case checks the fall-back of the effective priorities only."""
    mk = lambda pri, script: {"kind": "P", "pri": pri, "script": script}  # noqa: E731
    pw = rng.choice(["-5", "HIGH", "-4"])
    pw2 = rng.choice(["0", "NORMAL", "-1", "1/2"])
    pc, pb = rng.choice([("1", "2"), ("2", "3"), ("1", "5"), ("2", "LOW")])
    pmm = rng.choice(["1", "2", "3", "4", "5"])
    W = mk(pw, [["wait", 3], ["acq", 0], ["rel"]])
    W2 = mk(pw2, [["wait", 2], ["acq", 2], ["rel"]])
    C = mk(pc, [["acq", 1], ["wait", 0]] + [["sleep"]] * rng.randint(0, 2) + [["rel"]])
    B = mk(pb, [["acq", 0], ["acq", 1], ["rel"], ["rel"]])
    M = mk(pmm, [["acq", 2], ["wait", 1]] + [["sleep"]] * rng.randint(0, 2) + [["rel"]])
    ws = [W, W2, C, B, M]
    rng.shuffle(ws)
    wi = ws.index(W)
    loop = rng.choice(["prio", "prio", "prio", "stock"])
    env = [[5, "set", 2], [6, "set", 3], [7, "cancel", wi]] + [[7, "set", e] for e in rng.sample([0, 1], 2)]
    return {"loop": loop, "nlocks": 3, "nevents": 4, "workers": ws, "env": env}


def gen_positional_case(rng):
    """Directed shape for C13, priority loop: a PriorityTask X holds lock a and has been woken for lock b
    (wake-up handle in the ready queue); that handle is made positional (scheduling.task_reinsert, what
    sleep_insert / task_switch do); then a more urgent task queues on a, so priority inheritance asks
    the loop to reschedule X.  The positional entry must keep its place - and must not be lost."""
    mk = lambda pri, script: {"kind": "P", "pri": pri, "script": script}  # noqa: E731
    a, b = rng.choice([(0, 1), (1, 0)])
    G = mk(rng.choice(["-20", "-15"]), [["acq", b], ["wait", 0], ["rel"]])
    X = mk(rng.choice(["5", "3", "LOW"]), [["acq", a], ["acq", b]] + [["sleep"]] * rng.randint(0, 1) + [["rel"], ["rel"]])
    U = mk(rng.choice(["-5", "HIGH", "-2"]), [["wait", 1], ["acq", a], ["rel"]])
    ws = [G, X, U]
    if rng.random() < 0.5:
        ws.append(mk(rng.choice(["0", "1", "NORMAL"]), [["wait", 1], ["acq", b], ["rel"]]))
    rng.shuffle(ws)
    xi = ws.index(X)
    n0 = len(ws)
    env = [[n0, "set", 0], [n0 + 1, "set", 1], [n0 + 1, "reinsert", xi, rng.randint(1, 2)]]
    return {"loop": "prio", "nlocks": 2, "nevents": 2, "workers": ws, "env": env}


def gen_cycle_case(rng):
    """Directed shape for C13: two PriorityTasks take two locks in opposite order.  The second acquire
    closes a wait-for cycle: effective_priority()/propagate_priority() recurse around it and acquire()
    raises RecursionError from inside its try block (so the queue entry is removed again); the task backs
    off (`async with` releases what it holds), the other one finishes, and later acquirers of both locks
    must still get them."""
    loop = rng.choice(["stock", "prio"])
    mk = lambda pri, script: {"kind": "P", "pri": pri, "script": script}  # noqa: E731
    pad = lambda n: [["sleep"]] * n  # noqa: E731
    W1 = mk(rng.choice(PRI_POOL), [["acq", 0], ["wait", 0], ["acq", 1]] + pad(rng.randint(0, 1)) + [["rel"], ["rel"]])
    W2 = mk(rng.choice(PRI_POOL), [["acq", 1], ["wait", 1], ["acq", 0]] + pad(rng.randint(0, 1)) + [["rel"], ["rel"]])
    ws = [W1, W2]
    for _ in range(rng.randint(1, 2)):
        k = rng.randrange(2)
        ws.append({"kind": rng.choice("PPY"), "pri": rng.choice(PRI_POOL),
                   "script": [["wait", 2]] + pad(rng.randint(0, 2)) + [["acq", k]] + pad(rng.randint(0, 1)) + [["rel"]]})
    rng.shuffle(ws)
    first, second = rng.sample([0, 1], 2)
    n0 = len(ws)
    env = [[n0, "set", first], [n0 + 1, "set", second], [n0 + rng.randint(1, 4), "set", 2]]
    if rng.random() < 0.3:
        # the first of the two is cancelled in the instant in which the second one is let go and the
        # bystanders arrive: the cycle is transient, a bystander's acquire can run into it
        wi = ws.index(W1 if first == 0 else W2)
        env = [[n0, "set", first]] + rng.sample([[n0 + 1, "set", second], [n0 + 1, "set", 2],
                                                  [n0 + 1, "cancel", wi]], 3)
    elif rng.random() < 0.3:
        env.append([n0 + rng.randint(1, 6), "cancel", rng.randrange(len(ws))])
    env.sort(key=lambda a: a[0])
    return {"loop": loop, "nlocks": 2, "nevents": 3, "workers": ws, "env": env}


def gen_between_owners_case(rng):
    """Directed shape for C12 (stock loop): H queues on lock 0 while it is between owners (released, the
    woken waiter W1 has not run yet); W1 then owns lock 0 and queues on lock 1, inheriting H's priority in
    its arrival key; H gives up; a waiter X with a priority between W1's own and H's arrives on lock 1.
    W1's key must have fallen back when H left, so that X gets lock 1 first."""
    mk = lambda kind, pri, script: {"kind": kind, "pri": pri, "script": script}  # noqa: E731
    pad = lambda n: [["sleep"]] * n  # noqa: E731
    m1 = rng.randint(1, 3)
    M1 = mk(rng.choice("PT"), rng.choice(PRI_POOL), [["acq", 0]] + pad(m1) + [["rel"]])
    M2 = mk(rng.choice("PT"), rng.choice(PRI_POOL), [["acq", 1]] + pad(rng.randint(12, 16)) + [["rel"]])
    W1 = mk("P", rng.choice(["5", "3", "LOW"]), [["acq", 0], ["acq", 1], ["rel"], ["rel"]])
    H = mk("P", rng.choice(["HIGH", "-8", "-5"]), pad(m1 + rng.randint(-1, 1)) + [["acq", 0], ["rel"]])
    X = mk("P", rng.choice(["0", "-1", "1", "NORMAL"]), pad(rng.randint(7, 9)) + [["acq", 1], ["rel"]])
    ws = [M1, M2, W1, H, X]
    env = [[rng.randint(5 * (m1 + 2), 5 * (m1 + 2) + 8), "cancel", 3]]
    return {"loop": "stock", "nlocks": 2, "nevents": 0, "workers": ws, "env": env}


def gen_chain_giveup_case(rng):
    """Directed shape for C12 (stock loop): chain H -> L0 (A) -> L1 (B) -> L2 (C0) with a sibling X on the
    middle lock whose priority lies between A's own and H's; H gives up after its priority has travelled
    up the chain; then Y, between B's fallen-back priority (X's) and H's, arrives on the top lock.  Every
    key along the chain must have fallen back, so Y gets L2 before B."""
    mk = lambda pri, script: {"kind": "P", "pri": pri, "script": script}  # noqa: E731
    pad = lambda n: [["sleep"]] * n  # noqa: E731
    C0 = mk(rng.choice(PRI_POOL), [["acq", 2]] + pad(rng.randint(16, 19)) + [["rel"]])
    B = mk(rng.choice(["5", "LOW", "3"]), pad(1) + [["acq", 1], ["acq", 2], ["rel"], ["rel"]])
    A = mk(rng.choice(["5", "3", "2"]), pad(2) + [["acq", 0], ["acq", 1], ["rel"], ["rel"]])
    X = mk(rng.choice(["-2", "-1", "-3/2"]), pad(3) + [["acq", 1], ["rel"]])
    H = mk(rng.choice(["HIGH", "-9", "-8"]), pad(rng.randint(4, 5)) + [["acq", 0], ["rel"]])
    Y = mk(rng.choice(["-5", "-4", "-6"]), pad(rng.randint(10, 12)) + [["acq", 2], ["rel"]])
    ws = [C0, B, A, X, H, Y]
    env = [[rng.randint(21, 30), "cancel", 4]]
    return {"loop": "stock", "nlocks": 3, "nevents": 0, "workers": ws, "env": env}


def gen_two_episodes_case(rng):
    """Directed shape for C12 (stock loop): the same task T goes through two waits.  Each time it owns
    lock 0 and is queued on lock 1 when an urgent task starts to wait for lock 0, and it inherits the same
    value both times.  In the second episode a competitor V, between T's own priority and the inherited
    one, is queued on lock 1 as well: T must be re-keyed again and get lock 1 before V."""
    mk = lambda kind, pri, script: {"kind": kind, "pri": pri, "script": script}  # noqa: E731
    pad = lambda n: [["sleep"]] * n  # noqa: E731
    urgent = rng.choice(["HIGH", "-8", "-5"])
    G1 = mk(rng.choice("PT"), rng.choice(PRI_POOL), [["acq", 1]] + pad(rng.randint(3, 4)) + [["rel"]])
    T = mk("P", rng.choice(["5", "3", "LOW"]),
           [["acq", 0], ["acq", 1], ["rel"], ["rel"]] + pad(rng.randint(4, 5)) + [["acq", 0], ["acq", 1], ["rel"], ["rel"]])
    U1 = mk("P", urgent, pad(1) + [["acq", 0], ["rel"]])
    G2 = mk(rng.choice("PT"), rng.choice(PRI_POOL), pad(rng.randint(7, 8)) + [["acq", 1]] + pad(rng.randint(8, 10)) + [["rel"]])
    V = mk("P", rng.choice(["0", "1", "-1", "NORMAL"]), pad(rng.randint(12, 13)) + [["acq", 1], ["rel"]])
    U2 = mk("P", urgent, pad(rng.randint(14, 15)) + [["acq", 0], ["rel"]])
    ws = [G1, T, U1, G2, V, U2]
    return {"loop": "stock", "nlocks": 2, "nevents": 0, "workers": ws, "env": []}


def crowd_size(rng):
    """waiter queues longer than a handful: 9..12 or 17..25"""
    return rng.randint(9, 12) if rng.random() < 0.5 else rng.randint(17, 25)


def gen_crowd_inflight_case(rng):
    """Directed shape for C13 with a long waiter queue (9..12 or 17..25 waiters): H holds the lock, W is
    the most urgent of the queued tasks, the others are bystanders.  In one instant, in a random order:
    H is let go (it releases), 2..5 tasks more urgent than W arrive (each one sifts up the heap and pushes
    entries down), and 1..2 bystanders are cancelled.  One wake-up, not more, may be in flight whatever
    the queue looks like."""
    mk = lambda kind, pri, script: {"kind": kind, "pri": pri, "script": script}  # noqa: E731
    loop = rng.choice(["stock", "stock", "prio"])
    nq = crowd_size(rng)
    H = mk(rng.choice("PPT"), rng.choice(["0", "-30", "NORMAL"]), [["acq", 0], ["wait", 0], ["rel"]])
    W = mk("P", "1", [["acq", 0]] + [["sleep"]] * rng.randint(0, 1) + [["rel"]])
    ws = [H, W]
    for j in range(nq - 1):
        ws.append(mk(rng.choice("PPPY"), rng.choice(["2", "3", "5", "LOW", "5/2", "7"]) if rng.random() < 0.5
                     else str(20 + j), [["acq", 0], ["rel"]]))
    nu = rng.randint(3, 5) if rng.random() < 0.7 else 2
    for j in range(nu):
        ws.append(mk("P", str(-1 - j), [["wait", 1], ["acq", 0], ["rel"]]))
    n0 = len(ws)
    groups = [[[n0, "set", 0]], [[n0, "set", 1]],
              [[n0, "cancel", i] for i in rng.sample(range(9 if (nq >= 11 and rng.random() < 0.7) else 2, nq + 1),
                                                     rng.randint(1, 2))]]
    if rng.random() < 0.4:
        rng.shuffle(groups)
    env = [a for g in groups for a in g]
    return {"loop": loop, "nlocks": 1, "nevents": 2, "workers": ws, "env": env}


def gen_raising_callback_case(rng):
    """Directed shape for C11/C13: a user-written `priority()` (kind R) that raises once, while a waiter
    announces itself.  G holds the top lock b; O holds lock a and is queued on b (or, on the priority loop,
    is runnable), so that a newcomer W on lock a makes the library ask for priorities: acquire() computes
    W's key, queues W and tells O, which re-keys itself - calling O's and W's priority().  The n-th of those
    calls raises.  acquire() must fail cleanly: no entry of W stays in the queue, O's effective priority
    is what it was, and later tasks still get both locks."""
    mk = lambda kind, pri, script: {"kind": kind, "pri": pri, "script": script}  # noqa: E731
    pad = lambda n: [["sleep"]] * n  # noqa: E731
    loop = rng.choice(["stock", "prio"])
    a, b = 0, 1
    G = mk(rng.choice("PPT"), rng.choice(["0", "1", "-30"]), [["acq", b]] + pad(rng.randint(5, 8)) + [["rel"]])
    O = mk(rng.choice("PR"), rng.choice(["5", "3", "LOW"]), [["acq", a], ["acq", b]] + pad(rng.randint(0, 1)) + [["rel"], ["rel"]])
    ws = [G, O]
    raiser = rng.choice([1, 2, 2])
    if raiser == 1:
        O["kind"] = "R"
    W = mk("R", rng.choice(["-5", "-2", "HIGH", "2"]),
           pad(rng.randint(1, 2)) + [["arm", raiser, rng.randint(1, 4)], ["acq", a]] + pad(rng.randint(0, 1)) + [["rel"]])
    ws.append(W)
    for _ in range(rng.randint(1, 2)):
        ws.append(mk(rng.choice("PPY"), rng.choice(PRI_POOL),
                     pad(rng.randint(1, 6)) + [["acq", rng.choice([a, b])]] + pad(rng.randint(0, 1)) + [["rel"]]))
    env = []
    if rng.random() < 0.2:
        env.append([rng.randint(3, 12), "cancel", rng.randrange(len(ws))])
    return {"loop": loop, "nlocks": 2, "nevents": 0, "workers": ws, "env": env}


def gen_inherited_giveup_case(rng):
    """Directed shape for C12 (stock loop): the waiter that gives up had *inherited* its urgency while it
    was queued.  G holds the top lock 2 for long; O holds lock 1 and is queued on lock 2; M (own priority
    low) holds lock 0 and is queued on lock 1 next to X (medium); the urgent U then waits for lock 0, so M,
    and through it O, are re-keyed to U's priority.  M is cancelled: O falls back to X's priority, and Y
    (between X and U), which arrives on lock 2 afterwards, must get lock 2 before O."""
    mk = lambda kind, pri, script: {"kind": kind, "pri": pri, "script": script}  # noqa: E731
    pad = lambda n: [["sleep"]] * n  # noqa: E731
    G = mk(rng.choice("PT"), rng.choice(PRI_POOL), [["acq", 2]] + pad(rng.randint(16, 19)) + [["rel"]])
    O = mk("P", rng.choice(["7", "LOW", "8"]), pad(1) + [["acq", 1], ["acq", 2], ["rel"], ["rel"]])
    M = mk("P", rng.choice(["5", "4", "6"]), pad(2) + [["acq", 0], ["acq", 1], ["rel"], ["rel"]])
    X = mk(rng.choice("PPT") if False else "P", rng.choice(["3", "2", "5/2"]), pad(rng.randint(2, 3)) + [["acq", 1], ["rel"]])
    U = mk("P", rng.choice(["-1", "-2", "-3/2"]), pad(rng.randint(4, 5)) + [["acq", 0], ["rel"]])
    Y = mk("P", rng.choice(["1", "0", "1/2"]), pad(rng.randint(10, 12)) + [["acq", 2], ["rel"]])
    ws = [G, O, M, X, U, Y]
    env = [[rng.randint(24, 32), "cancel", 2]]
    return {"loop": "stock", "nlocks": 3, "nevents": 0, "workers": ws, "env": env}


def gen_duck_case(rng):
    """Directed shape for C13: task classes that only duck-type the priority protocol (kind D, built on the
    Python task) use locks next to PriorityTasks; whatever the class, a released lock is no longer recorded
    as held and takes no part in the task's effective priority."""
    mk = lambda kind, pri, script: {"kind": kind, "pri": pri, "script": script}  # noqa: E731
    pad = lambda n: [["sleep"]] * n  # noqa: E731
    loop = rng.choice(["stock", "prio"])
    nl = rng.randint(1, 2)
    ws = []
    for _ in range(rng.randint(2, 4)):
        k = rng.randrange(nl)
        script = pad(rng.randint(0, 2)) + [["acq", k]] + pad(rng.randint(0, 2)) + [["rel"]]
        if rng.random() < 0.6:
            script += pad(rng.randint(0, 2)) + [["acq", rng.randrange(nl)]] + pad(rng.randint(0, 1)) + [["rel"]]
        ws.append(mk(rng.choice("DDP"), rng.choice(PRI_POOL), script))
    ws[0]["kind"] = "D"
    env = []
    if rng.random() < 0.3:
        env.append([rng.randint(2, 10), "cancel", rng.randrange(len(ws))])
    return {"loop": loop, "nlocks": nl, "nevents": 0, "workers": ws, "env": env}


def gen_eager_case(rng):
    """Directed shape for C13: acquire() started eagerly (asynkit.coro_eager) by a worker while the lock is
    held, so that it begins in the worker's task and is finished by the helper task; the worker then works
    under the lock and releases it.  The lock must record the worker as its holder.  (Oracles only.)"""
    mk = lambda kind, pri, script: {"kind": kind, "pri": pri, "script": script}  # noqa: E731
    pad = lambda n: [["sleep"]] * n  # noqa: E731
    loop = rng.choice(["stock", "prio"])
    ws = [mk(rng.choice("PPT"), rng.choice(PRI_POOL), [["acq", 0]] + pad(rng.randint(2, 4)) + [["rel"]])]
    for _ in range(rng.randint(1, 3)):
        op = "eacq" if rng.random() < 0.7 else "acq"
        ws.append(mk(rng.choice("PPY"), rng.choice(PRI_POOL),
                     pad(rng.randint(0, 2)) + [[op, 0]] + pad(rng.randint(0, 2)) + [["rel"]]))
    if not any(o[0] == "eacq" for w in ws for o in w["script"]):
        ws[1]["script"] = [["eacq", 0], ["sleep"], ["rel"]]
    env = []
    if rng.random() < 0.3:
        env.append([rng.randint(2, 10), "cancel", rng.randrange(len(ws))])
    return {"loop": loop, "nlocks": 1, "nevents": 0, "workers": ws, "env": env}


def gen_stale_key_case(rng):
    """Directed shape for C11 (priority loop, history dependent, one cancel): chain X -> L0 [W] -> L1 [H]; the
    far waiter X is cancelled while waiting, so everything it lent falls back (W's key on L1 included).
    Later, in one instant, H becomes runnable, a medium bystander M becomes runnable, and Y - more urgent
    than H and M, less urgent than X was - arrives on L1 (behind the place W had while it inherited from X).
    H must be promoted to Y's priority at once and run before M."""
    mk = lambda pri, script: {"kind": "P", "pri": pri, "script": script}  # noqa: E731
    H = mk(rng.choice(["10", "LOW", "7"]), [["acq", 1], ["wait", 0]] + [["sleep"]] * rng.randint(0, 1) + [["rel"]])
    W = mk(rng.choice(["5", "3", "4"]), [["wait", 4], ["acq", 0], ["acq", 1], ["rel"], ["rel"]])
    X = mk(rng.choice(["-5", "HIGH", "-6"]), [["wait", 1], ["acq", 0], ["rel"]])
    Y = mk(rng.choice(["-3", "-2", "-5/2"]), [["wait", 2], ["acq", 1], ["rel"]])
    M = mk(rng.choice(["0", "NORMAL", "-1", "1"]), [["wait", 3]] + [["sleep"]] * rng.randint(0, 2))
    ws = [H, W, X, Y, M]
    rng.shuffle(ws)
    xi = ws.index(X)
    env = [[5, "set", 4], [6, "set", 1], [7, "cancel", xi]] + [[8, "set", e] for e in rng.sample([0, 2, 3], 3)]
    return {"loop": "prio", "nlocks": 2, "nevents": 5, "workers": ws, "env": env}


def gen_tie_rekey_case(rng):
    """Directed shape for C12 (stock loop): a re-key that ends in a tie.  G holds lock 1; w1 holds lock 0 and
    is queued on lock 1; w2 arrives on lock 1 after w1.  Variant a: the urgent U, whose priority equals
    w2's, waits for lock 0, so w1 inherits exactly w2's priority.  Variant b: w1 and w2 have the same
    priority, U waits for lock 0 and is cancelled, so w1 is re-keyed up and back.  Among equals the earlier
    arrival, w1, must get lock 1 first."""
    mk = lambda kind, pri, script: {"kind": kind, "pri": pri, "script": script}  # noqa: E731
    pad = lambda n: [["sleep"]] * n  # noqa: E731
    G = mk(rng.choice("PT"), rng.choice(PRI_POOL), [["acq", 1]] + pad(rng.randint(10, 13)) + [["rel"]])
    if rng.random() < 0.5:
        pu = rng.choice(["HIGH", "-5", "-2", "0"])
        w1 = mk("P", rng.choice(["5", "3", "LOW"]), [["acq", 0], ["acq", 1], ["rel"], ["rel"]])
        w2 = mk("P", {"HIGH": "-10"}.get(pu, pu) if rng.random() < 0.5 else pu, pad(rng.randint(1, 2)) + [["acq", 1], ["rel"]])
        U = mk("P", pu, pad(rng.randint(3, 5)) + [["acq", 0], ["rel"]])
        env = []
    else:
        pw = rng.choice(["5", "3", "1", "0"])
        w1 = mk("P", pw, [["acq", 0], ["acq", 1], ["rel"], ["rel"]])
        w2 = mk(rng.choice("PPT") if pw == "0" else "P", pw, pad(rng.randint(1, 2)) + [["acq", 1], ["rel"]])
        U = mk("P", rng.choice(["HIGH", "-5", "-2"]), pad(rng.randint(3, 4)) + [["acq", 0], ["rel"]])
        env = [[rng.randint(20, 26), "cancel", 3]]
    return {"loop": "stock", "nlocks": 2, "nevents": 0, "workers": [G, w1, w2, U], "env": env}


def gen_plain_donor_case(rng):
    """Directed shape for C12: the task from which a queued holder inherits is a *plain* task (priority 0).
    G holds lock 1; W (PriorityTask, less urgent than 0) holds lock 0 and is queued on lock 1 together with X,
    whose priority lies between 0 and W's; a plain / Python task then waits for lock 0: W's effective
    priority is 0 and W must get lock 1 before X."""
    mk = lambda kind, pri, script: {"kind": kind, "pri": pri, "script": script}  # noqa: E731
    pad = lambda n: [["sleep"]] * n  # noqa: E731
    loop = rng.choice(["stock", "stock", "prio"])
    G = mk(rng.choice("PT"), rng.choice(["0", "-1", "NORMAL", "-5"]), [["acq", 1]] + pad(rng.randint(9, 12)) + [["rel"]])
    W = mk("P", rng.choice(["LOW", "5", "3", "7"]), pad(rng.randint(0, 2)) + [["acq", 0], ["acq", 1], ["rel"], ["rel"]])
    X = mk("P", rng.choice(["1", "2", "1/2", "3/2"]), pad(rng.randint(0, 3)) + [["acq", 1], ["rel"]])
    D = mk(rng.choice("TY"), "0", pad(rng.randint(4, 6)) + [["acq", 0], ["rel"]])
    ws = [G, W, X, D]
    env = []
    if rng.random() < 0.25:
        env.append([rng.randint(16, 24), "cancel", 3])      # the donor gives up: W falls back behind X
    return {"loop": loop, "nlocks": 2, "nevents": 0, "workers": ws, "env": env}


def grid_cases(prop):
    """A small deterministic set of directed cases, the same on every run whatever the seed: a few
    instances of every directed generator kind, drawn from a private generator with a fixed seed."""
    import random
    rng = random.Random(20260930)
    plan = {
        "C11": [(lambda: gen_inherit_case(rng, "C11"), 6), (lambda: gen_chain_contended_case(rng, "C11"), 5),
                (lambda: gen_headkey_case(rng), 4), (lambda: gen_fallback_case(rng), 5), (lambda: gen_woken_holder_case(rng), 8),
                (lambda: gen_chain_case(rng), 6), (lambda: gen_raising_callback_case(rng), 6),
                (lambda: gen_case(rng, "C11"), 8), (lambda: gen_stale_key_case(rng), 4)],
        "C12": [(lambda: gen_inherit_case(rng, "C12"), 8), (lambda: gen_chain_contended_case(rng, "C12"), 8),
                (lambda: gen_reuse_case(rng), 5), (lambda: gen_between_owners_case(rng), 4),
                (lambda: gen_chain_giveup_case(rng), 4), (lambda: gen_two_episodes_case(rng), 4),
                (lambda: gen_inherited_giveup_case(rng), 4), (lambda: gen_tie_rekey_case(rng), 8),
                (lambda: gen_plain_donor_case(rng), 8),
                (lambda: gen_chain_case(rng), 3), (lambda: gen_case(rng, "C12"), 8)],
        "C13": [(lambda: gen_inflight_case(rng), 12), (lambda: gen_positional_case(rng), 4),
                (lambda: gen_cycle_case(rng), 8),
                (lambda: gen_raising_callback_case(rng), 4), (lambda: gen_duck_case(rng), 4),
                (lambda: gen_eager_case(rng), 4), (lambda: gen_case(rng, "C13"), 12)],
    }[prop]
    out = []
    for make, n in plan:
        out += [make() for _ in range(n)]
    return out


def gen_chain_case(rng):
    """Directed shape for C11: chain of length 1..4  T0 holds L0, Ti holds Li and waits on L(i-1)?
    With a fixed (ascending) lock order the chain is: Tn-1 holds L(n-1); Ti holds Li, waits L(i+1);
    an urgent task finally waits on L0.  The top holder is runnable, on an event, or sleeping."""
    n = rng.choice([1, 2, 2, 3, 3])
    loop = rng.choice(["prio", "prio", "stock"])
    nl = n
    ws = []
    top_wait = rng.random() < 0.4
    ne = 1 if top_wait else 0
    body = [["wait", 0]] if top_wait else [["sleep"]] * rng.randint(3, 8)
    ws.append({"kind": "P", "pri": rng.choice(["5", "3", "LOW", "2"]),
               "script": [["acq", n - 1]] + body + [["rel"]]})
    for i in range(n - 2, -1, -1):
        ws.append({"kind": "P", "pri": rng.choice(["1", "2", "3", "1/2", "0"]),
                   "script": [["sleep"]] * (n - 1 - i) + [["acq", i], ["acq", i + 1], ["sleep"], ["rel"], ["rel"]]})
    ws.append({"kind": "P", "pri": rng.choice(["-5", "-2", "HIGH", "-1"]),
               "script": [["sleep"]] * (n + rng.randint(0, 2)) + [["acq", 0], ["rel"]]})
    for _ in range(rng.randint(0, 2)):
        ws.append({"kind": "P", "pri": rng.choice(["0", "1", "-1", "NORMAL", "4"]),
                   "script": [["sleep"]] * rng.randint(2, 10)})
    env = [[rng.randint(8, 30), "set", 0]] if top_wait and rng.random() < 0.7 else []
    return {"loop": loop, "nlocks": nl, "nevents": ne, "workers": ws, "env": env}


# ---------------------------------------------------------------------------------------
# shared exploration: oracle + correspondence + shrinking


def case_text(case) -> str:
    import json
    return json.dumps(case, sort_keys=True)


def fails_with(case, kinds, sched_oracle):
    try:
        r = run_case(case, sched_oracle)
    except core.InfraError:
        return None
    for k, d in r.fails:
        if k in kinds:
            return (k, d)
    return None


def shrink(case, kind, sched_oracle):
    """delta-debug the environment actions, then drop workers, then drop script operations"""
    import copy
    kinds = {kind}
    case = copy.deepcopy(case)

    def bad(c):
        return fails_with(c, kinds, sched_oracle) is not None

    if case["env"]:
        def f_env(sub):
            c = dict(case, env=sub)
            return bad(c)
        if bad(dict(case, env=[])):
            case["env"] = []
        elif len(case["env"]) > 1:
            case["env"] = core.ddmin(case["env"], f_env)
    # drop workers
    changed = True
    while changed and len(case["workers"]) > 1:
        changed = False
        for i in range(len(case["workers"]) - 1, -1, -1):
            if any(a[1] not in ("set", "callsoon") and a[2] == i for a in case["env"]):
                continue
            if any(op[0] == "arm" and op[1] == i for wk in case["workers"] for op in wk["script"]):
                continue
            c = copy.deepcopy(case)
            del c["workers"][i]
            for wk in c["workers"]:
                for op in wk["script"]:
                    if op[0] == "arm" and op[1] > i:
                        op[1] -= 1
            for a in c["env"]:
                if a[1] not in ("set", "callsoon") and a[2] > i:
                    a[2] -= 1
            if bad(c):
                case, changed = c, True
                break
    # drop sleeps / waits
    changed = True
    while changed:
        changed = False
        for wi, wk in enumerate(case["workers"]):
            for oi, op in enumerate(wk["script"]):
                if op[0] in ("sleep", "wait", "badrel", "arm"):
                    c = copy.deepcopy(case)
                    del c["workers"][wi]["script"][oi]
                    if bad(c):
                        case, changed = c, True
                        break
            if changed:
                break
    return case


def explore(ctx, cases, kinds, theorem_of, sched_oracle=False, label="", max_report=3,
            nontrivial=None):
    """Run every case on the real code (oracles), then replay all traces through the Lean model."""
    all_lines, spans, runs = [], [], []
    seen_kinds = set()
    for case in cases:
        r = run_case(case, sched_oracle)
        nt = sorted(t for t in r.tags if nontrivial is None or t in nontrivial)
        ctx.case(case_text(case), nt)
        for t in sorted(r.tags):
            if t not in nt:
                ctx.tag(t)
        for kind, detail in r.fails:
            if kind not in kinds or kind in seen_kinds:
                continue
            seen_kinds.add(kind)
            small = shrink(case, kind, sched_oracle)
            again = fails_with(small, {kind}, sched_oracle) or (kind, detail)
            ctx.violation(kind, f"{label}{again[1]}", small, expected=kinds[kind],
                          observed=again[1], theorem=theorem_of.get(kind, ""))
        if r.aborted or r.no_replay:
            r.lines, r.expect = [], []          # nothing meaningful to replay
        spans.append((len(all_lines) + 1, len(r.lines)))
        all_lines.append("reset")
        all_lines.extend(r.lines)
        runs.append(r)
    if not ctx.lean_ok or not cases:
        return runs
    outs = ctx.lean_driver("Lock", all_lines)
    if len(outs) != len(all_lines):
        raise core.InfraError(f"Lock driver returned {len(outs)} lines for {len(all_lines)}")
    reported = 0
    for (start, n), case, r in zip(spans, cases, runs):
        mo = outs[start:start + n]
        oi = 0
        for j, (ln, m) in enumerate(zip(r.lines, mo)):
            want = None
            if ln == "obs":
                want = r.expect[oi]
                oi += 1
            elif ln.startswith("ev ") or ln.startswith("init "):
                want = "ok"
            if want is not None and m != want and ln == "obs" and ":ERR:" in want:
                # effective_priority() raised (RecursionError on a transient wait-for cycle, e.g. through
                # a cancelled waiter that has not run yet): the model's bounded recursion has a value
                # there, the real one has none - compare everything else
                wf, mf = want.split("|"), m.split("|")
                if len(wf) == len(mf):
                    for j2, (a, b) in enumerate(zip(wf, mf)):
                        pa, pb = a.split(":"), b.split(":")
                        if a.startswith("T") and len(pa) == len(pb) == 7 and pa[5] == "ERR":
                            pb[5] = "ERR"
                            mf[j2] = ":".join(pb)
                    m = "|".join(mf)
            if want is not None and m != want:
                if reported < max_report:
                    ctx.disagreement(
                        f"{label}the model does not accept the real trace at `{ln}` (line {j})",
                        {"case": case, "trace_prefix": r.lines[max(0, j - 12): j + 1]},
                        expected=m, observed=want,
                        theorem="trace acceptance Drivers/Lock (Asynkit.Lock.State.apply)")
                reported += 1
                break
        else:
            ctx.traces += 1
    ctx.extra["events_replayed"] = ctx.extra.get("events_replayed", 0) + sum(
        1 for ln in all_lines if ln.startswith("ev "))
    return runs


def corpus_cases(prop):
    import json
    d = core.ROOT / "corpus" / prop
    out = []
    if d.exists():
        for f in sorted(d.glob("*.json")):
            out.append(json.loads(f.read_text()))
    return out
