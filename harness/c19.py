"""C19 — starvation boosting is prompt, history-independent and safe."""
from __future__ import annotations

import itertools
from fractions import Fraction

from . import core
from .containers import RealContainers

PROP = "C19"
LEAN_TARGETS = ["Asynkit.Props.C19", "Asynkit.Lemmas.GenEq", "Asynkit.Lemmas.GenEqPosPQ", "Asynkit.Lemmas.GenEqPQ"]
PROPS_FILES = ["Asynkit/Props/C19.lean", "Asynkit/Lemmas/GenEq.lean", "Asynkit/Lemmas/GenEqPosPQ.lean", "Asynkit/Lemmas/GenEqPQ.lean"]
DRIVERS = ["PQ"]
TRUSTED = [
    'Lean 4.33 kernel; axioms ⊆ {propext, Classical.choice, Quot.sound} (audited per theorem each run)',
    'Asynkit/Model/PosPQ.lean is no longer trusted as a transcription (next entry); it is still run against the '
    "code by this run's differential correspondence (counters, boosts and pop order after every operation, "
    'lean/Drivers/PQ.lean)',
    'translated, not trusted: the whole PosPriorityQueue class - update_counters, do_maintenance and '
    'boost_stragglers (loops included), compute_priority_boost, PriorityValue.__lt__, append/insert/popleft - and'
    ' the underlying tools.PriorityQueue are re-translated on each run (translator/pospq2lean.py, pq2lean.py -> '
    'Gen/PosPQ.lean, Gen/PQ.lean) and proved equal to Model/PosPQ and Model/PQ (Lemmas/GenEqPosPQ.lean 41, '
    'GenEqPQ.lean 29 theorems; PriEntry.__lt__ by Lemmas/GenEq.lean, 1 theorem); trusted there: '
    'Model/PosPQRt.lean and Model/PyRt.lean (statement-level reading of Python, by-value PriorityValue objects, '
    "the random draw named by the entry's sequence number)",
    'priorities are exact rationals in the model, floats in the code: compared with a relative tolerance of 1e-9 '
    '(inputs are dyadic, so most cases are exact); pop orders are compared only when no two regular priorities of'
    ' the model lie within 1e-6 of each other',
    'random.random() is replaced by a fixed value in (0,1) per case',
    'heapq meets its documented contract (HeapLib.Lawful)',
]
ASSUMPTIONS = ["the random draw lies in [0,1)", "priority_boost_factor >= 0"]
RULE = ("a case = prior history (random ops of length 0..5000, queue drained to empty 0..3 times) followed by a "
        "straggler under sustained pop/append load of more urgent entries at queue length 1..200, fixed draw, "
        "optionally positional entries put at the head during the load; non-trivial when a maintenance round "
        "with at least one candidate ran; distinct = hash of the generating parameters + op text")

TOL = 1e-9


def parse_prios(s):
    out = []
    if not s.startswith("list"):
        return None
    for item in [x for x in s[5:].split(",") if x]:
        o, c, b, bo = item.split(":")
        out.append((int(o), int(c), Fraction(b), Fraction(bo)))
    return out


def close(a, b):
    return abs(a - b) <= TOL * max(1, abs(a), abs(b))


def same_prios(a, b):
    """compare two `prios` outputs as sets keyed by object, with tolerance"""
    pa, pb = parse_prios(a), parse_prios(b)
    if pa is None or pb is None or len(pa) != len(pb):
        return False
    da = {x[0]: x for x in pa}
    db = {x[0]: x for x in pb}
    if da.keys() != db.keys():
        return False
    for o in da:
        x, y = da[o], db[o]
        if x[1] != y[1] or not close(x[2], y[2]) or not close(x[3], y[3]):
            return False
    return True


def near_tie(prios):
    reg = sorted(p[2] + p[3] for p in prios if p[1] != 0)
    return any(b - a < Fraction(1, 10**6) and b != a for a, b in zip(reg, reg[1:]))


# ---------------------------------------------------------------------------------------


def gen_history(rng, n_ops, nxt):
    """arbitrary prior history on queue `pos 0` (boosting on)."""
    lines = []
    live = []
    for _ in range(n_ops):
        r = rng.random()
        if (r < 0.45 and len(live) < 25) or not live:
            o = next(nxt)
            p = rng.choice(["-2", "-1", "0", "0", "1", "3/2", "2"])
            lines.append(f"pos 0 appendpri {o} {p}")
            live.append(o)
        elif r < 0.85:
            lines.append("pos 0 popleft")
            if live:
                live.pop()          # approximate; exact set is not needed by the generator
        elif r < 0.92:
            o = next(nxt)
            lines.append(f"pos 0 insert {rng.randint(0, 2)} {o}")
            live.append(o)
        elif r < 0.96 and live:
            lines.append(f"pos 0 find {rng.choice(live)} 1")
        else:
            lines.append("pos 0 reschedall")
    return lines


def gen_case(rng, thorough, fixed=None):
    """`fixed` pins some of the choices (the deterministic grid run on every seed); the remaining ones
    still come from `rng`."""
    fixed = fixed or {}
    if not fixed and rng.random() < 0.25:
        return gen_case_equal(rng, thorough)
    nxt = itertools.count(1)
    factor = rng.choice(["6/5", "5/4", "2", "5/4"])
    draw = rng.choice(["1/2", "3/4", "7/8", "15/16", "1/4", "7/8", "15/16"])
    n_hist = rng.choice([0, 0, 20, 200, 1500] + ([5000] if thorough else []))
    drains = rng.choice([0, 1, 1, 3])
    qlen = rng.choice([1, 2, 3, 5, 9, 10, 11, 17, 40] + ([100, 200] if thorough else []))
    positional = rng.random() < 0.5
    pos_every = rng.choice([1, 2, 3])
    factor, draw = fixed.get("factor", factor), fixed.get("draw", draw)
    n_hist, drains, qlen = fixed.get("n_hist", n_hist), fixed.get("drains", drains), fixed.get("qlen", qlen)
    positional, pos_every = fixed.get("positional", positional), fixed.get("pos_every", pos_every)
    # re-keying the straggler during the load (priority inheritance / task_reschedule do this):
    #  "noop"  = to its own, unchanged priority, every few rounds from the start;
    #  "urgent" = to a more urgent (still less urgent than the stream) priority after it was boosted
    rekey = rng.choice([None, None, None, "noop", "urgent"])
    if "rekey" in fixed:
        rekey = fixed["rekey"]
    if rekey:
        draw = rng.choice(["1/4", "1/2"])
        factor = "6/5"
    lines = [f"pos 0 new {factor}", f"pos 0 draw {draw}"]
    for d in range(max(1, drains)):
        lines += gen_history(rng, n_hist // max(1, drains), nxt)
        if drains:
            # drain to empty: pop len+slack times (extra pops just answer IndexError)
            lines += ["pos 0 popleft"] * (n_hist // max(1, drains) + 3)
    withdrawn = 0
    if fixed.get("withdrawn", rng.random() < 0.3) if "withdrawn" in fixed else rng.random() < 0.3:
        # entries withdrawn with find(remove=True) (queue_find(remove=True) of task_switch & co.):
        # they leave the queue without passing through popleft/remove
        withdrawn = rng.choice([12, 40, 90])
        for _ in range(withdrawn):
            o = next(nxt)
            lines += [f"pos 0 appendpri {o} 7", f"pos 0 find {o} 1"]
    meta = {"factor": factor, "draw": draw, "n_hist": n_hist, "drains": drains, "qlen": qlen,
            "positional": positional, "withdrawn": withdrawn}
    # the straggler and the background
    strag = next(nxt)
    setup = []
    strag_pri = fixed.get("strag_pri", "5")
    setup.append(f"pos 0 appendpri {strag} {strag_pri}")
    if fixed.get("extra_pri"):
        # a third, much less urgent entry: widens the priority range without being the straggler judged
        setup.append(f"pos 0 appendpri {next(nxt)} {fixed['extra_pri']}")
    for _ in range(qlen - 1):
        setup.append(f"pos 0 appendpri {next(nxt)} 0")
    lines += setup
    lines.append("pos 0 len")
    meta["setup_at"] = len(lines)
    meta["straggler"] = strag
    rounds = 2 * (max(10, qlen + 30) + 1) + 4
    load = []
    for i in range(rounds):
        load.append("pos 0 popleft")
        if positional and i % pos_every == 1 % pos_every:
            # positional entries (call_pos / task_switch style, positions 0..2) sit at the head while
            # the append (and possibly maintenance) runs; position >= 1 promotes the current head
            k = rng.choice(fixed.get("k_choices", [1, 2, 2, 3]))
            for _ in range(k):
                load.append(f"pos 0 insert {rng.choice(fixed.get('pos_choices', [0, 0, 1, 2]))} {next(nxt)}")
            load.append(f"pos 0 appendpri {next(nxt)} 0")
            load += ["pos 0 popleft"] * k
        else:
            load.append(f"pos 0 appendpri {next(nxt)} 0")
        if (rekey == "noop" and i % 3 == 2) or (rekey == "urgent" and i >= max(10, qlen + 2) + 3 and i % 4 == 0):
            # observe first (a maintenance round may just have boosted the entry), then re-key
            load.append("pos 0 counters")
            load.append("pos 0 prios")
            load.append(f"pos 0 resched {strag} " + (strag_pri if rekey == "noop" else rng.choice(["4", "3", "2", "1"])))
        load.append("pos 0 counters")
        load.append("pos 0 prios")
    meta["rekey"] = rekey
    lines += load
    return lines, meta


def gen_case_equal(rng, thorough):
    """all regular priorities equal, positional entries at the head while maintenance runs:
    nothing is 'strictly less urgent than the most urgent regular entry', so nothing may be boosted"""
    nxt = itertools.count(1)
    factor = rng.choice(["6/5", "5/4", "2"])
    draw = rng.choice(["1/2", "3/4", "7/8"])
    qlen = rng.choice([2, 3, 5, 9, 12, 20])
    pri = rng.choice(["0", "1", "-1", "1/2"])
    lines = [f"pos 0 new {factor}", f"pos 0 draw {draw}"]
    strag = next(nxt)
    lines.append(f"pos 0 appendpri {strag} {pri}")
    for _ in range(qlen - 1):
        lines.append(f"pos 0 appendpri {next(nxt)} {pri}")
    lines.append("pos 0 len")
    meta = {"factor": factor, "draw": "0", "real_draw": draw, "n_hist": 0, "drains": 0, "qlen": qlen,
            "positional": True, "equal": True, "setup_at": len(lines), "straggler": strag}
    for i in range(3 * (max(10, qlen) + 3)):
        lines.append("pos 0 popleft")
        k = rng.choice([0, 2, 2, 3])
        for _ in range(k):
            lines.append(f"pos 0 insert {rng.choice([0, 0, 1])} {next(nxt)}")
        lines.append(f"pos 0 appendpri {next(nxt)} {pri}")
        for _ in range(k):
            lines.append("pos 0 popleft")
        lines.append("pos 0 counters")
        lines.append("pos 0 prios")
    return lines, meta


# ---------------------------------------------------------------------------------------
# oracle: the property on the real outputs (no model involved)


def oracle(lines, outs, meta, tags):
    """Returns None or (index, expected, observed, why, keyclass)."""
    factor, draw = Fraction(meta["factor"]), Fraction(meta["draw"])
    strag = meta["straggler"]
    start = meta["setup_at"]
    try:
        qlen = int(outs[start - 1].split()[1])      # the real queue length when the load starts
    except (IndexError, ValueError):
        return start - 1, "n <len>", outs[start - 1], "len() failed", "exception"
    bound = 2 * (max(10, qlen + 2) + 1) + 1
    n_rounds = sum(1 for ln in lines[start:] if ln.endswith(" counters"))
    rounds = 1
    popped_at = None
    prev = None
    last_ctr = None
    prev_ctr = None
    rekeyed_now = set()           # entries re-keyed since the last snapshot
    ins_count = 0                 # insertions (append/append_pri/insert calls) seen so far
    born = {}                     # object -> ins_count just before it was inserted
    for idx in range(0, start):
        t = lines[idx].split()
        if t[2] in ("appendpri", "append", "insert"):
            born[int(t[3] if t[2] != "insert" else t[4])] = ins_count
            ins_count += 1
        elif t[2] == "popleft" and outs[idx] == "err IndexError":
            pass
    for idx in range(start, len(lines)):
        ln, out = lines[idx], outs[idx]
        if out.startswith("exc "):
            return idx, "no exception", out, "unexpected exception", "exception"
        op = ln.split()[2]
        if op in ("appendpri", "insert"):
            t = ln.split()
            born[int(t[3] if op == "appendpri" else t[4])] = ins_count
            ins_count += 1
        if op == "resched" and out.startswith("obj ") and prev is not None:
            # a re-key to a *different* priority, or of an entry that carries a boost (the re-keyed
            # entry starts afresh without it), makes the entry new; a re-key of an unboosted entry to
            # its own priority changes nothing, in particular not how long it has been waiting
            t = ln.split()
            o = int(t[3])
            was = {p[0]: p for p in prev}.get(o)
            if was is not None and (was[3] != 0 or was[2] != Fraction(t[4])):
                born[o] = ins_count
                rekeyed_now.add(o)
            elif was is not None:
                tags.add("noop-rekey-of-unboosted-entry")
        if op == "popleft":
            if out == f"obj {strag}" and popped_at is None:
                popped_at = rounds
        elif op == "counters":
            last_ctr = out
            rounds += 1
        elif op == "prios":
            cur = parse_prios(out)
            if cur is None:
                return idx, "list", out, "prios not a list", "exception"
            # safety of whatever boosts are present
            reg = [p for p in cur if p[1] != 0]
            for o, c, b, bo in cur:
                if c == 0 and bo != 0:
                    return idx, "no boost on positional entries", out, f"positional entry {o} carries a boost", "boost-positional"
                if bo > 0:
                    return idx, "boost <= 0", out, f"entry {o} was made less urgent by a boost", "boost-positive"
            if prev is not None and prev_ctr is not None and last_ctr is not None \
                    and prev_ctr.split()[3] != last_ctr.split()[3] and draw > 0 and not meta.get("equal"):
                # a maintenance round ran during this load round: every regular entry that has been
                # waiting for clearly more than a queue length of insertions and whose base priority is
                # above a regular entry present all along must have been considered, i.e. carry a boost
                # at least as strong as the one computed from that entry's priority
                before = {p[0]: p for p in prev}
                stable = [p for p in cur if p[1] != 0 and p[0] in before and before[p[0]][1] != 0]
                n_now = len(cur)
                for o, c, b, bo in stable:
                    age = ins_count - born.get(o, ins_count)
                    if age <= n_now + 8:
                        continue
                    others = [before[q[0]][2] + before[q[0]][3] for q in stable if q[0] != o]
                    if not others:
                        continue
                    mn_st = min(others)
                    if b > mn_st + Fraction(1, 1000):
                        need = draw * (mn_st - b) * factor
                        if bo > need + Fraction(1, 10**6) * max(1, abs(need)):
                            return idx, f"entry {o} (base {b}, waiting {age} insertions, queue length {n_now}) considered: boost <= {need}", \
                                out, f"a long-waiting, less urgent regular entry was not considered in a maintenance round", "straggler-not-considered"
            if prev is not None and rekeyed_now:
                # an entry re-keyed since the last snapshot: whatever boost it carries now must be
                # within the bound for its *new* priority
                before = {p[0]: p for p in prev}
                regb = [before[p[0]] for p in reg if p[0] in before and p[0] not in rekeyed_now]
                if regb:
                    mn0 = min(p[2] + p[3] for p in regb)
                    for o, c, b, bo in cur:
                        if o in rekeyed_now and c != 0 and bo != 0 and o in before and before[o][2] != b:
                            tags.add("rekey-of-boosted-entry")
                            lo = (mn0 - b) * factor if b > mn0 else Fraction(0)
                            if bo < lo - Fraction(1, 10**6) * max(1, abs(lo)):
                                return idx, f"boost of the re-keyed entry {o} (new base {b}) >= {lo}", out, \
                                    f"entry {o} keeps a boost granted for its old priority: boosted beyond the bound relative to the most urgent regular entry", "boost-stale-after-rekey"
            rekeyed_now = set()
            if prev is not None:
                before = {p[0]: p for p in prev}
                changed = [p for p in cur if p[0] in before and before[p[0]][3] != p[3]]
                if changed and meta.get("equal"):
                    o = changed[0][0]
                    return idx, "no boost when all regular priorities are equal", out, \
                        f"entry {o} boosted although no regular entry is more urgent than it", "boost-among-equals"
                if changed:
                    tags.add("maintenance-with-candidates")
                    # min over the regular priorities *before* this round, of entries still present
                    # (the entry popped in this round left before the append that triggered maintenance)
                    regb = [before[p[0]] for p in reg if p[0] in before] + \
                           [p for p in reg if p[0] not in before]
                    mn = min(p[2] + p[3] for p in regb)
                    for o, c, b, bo in changed:
                        if not b > mn + Fraction(-1, 10**9):
                            return idx, f"only entries with base > {mn} boosted", out, \
                                f"entry {o} (base {b}) boosted although not less urgent than the most urgent regular entry", "boost-not-straggler"
                        lo = (mn - b) * factor
                        if bo < lo - Fraction(1, 10**6) * max(1, abs(lo)):
                            return idx, f"boost >= {lo}", out, f"entry {o} boosted beyond the bound", "boost-unbounded"
                    if meta["positional"]:
                        tags.add("maintenance-with-positional-head")
            prev = cur
            prev_ctr = last_ctr
    # promptness: with draw*factor > 1 the straggler overtakes as soon as it is boosted as a candidate
    if draw * factor > 1 and n_rounds < bound + 2:
        tags.add("too-few-rounds-for-this-length")
    elif draw * factor > 1:
        tags.add("overtaking-draw")
        if popped_at is None or popped_at > bound + 1:
            # one specific load is a recorded finding (known_findings.json): every round is
            # `popleft; insert(0, x); append; popleft` and at every insert(0) - the first insertion
            # after the pop, which is where the throughput test fires - the straggler is the only
            # regular entry in the queue, so maintenance always finds nothing to compare it with
            regular, lone = set(), True
            for ln2, out2 in zip(lines, outs):
                t2 = ln2.split()
                if t2[2] in ("appendpri", "append"):
                    regular.add(int(t2[3]))
                elif t2[2] == "insert":
                    if t2[3] != "0" or (lines.index(ln2) >= start and regular != {strag}):
                        lone = False
                elif t2[2] == "popleft" and out2.startswith("obj "):
                    regular.discard(int(out2.split()[1]))
                elif t2[2] in ("find", "remove", "clear", "resched", "reschedall"):
                    lone = False
            if lone and meta["positional"] and not any(l.split()[2] == "insert" for l in lines[:start]):
                return len(lines) - 1, f"straggler popped within {bound + 1} rounds whatever the history", \
                    f"popped at round {popped_at}", \
                    "straggler starves: every maintenance round fires at an insert(0) at which it is the only regular entry " \
                    f"(load `popleft; insert(0); append; popleft`, len {qlen})", \
                    "straggler-late:lone-regular-at-every-maintenance"
            return len(lines) - 1, f"straggler popped within {bound + 1} rounds whatever the history", \
                f"popped at round {popped_at}", \
                f"straggler not run within the length-proportional bound (history {meta['n_hist']} ops, {meta['drains']} drains, len {qlen})", \
                "straggler-late"
    if meta.get("equal"):
        tags.add("equal-priorities-with-positional-head")
    if meta["n_hist"] >= 200:
        tags.add("long-history")
    if meta.get("rekey"):
        tags.add("straggler-rekeyed-" + meta["rekey"])
    if meta.get("withdrawn"):
        tags.add("history-with-find-removals")
    if meta["drains"]:
        tags.add("drained-to-empty")
    return None


def run_real(lines):
    rc = RealContainers()
    outs = []
    for ln in lines:
        try:
            outs.append(rc.step(ln))
        except Exception as e:  # noqa: BLE001
            outs.append(f"exc {type(e).__name__}")
    return outs


def explore(ctx, cases, label=""):
    all_lines, spans, reals = [], [], []
    for lines, meta in cases:
        outs = run_real(lines)
        tags = set()
        bad = oracle(lines, outs, meta, tags)
        ctx.case(repr(sorted(meta.items())) + "\n".join(lines[:50]), sorted(tags))
        if bad is not None:
            ctx.violation(f"boost:{bad[4]}", f"{label}{bad[3]}",
                          {"ops": lines, "meta": meta}, expected=bad[1], observed=bad[2],
                          theorem="Asynkit.C19.maintenance_within / boost_safe")
        spans.append((len(all_lines) + 1, len(lines)))
        all_lines.append("reset")
        all_lines.extend(lines)
        reals.append(outs)
    if not ctx.lean_ok or not cases:
        return
    mouts = ctx.lean_driver("PQ", all_lines)
    if len(mouts) != len(all_lines):
        raise core.InfraError(f"driver returned {len(mouts)} lines for {len(all_lines)}")
    reported = 0
    skipped = 0
    for (start, n), (lines, meta), outs in zip(spans, cases, reals):
        mo = mouts[start:start + n]
        tie = False
        for i, (ln, r, m) in enumerate(zip(lines, outs, mo)):
            op = ln.split()[2]
            if op == "prios":
                mp = parse_prios(m)
                if mp is not None and near_tie(mp):
                    tie = True
                ok = same_prios(r, m)
            elif op == "popleft" and tie:
                skipped += 1
                break           # pop order no longer comparable for this case
            else:
                ok = r == m
            if not ok:
                if reported < 3:
                    ctx.disagreement(f"{label}model and implementation answer `{ln}` differently (op #{i})",
                                     {"ops": lines[: i + 1], "meta": meta}, expected=m, observed=r,
                                     theorem="correspondence Drivers/PQ (PosPQ with boosting)")
                reported += 1
                break
    ctx.traces += len(cases)
    ctx.extra["cases_cut_short_by_model_near_tie"] = ctx.extra.get("cases_cut_short_by_model_near_tie", 0) + skipped


def corpus_cases():
    import json
    d = core.ROOT / "corpus" / PROP
    out = []
    if d.exists():
        for f in sorted(d.glob("*.json")):
            c = json.loads(f.read_text())
            out.append((c["ops"], c["meta"]))
    return out


def grid():
    """the situations every run must contain, whatever the seed: an overtaking draw with and without
    positional entries at the head while maintenance runs, short and long queues, a long undrained
    history, withdrawals by find(remove=True), and the two re-key modes"""
    g = []
    for qlen in (2, 3, 10, 17):
        for positional, pos_every in ((False, 1), (True, 1), (True, 2), (True, 3)):
            g.append(dict(qlen=qlen, positional=positional, pos_every=pos_every, draw="15/16", factor="6/5",
                          n_hist=0, drains=0, rekey=None, withdrawn=False))
    g.append(dict(qlen=5, positional=False, draw="15/16", factor="6/5", n_hist=1500, drains=0, rekey=None, withdrawn=False))
    g.append(dict(qlen=5, positional=True, pos_every=2, draw="15/16", factor="6/5", n_hist=200, drains=1, rekey=None, withdrawn=False))
    g.append(dict(qlen=5, positional=False, draw="15/16", factor="6/5", n_hist=20, drains=0, rekey=None, withdrawn=True))
    g.append(dict(qlen=5, positional=False, n_hist=0, drains=0, rekey="noop", withdrawn=False))
    g.append(dict(qlen=5, positional=False, n_hist=0, drains=0, rekey="urgent", withdrawn=False))
    g.append(dict(qlen=3, positional=True, pos_every=1, draw="1/2", factor="6/5", n_hist=0, drains=0, rekey=None, withdrawn=False))
    base = dict(draw="15/16", factor="6/5", n_hist=0, drains=0, rekey=None, withdrawn=False)
    for qlen in (2, 3, 5):
        # task-switch style inserts that promote the head (position 1), two per round; only position 0
        # (a positional entry at the head while maintenance runs, nothing promoted); a mix
        g.append(dict(base, qlen=qlen, positional=True, pos_every=1, pos_choices=[1], k_choices=[2]))
        g.append(dict(base, qlen=qlen, positional=True, pos_every=1, pos_choices=[0], k_choices=[1]))
        g.append(dict(base, qlen=qlen, positional=True, pos_every=2, pos_choices=[0, 1, 2], k_choices=[1, 2]))
    # a straggler just behind the front with a far less urgent entry also queued (wide priority range)
    for draw in ("15/16", "1/2"):
        g.append(dict(base, draw=draw, qlen=3, positional=False, strag_pri="1", extra_pri="1000"))
        g.append(dict(base, draw=draw, qlen=10, positional=False, strag_pri="1", extra_pri="1000"))
    return g


def run(ctx):
    rng = ctx.rng
    explore(ctx, corpus_cases(), label="corpus: ")
    explore(ctx, [gen_case(rng, ctx.thorough(), fixed=f) for f in grid()], label="grid: ")
    n = 400 if ctx.thorough() else 70
    cases = [gen_case(rng, ctx.thorough()) for _ in range(n)]
    explore(ctx, cases)
    for lines, meta in cases[:2]:
        ctx.sample({"meta": meta, "ops_head": lines[:6], "ops_tail": lines[-6:], "n_ops": len(lines)})


def replay(ctx, data):
    case = data["case"]
    meta = case["meta"]
    if "setup_at" not in meta:
        raise core.InfraError("replay file has no meta")
    explore(ctx, [(case["ops"], meta)], label="replay: ")
