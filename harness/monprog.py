"""Body language shared by C07 (Monitor) and C06 (GeneratorObject): one AST, rendered
  * as tokens for the Lean drivers (Asynkit/Model/MonProg.lean, Drivers/Monitor.lean, Drivers/AsyncGen.lean)
  * as Python source: a coroutine talking to monitors (C07), a native async generator and the
    GeneratorObject variant of the same body (C06).

AST (tuples):
  ("L", n)                    log n
  ("S", t)                    x = await tok(t)           real suspension on token t
  ("O", m, d)                 x = await M[m].oob(d)      (C07)
  ("U", m, op, flavour)       x = await M[m].<op>(child) (C07, parent bodies)  op = ("aw",v)|("at",E)|("ac",)|("st",)|("ta",v,s)
  ("Y", d)                    x = yield d / x = await g.ayield(d)   (C06)
  ("R", E)                    raise E
  ("T", v)                    return v  (0 = None)
  ("TRY", body, [(cls, body)...], fin)
  ("CALL", body)              await nested_coroutine()
Values: small ints, 0 stands for None.
"""
from __future__ import annotations

import asyncio

EXC_TOKENS = ["GE", "CE", "E1", "E2", "BE", "RT", "TE", "SAI", "SI"]
CLS_TOKENS = ["GE", "CE", "E1", "E2", "RT", "OOB", "SAI", "EXC", "BASE"]


class E1(Exception):
    pass


class E1s(E1):
    """subclass of E1: athrow(E1, E1s(...)) must deliver the E1s instance itself"""


class E2(Exception):
    pass


class FE(Exception):
    """an exception whose instances are *falsy* (`not exc` is True): code must test `is None`, not truth"""

    def __bool__(self):
        return False

    def __len__(self):
        return 0


class HookErr(Exception):
    """raised by a user's `firstiter` asyncgen hook in the hook stream"""


class Log(list):
    """body log + the exception objects that entered `except` clauses (for identity checks)"""

    def __init__(self):
        super().__init__()
        self.caught = []

    def seen(self, e):
        self.caught.append(e)


class BE(BaseException):
    pass


def mkexc(tok, OOBData=None):
    if tok.startswith("OOB:"):
        return OOBData(int(tok[4:]))
    return {
        "GE": GeneratorExit, "CE": asyncio.CancelledError, "E1": E1, "E1s": E1s, "E2": E2, "BE": BE,
        "RT": RuntimeError, "TE": TypeError, "SAI": StopAsyncIteration, "SI": StopIteration,
        "KI": KeyboardInterrupt, "SE": SystemExit, "FE": FE,
    }[tok]()


def canon_exc(e):
    n = type(e).__name__
    if n == "OOBData":
        return f"OOBData:{cv(e.data)}"
    if isinstance(e, asyncio.CancelledError):
        return "CancelledError"
    return n


def cv(x):
    """canonical value: None -> 0"""
    if x is None:
        return 0
    if isinstance(x, int):
        return x
    if type(x).__name__ == "_OOBRequest":      # Monitor.oob()'s private request object passing through
        return f"req?:{cv(x.data)}"
    return f"?{type(x).__name__}"


def pv(v):
    return "None" if v == 0 else str(v)


# ------------------------------------------------------------------------------------------
# tokens for the Lean side


EXC_CLASS = {"GE": GeneratorExit, "CE": asyncio.CancelledError, "E1": E1, "E1s": E1s, "E2": E2, "BE": BE,
             "RT": RuntimeError, "TE": TypeError, "KI": KeyboardInterrupt, "SE": SystemExit, "FE": FE}

# forms of athrow(): how (type, value, traceback) are passed.  "+t" appended = with a traceback object.
#   i   athrow(instance)                     c   athrow(Class)
#   ci  athrow(Class, instance of Class)     bi  athrow(Base, instance of a subclass)
#   cv  athrow(Class, 7)                     cn  athrow(Class, None)
#   c0 / cf / ce   athrow(Class, 0) / athrow(Class, 0.0) / athrow(Class, ""): falsy values are values, not "no value"
#   cu  athrow(Class, instance of an unrelated exception class): a value like any other -> Class(instance)
ATHROW_FORMS = ["ci", "bi", "cv", "cn", "ci+t", "bi+t", "cv+t", "cn+t", "i", "c", "c0", "cf", "ce", "c0+t", "cu", "cu+t"]
FALSY_VALUES = {"c0": 0, "cf": 0.0, "ce": ""}


def athrow_effective(op):
    """token of the exception that `coro.throw(type, value, tb)` raises (reference semantics)"""
    if len(op) > 2 and op[2].startswith("bi"):
        return {"E1": "E1s"}.get(op[1], op[1])
    return op[1]


def athrow_args(op, tb=None):
    """(args tuple for athrow, given instance or None, expected type, expected args or None)
    built from CPython's rules for throw(type, value, tb): an instance of `type` (or of a subclass) given
    as value is raised itself; a non-exception value v gives type(v); None gives type()."""
    tok = op[1]
    form = op[2] if len(op) > 2 else "i"
    with_tb = form.endswith("+t")
    form = form.split("+")[0]
    cls = EXC_CLASS[tok]
    tbarg = (tb,) if with_tb else ()
    if form == "i":
        inst = cls("p", 3)
        return (inst,), inst, cls, ("p", 3)
    if form == "c":
        return (cls,), None, cls, ()
    if form == "ci":
        inst = cls("p", 3)
        return (cls, inst) + tbarg, inst, cls, ("p", 3)
    if form == "bi":
        if tok == "E1":
            inst = E1s("p", 3)
            return (E1, inst) + tbarg, inst, E1s, ("p", 3)
        inst = cls("p", 3)
        base = BaseException if not issubclass(cls, Exception) else Exception
        return (base, inst) + tbarg, inst, cls, ("p", 3)
    if form == "cv":
        return (cls, 7) + tbarg, None, cls, (7,)
    if form == "cu":
        # an exception instance that is NOT an instance of `cls` is an ordinary value: cls(instance) is raised
        other = (E1 if tok == "E2" else E2)("u", 5)
        return (cls, other) + tbarg, None, cls, (other,)
    if form in FALSY_VALUES:
        v = FALSY_VALUES[form]
        return (cls, v) + tbarg, None, cls, (v,)
    return (cls, None) + tbarg, None, cls, ()


def make_tb():
    try:
        raise KeyError("tb-origin")
    except KeyError as e:
        return e.__traceback__


def tb_contains(e, tb):
    t = e.__traceback__
    while t is not None:
        if t is tb:
            return True
        t = t.tb_next
    return False


def op_tokens(op):
    if op and op[0] == "at":
        return f"at {athrow_effective(op)}"
    return " ".join(str(x) for x in op)


def inline(prog, keep_od=False):
    """("OD", m, d, t): `p = M[m].oob(d)` is *called*, the body really suspends (`S t`), then `await p`.  Calling
    a coroutine function runs nothing, so the flat equivalent is `S t; O m d` (kept as a node only for the Monitor
    body source).
    ("SUBGEN", inner): the body iterates a second GeneratorObject iterator whose body `inner` yields
    items to that loop (`Y2 w`) and, from that depth, values to the *outer* consumer (`Y d`); the loop re-yields
    every item.  Its flat equivalent — what a native generator / the flat body model runs — is `inner` with
    `Y2 w` replaced by `L 7; Y w`."""
    out = []
    for s in prog:
        k = s[0]
        if k == "SUBGEN":
            for t in s[1]:
                if t[0] == "Y2":
                    out += [("L", 7), ("Y", t[1])]
                else:
                    out.append(t)
        elif k == "OD" and not keep_od:
            out += [("S", s[3]), ("O", s[1], s[2])]
        elif k == "TRY":
            out.append(("TRY", inline(s[1], keep_od), [(c, inline(b, keep_od)) for c, b in s[2]], inline(s[3], keep_od)))
        elif k == "CALL":
            out.append(("CALL", inline(s[1], keep_od)))
        else:
            out.append(s)
    return out


def has_subgen(prog):
    for s in prog:
        if s[0] == "SUBGEN":
            return True
        if s[0] == "CALL" and has_subgen(s[1]):
            return True
        if s[0] == "TRY" and (has_subgen(s[1]) or has_subgen(s[3]) or any(has_subgen(b) for _, b in s[2])):
            return True
    return False


def tokens(prog):
    prog = inline(prog)
    out = []
    for s in prog:
        k = s[0]
        if k in ("L", "S", "T", "R"):
            out.append(f"{k} {s[1]}")
        elif k == "O":
            out.append(f"O {s[1]} {s[2]}")
        elif k == "Y":
            out.append(f"Y {s[1]}")
        elif k == "U":
            out.append(f"U {s[1]} {op_tokens(s[2])}")
        elif k == "CALL":
            out.append(f"CALL ( {tokens(s[1])} )")
        elif k == "TRY":
            t = f"TRY ( {tokens(s[1])} )"
            for cls, b in s[2]:
                t += f" H {cls} ( {tokens(b)} )"
            t += f" FIN ( {tokens(s[3])} )"
            out.append(t)
        else:
            raise ValueError(k)
    return " ".join(out)


# ------------------------------------------------------------------------------------------
# Python source

CLS_PY = {"GE": "GeneratorExit", "CE": "asyncio.CancelledError", "E1": "E1", "E2": "E2",
          "RT": "RuntimeError", "OOB": "OOBData", "SAI": "StopAsyncIteration", "EXC": "Exception",
          "BASE": "BaseException"}


class _Src:
    def __init__(self, mode):
        self.mode = mode      # "mon" | "native" | "goi"
        self.lines = []
        self.n = 0

    def emit(self, ind, text):
        self.lines.append("    " * ind + text)

    def recv(self, ind):
        self.emit(ind, "log.append('r%s' % cv(_x))")

    def block(self, prog, ind, nested):
        if not prog:
            self.emit(ind, "pass")
        for s in prog:
            self.stmt(s, ind, nested)

    def stmt(self, s, ind, nested):
        k = s[0]
        if k == "L":
            self.emit(ind, f"log.append('L{s[1]}')")
        elif k == "S":
            self.emit(ind, f"_x = await tok({s[1]})")
            self.recv(ind)
        elif k == "O":
            self.emit(ind, f"_x = await OOB({s[1]}, {s[2]})")
            self.recv(ind)
        elif k == "OD":
            self.emit(ind, f"_p = OOB.make({s[1]}, {s[2]})")
            self.emit(ind, f"_x = await tok({s[3]})")
            self.recv(ind)
            self.emit(ind, f"_x = await OOB.wait({s[1]}, {s[2]}, _p)")
            self.recv(ind)
        elif k == "Y":
            if self.mode == "native":
                self.emit(ind, f"_x = yield {s[1]}")
            else:
                self.emit(ind, f"_x = await g.ayield({s[1]})")
            self.recv(ind)
        elif k == "U":
            # inline (no helper coroutine frame: PEP 380 would re-raise a thrown GeneratorExit there)
            self.emit(ind, f"SUB.drv({s[1]}, {s[2]!r})")
            self.emit(ind, "try:")
            self.emit(ind + 1, f"_x = await SUB.mk({s[1]}, {s[2]!r}, {s[3]!r})")
            self.emit(ind, "except BaseException as _e:")
            self.emit(ind + 1, f"SUB.exc({s[1]}, _e)")
            self.emit(ind + 1, "raise")
            self.emit(ind, f"SUB.ret({s[1]}, _x)")
            self.recv(ind)
        elif k == "R":
            self.emit(ind, f"raise mkexc({s[1]!r})")
        elif k == "T":
            if self.mode == "native" and not nested:
                self.emit(ind, "return")
            elif self.mode == "mon" and not nested:
                self.emit(ind, f"_r[:] = ['ret', {pv(s[1])}]")
                self.emit(ind, f"return {pv(s[1])}")
            else:
                self.emit(ind, f"return {pv(s[1])}")
        elif k == "CALL":
            if self.mode == "native" and has_yield(s[1]):
                # a native generator cannot yield from a nested coroutine: inline (no `return` inside)
                self.block(s[1], ind, nested)
            else:
                self.n += 1
                name = f"_f{self.n}"
                self.emit(ind, f"async def {name}():")
                self.emit(ind + 1, "_x = None")
                self.block(s[1], ind + 1, True)
                self.emit(ind, f"await {name}()")
        elif k == "SUBGEN":
            if self.mode != "goi":
                raise ValueError("SUBGEN must be inlined for this mode")
            self.n += 1
            n = self.n
            self.emit(ind, f"async def _sub{n}(_g2):")
            self.emit(ind + 1, "_x = None")
            for t in s[1]:
                if t[0] == "Y2":
                    self.emit(ind + 1, f"_x = await _g2.ayield({t[1]})")
                else:
                    self.stmt(t, ind + 1, True)
            self.emit(ind, f"_g2_{n} = GeneratorObject()")
            self.emit(ind, f"_it_{n} = _g2_{n}(_sub{n}(_g2_{n}))")
            self.emit(ind, "KEEP.append(_it_%d)" % n)
            self.emit(ind, f"async for _y in _it_{n}:")
            self.emit(ind + 1, "log.append('L7')")
            self.emit(ind + 1, "_x = await g.ayield(_y)")
            self.recv(ind + 1)
        elif k == "TRY":
            self.emit(ind, "try:")
            self.block(s[1], ind + 1, nested)
            for cls, b in s[2]:
                self.emit(ind, f"except {CLS_PY[cls]} as _e:")
                self.emit(ind + 1, "log.append('h' + canon_exc(_e))")
                self.emit(ind + 1, "log.seen(_e)")
                self.block(b, ind + 1, nested)
            self.emit(ind, "finally:")
            self.block(s[3], ind + 1, nested)
        else:
            raise ValueError(k)


def has_yield(prog):
    prog = inline(prog)
    for s in prog:
        if s[0] == "Y":
            return True
        if s[0] == "CALL" and has_yield(s[1]):
            return True
        if s[0] == "TRY" and (has_yield(s[1]) or has_yield(s[3]) or any(has_yield(b) for _, b in s[2])):
            return True
    return False


def source(prog, mode, name="body"):
    """mode 'mon'   : async def body(M, child, log, tok, OOB, SUB)   (coroutine)
       mode 'native': async def body(log, tok)                       (async generator)
       mode 'goi'   : async def body(g, log, tok)                    (coroutine for GeneratorObject)"""
    if mode != "goi":
        prog = inline(prog, keep_od=(mode == "mon"))
    src = _Src(mode)
    args = {"mon": "M, child, log, tok, OOB, SUB, FIN", "native": "log, tok", "goi": "g, log, tok"}[mode]
    src.emit(0, f"async def {name}({args}):")
    src.emit(1, "_x = None")
    if mode == "mon":
        # same frame (an extra `await` frame would turn a thrown GeneratorExit into close()):
        # report the body's own outcome to the oracle log
        src.emit(1, "_r = ['ret', None]")
        src.emit(1, "try:")
        src.emit(2, "try:")
        src.block(prog, 3, False)
        src.emit(3, "_r[:] = ['ret', None]")
        src.emit(2, "except BaseException as _e:")
        src.emit(3, "_r[:] = ['exc', _e]")
        src.emit(3, "raise")
        src.emit(1, "finally:")
        src.emit(2, "FIN(_r)")
    else:
        src.block(prog, 1, False)
    if mode == "native" and not has_yield(prog):
        src.emit(1, "if False: yield")
    return "\n".join(src.lines) + "\n"


_cache: dict = {}
KEEP: list = []      # inner iterators of SUBGEN bodies: kept alive until the case is over


def compile_body(prog, mode, extra=None):
    key = (repr(prog), mode)
    fn = _cache.get(key)
    if fn is None:
        ns = {"asyncio": asyncio, "E1": E1, "E1s": E1s, "E2": E2, "FE": FE, "cv": cv, "canon_exc": canon_exc, "KEEP": KEEP}
        ns.update(extra or {})
        oob_cls = ns.get("OOBData")
        ns["mkexc"] = lambda t: mkexc(t, oob_cls)
        exec(compile(source(prog, mode), f"<prog-{mode}>", "exec"), ns)
        fn = ns["body"]
        if len(_cache) > 20000:
            _cache.clear()
        _cache[key] = fn
    return fn
