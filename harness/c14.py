"""C14 — Conditions: lock held on every exit from wait(), ordered notify, none lost."""
from __future__ import annotations

import json

from . import core
from .c14_run import Runner

PROP = "C14"
LEAN_TARGETS = ["Asynkit.Props.C14", "Asynkit.Lemmas.GenEqC14", "Asynkit.Lemmas.GenEqC14Std",
                "Asynkit.Lemmas.GenEqContextlib"]
PROPS_FILES = ["Asynkit/Props/C14.lean", "Asynkit/Lemmas/GenEqC14.lean", "Asynkit/Lemmas/GenEqC14Std.lean",
               "Asynkit/Lemmas/C14StdLock.lean",
               "Asynkit/Lemmas/GenEqContextlib.lean"]
DRIVERS = ["Cond"]
TRUSTED = [
    'Lean 4.33 kernel; axioms ⊆ {propext, Classical.choice, Quot.sound} (audited per theorem each run)',
    'translated, not trusted: PriorityCondition._notify/notify/wait (with priority._released inlined: entry, '
    'wake, re-acquire raising, finish with the _notify(1) hand-over) and InterruptCondition.wait are '
    're-translated from the source on every run (translator/cond2lean.py over the symbolic executor segexec.py ->'
    ' Gen/Cond.lean) and proved equal to the waitStart/wake/acqExc/finish/notify transitions of '
    'Asynkit/Model/Cond.lean (Lemmas/GenEqC14.lean, 19 theorems)',
    "translated, not trusted (stdlib): asyncio.Lock.acquire/release/_wake_up_first/locked and "
    "asyncio.Condition.notify/notify_all/wait_for are re-translated on every run from the running interpreter's "
    "asyncio/locks.py (translator/asynciolocks2lean.py -> Gen/AsyncioLocks.lean, sha256 + Python version recorded); "
    "Lemmas/GenEqC14Std proves the Condition methods equal to the model's notify (.ic) / notifyAll / wfPred "
    "transitions and Lemmas/C14StdLock proves the Lock a refinement of the abstract lock of Model/Cond.lean "
    "(mutual exclusion, a raising acquire leaves the lock alone, FIFO hand-over)",
    'hand-written: Model/CondPrims.lean (what Future.done/set_result, create_future, the abstract lock, '
    "PriorityQueue.add/remove/ordereditems at the level of C17's reference model, deque.append/remove and "
    'asynccontextmanager mean on the model state); trace acceptance (lean/Drivers/Cond.lean replays every real '
    'event trace of this run) still ties the whole transition system to the code',
    'the underlying lock is abstract in the model: acquire() returns only when the lock is free and makes the '
    'caller the owner; a cancelled/interrupted acquire raises without taking the lock (for PriorityLock this is '
    'property C13; for asyncio.Lock the refinement theorem above).  The harness checks mutual exclusion with a '
    'ghost owner on every run.',
    'modelled, not verified: asyncio Task.cancel/__step/__wakeup delivery (an exception delivered to a suspended '
    'task is raised at its current await when it next runs; Task.cancel on a task blocked on a pending future '
    'cancels that future), asyncio.Future done/cancelled/set_result, collections.deque, '
    'contextlib.asynccontextmanager exit semantics',
    "the waiter queue is modelled at the level of C17's reference model (arrival-ordered list, ordereditems = "
    'stable order by (priority, arrival)); refinement of tools.PriorityQueue to it is property C17 (GenEqPQ)',
]
ASSUMPTIONS = [
    "only CancelledError-derived exceptions are delivered (plain cancel, InterruptException subclasses)",
    "callers of wait()/notify() hold the lock (the code raises RuntimeError otherwise)",
    "the clause 'a notification taken by a cancelled waiter is passed on' is claimed for PriorityCondition "
    "(the sentence's subject); InterruptCondition on Python 3.12 has no such hand-over and none is demanded",
]
RULE = ("a case = (condition/lock combination, 2..5 consumers with priorities and task kinds, concrete environment "
        "script over step/put n/putall/cancel i/throw i/intr i generated online against the live state so that "
        "faults land in chosen phases); non-trivial when the run itself hit at least one of: fault while waiting / "
        "after notification / while blocked re-acquiring, a re-acquire retry, notify(n) with more candidates than "
        "n (order matters), a notified waiter that had a pending throw; distinct = hash of the canonical case JSON")

COMBOS = ["pc-plock", "pc-alock", "ic-alock"]
THEOREMS = {
    "exit-without-lock": "Asynkit.C14.wait_exit_holds_lock",
    "mutual-exclusion": "Asynkit.C14.wait_exit_holds_lock (lock abstraction)",
    "release-by-non-owner": "Asynkit.C14.wait_exit_holds_lock",
    "exception-identity": "Asynkit.C14.exception_identity",
    "stuck-reacquiring": "Asynkit.C14.wait_exit_holds_lock (progress of the re-acquire loop: abstract lock refinement, "
                         "C13 / C14StdLock)",
    "exception-swallowed": "Asynkit.C14.exception_identity (the model's `outcome`: a caught/pending exception is re-raised)",
    "foreign-exception": "Asynkit.C14.exception_identity",
    "notify-order": "Asynkit.C14.notify_order",
    "lost-notification": "Asynkit.C14.notify_not_lost",
    "loop-exception-handler": "Asynkit.C14.wait_exit_holds_lock",
    "crash": "Asynkit.C14.wait_exit_holds_lock",
}


# ---------------------------------------------------------------------------------------
# generation


def gen_case(rng):
    n = rng.randint(2, 5)
    combo = rng.choice(COMBOS)
    cons = []
    for _ in range(n):
        py = rng.random() < 0.5
        cons.append({"pri": 0 if py else rng.choice([-2, -1, 0, 0, 1, 2]), "py": py,
                     "wf": rng.random() < 0.25, "retry": rng.random() < 0.3,
                     "rounds": rng.choice([1, 1, 1, 2, 3])})
    return {"combo": combo, "cons": cons, "env": []}


def make_chooser(rng, length):
    left = [length]
    pending_drain = [False]

    def choose(run):
        if left[0] <= 0:
            return None
        left[0] -= 1
        r = rng.random()
        if pending_drain[0]:
            pending_drain[0] = False
            return ["drain"]
        if r < 0.04:
            return ["drain"]
        if r < 0.42:
            return ["step"]
        if r < 0.58:
            return ["put", rng.choice([1, 1, 2, 2, 3, 6]), rng.choice([0, 1])]
        if r < 0.63:
            return ["putall", rng.randint(1, 4), rng.choice([0, 1])]
        # a fault; prefer consumers inside wait(), spread over the three phases
        live = [t for t in run.state if not run.tasks[t].done()]
        if not live:
            return ["step"]
        byphase = {}
        for t in live:
            ph = run.phase_tag(t)
            if ph:
                byphase.setdefault(ph, []).append(t)
        if byphase and rng.random() < 0.8:
            ph = rng.choice(sorted(byphase))
            t = rng.choice(byphase[ph])
        else:
            t = rng.choice(live)
        if run.phase_tag(t) == "after-notification" and rng.random() < 0.5:
            pending_drain[0] = True     # let the consequences of a fault on a notified waiter play out
        if run.cons[t]["py"]:
            kind = rng.choice(["cancel", "throw", "throw", "intr", "intr"])
        else:
            kind = "cancel"
        if kind == "cancel":
            return ["cancel", t]
        return [kind, t, rng.choice(["I", "T", "S", "F"])]

    return choose


# ---------------------------------------------------------------------------------------


def execute(case, chooser=None):
    """run one case on the real code; returns the Runner (bad = oracle failures)"""
    r = Runner(case, chooser)
    try:
        r.run()
    except core.InfraError:
        raise
    except BaseException as e:  # noqa: BLE001
        if type(e).__name__ != "Violation":
            r.bad.append(("crash", f"{type(e).__name__}: {e}"))
    return r


def fails(case, kind=None):
    r = execute(case)
    return any(kind is None or k == kind for k, _ in r.bad)


def shrink(case, kind):
    env = core.ddmin(case["env"], lambda sub: fails(dict(case, env=sub), kind))
    small = dict(case, env=env)
    # drop wait_for / python-ness when not needed
    for i in range(len(small["cons"])):
        for key, val in (("wf", False),):
            if small["cons"][i].get(key) != val:
                cons = [dict(c) for c in small["cons"]]
                cons[i][key] = val
                if fails(dict(small, cons=cons), kind):
                    small = dict(small, cons=cons)
    return small


def report(ctx, case, r, label=""):
    seen = set()
    cls = "PriorityCondition" if case["combo"].startswith("pc") else "InterruptCondition"
    for kind, detail in r.bad:
        if kind in seen:
            continue
        seen.add(kind)
        key = f"{cls}:{kind}"
        if any(v["key"] == key for v in ctx.violations):
            ctx.violation(key, "", None)          # same defect class again: only counted
            continue
        small = shrink(case, kind)
        r2 = execute(small)
        det = next((d for k, d in r2.bad if k == kind), detail)
        ctx.violation(key, f"{label}{kind}: {det}", small,
                      expected="the property's clause for this oracle (see theorem)", observed=det,
                      theorem=THEOREMS.get(kind, "Asynkit.C14"))


def explore(ctx, runs, label=""):
    """runs: list of (case, Runner).  Oracle verdicts + trace acceptance against the Lean model."""
    lines, spans = [], []
    for case, r in runs:
        text = json.dumps(case, sort_keys=True)
        ctx.case(text, sorted(r.tags))
        if r.bad:
            report(ctx, case, r, label)
        start = len(lines)
        lines.append("reset " + ("pc" if case["combo"].startswith("pc") else "ic"))
        lines.extend(r.trace)
        spans.append((start, len(lines)))
    if not ctx.lean_ok or not runs:
        return
    outs = ctx.lean_driver("Cond", lines)
    if len(outs) != len(lines):
        raise core.InfraError(f"Cond driver returned {len(outs)} lines for {len(lines)}")
    reported = 0
    for (a, b), (case, r) in zip(spans, runs):
        for i in range(a, b):
            ln, out = lines[i], outs[i]
            if ln.startswith("obs "):
                ok = out == "obs " + ln[4:]
            else:
                ok = out == "ok"
            if not ok:
                if reported < 3:
                    ctx.disagreement(f"{label}trace not accepted by the model at `{ln}`",
                                     {"case": case, "trace": lines[a:i + 1][-12:]},
                                     expected=out, observed=ln, theorem="trace acceptance Drivers/Cond")
                reported += 1
                break
        else:
            ctx.traces += 1


def corpus_cases():
    d = core.ROOT / "corpus" / PROP
    out = []
    if d.exists():
        for f in sorted(d.glob("*.json")):
            out.append(json.loads(f.read_text()))
    return out


def systematic_cases():
    """every arrival order of 3 and of 4 distinct priorities (so that the heap array of the waiter queue is
    unsorted in most of them), all waiters PriorityTasks, on each class/lock combination; then notify_all,
    an over-long notify(n), and notify(2)"""
    import itertools
    for combo in COMBOS:
        for pris in list(itertools.permutations([1, 2, 3])) + list(itertools.permutations([-1, 0, 1, 2]))[::3]:
            cons = [{"pri": p, "py": False, "wf": False, "retry": False, "rounds": 1} for p in pris]
            for op in (["putall", len(pris), 0], ["put", len(pris) + 2, 1], ["put", 2, 0]):
                yield {"combo": combo, "cons": cons, "env": [["drain"], op, ["drain"]]}


def directed_chooser(intents):
    """script of *intents* resolved online against the live state (deterministic): ("op", [...]) a concrete op;
    ("until", phase, limit) = `step` until some consumer is in that phase; ("fault", kind, phase, cls) = that fault on
    the lowest-numbered consumer currently in that phase (for throw/intr: a Python task)"""
    todo = list(intents)
    budget = [0]

    def choose(run):
        while todo:
            it = todo[0]
            if it[0] == "op":
                todo.pop(0)
                return list(it[1])
            if it[0] == "until":
                hit = any(run.phase_tag(t) == it[1] for t in run.state if not run.tasks[t].done())
                budget[0] += 1
                if hit or budget[0] > it[2]:
                    todo.pop(0)
                    budget[0] = 0
                    continue
                return ["step"]
            if it[0] == "fault":
                todo.pop(0)
                kind, phase, cls = it[1], it[2], it[3]
                cands = [t for t in sorted(run.state) if not run.tasks[t].done() and run.phase_tag(t) == phase
                         and (kind == "cancel" or run.cons[t]["py"])]
                if not cands:
                    continue
                return ["cancel", cands[0]] if kind == "cancel" else [kind, cands[0], cls]
            raise ValueError(it)
        return None
    return choose


def directed_cases():
    """the deterministic grid: one or two fixed instances of every directed situation, on every run whatever the
    seed (besides `systematic_cases`: notify order / notify_all over every lock kind).  -> (case, chooser | None)"""
    py3 = [{"pri": 0, "py": True, "wf": False, "retry": False, "rounds": 1} for _ in range(3)]
    mixed = [{"pri": 1, "py": False, "wf": False, "retry": False, "rounds": 1},
             {"pri": 0, "py": True, "wf": False, "retry": False, "rounds": 1},
             {"pri": -1, "py": False, "wf": True, "retry": False, "rounds": 1},
             {"pri": 0, "py": True, "wf": True, "retry": False, "rounds": 1}]
    for combo in COMBOS:
        for cons in (py3, mixed):
            base = {"combo": combo, "cons": cons, "env": []}
            for kind, cls in (("cancel", "I"), ("throw", "I"), ("intr", "T"), ("throw", "F"), ("intr", "F")):
                # a fault while queued to re-acquire (the producer holds the lock across an await)
                yield dict(base), [("op", ["drain"]), ("op", ["put", 2, 1]), ("until", "while-reacquiring", 12),
                                   ("fault", kind, "while-reacquiring", cls), ("op", ["drain"])]
                # a notified waiter faulted before it resumes: the notification must be passed on
                yield dict(base), [("op", ["drain"]), ("op", ["put", 1, 1]), ("until", "after-notification", 12),
                                   ("fault", kind, "after-notification", cls), ("op", ["drain"]),
                                   ("op", ["put", 1, 0]), ("op", ["drain"])]
                # a fault while waiting, un-notified
                yield dict(base), [("op", ["drain"]), ("fault", kind, "while-waiting", cls), ("op", ["drain"]),
                                   ("op", ["put", 2, 0]), ("op", ["drain"])]
            # double fault: one while waiting / after notification, a second one while re-acquiring
            for k1, k2, c1, c2 in (("throw", "cancel", "I", "I"), ("cancel", "throw", "I", "T"), ("intr", "throw", "T", "F")):
                yield dict(base), [("op", ["drain"]), ("op", ["put", 2, 1]), ("until", "after-notification", 12),
                                   ("fault", k1, "after-notification", c1), ("until", "while-reacquiring", 12),
                                   ("fault", k2, "while-reacquiring", c2), ("op", ["step"]),
                                   ("fault", k2, "while-reacquiring", c2), ("op", ["drain"])]
    # wait_for with a priority change while inside it: both waiters are woken without a token and wait again; the
    # next notify(1) must go by the priorities they had when they began *that* wait
    for combo in ("pc-plock", "pc-alock"):
        for p_new, other in ((-2, 0), (3, 1)):
            cons = [{"pri": 2 if p_new < 0 else -1, "py": False, "wf": True, "retry": False, "rounds": 1},
                    {"pri": other, "py": False, "wf": False, "retry": False, "rounds": 1}]
            yield {"combo": combo, "cons": cons, "env": [["drain"], ["setpri", 0, p_new], ["poke", 2, 0], ["drain"],
                                                           ["put", 1, 0], ["drain"]]}, None


def run(ctx):
    rng = ctx.rng
    grid = []
    for case, intents in directed_cases():
        if intents is None:
            grid.append((case, execute(case)))
        else:
            r = execute(case, directed_chooser(intents))
            case["env"] = r.recorded
            grid.append((case, r))
    explore(ctx, grid, "directed: ")
    # a fixed block of generated cases that does not depend on VERIF_SEED
    import random as _random
    frng = _random.Random("C14 fixed block")
    fixed = []
    for _ in range(400):
        case = gen_case(frng)
        r = execute(case, make_chooser(frng, frng.randint(8, 45)))
        case["env"] = r.recorded
        fixed.append((case, r))
    explore(ctx, fixed, "fixed block: ")
    runs = [(c, execute(c)) for c in corpus_cases()]
    explore(ctx, runs, "corpus: ")
    explore(ctx, [(c, execute(c)) for c in systematic_cases()], "systematic: ")
    n = 40000 if ctx.thorough() else 3000
    batch = []
    for i in range(n):
        case = gen_case(rng)
        r = execute(case, make_chooser(rng, rng.randint(8, 45)))
        case["env"] = r.recorded
        batch.append((case, r))
        if i < 2:
            ctx.sample({"case": case, "trace_head": r.trace[:12]})
        if len(batch) >= 500:
            explore(ctx, batch)
            batch = []
    explore(ctx, batch)


def replay(ctx, data):
    case = data["case"]
    if "case" in case and "trace" in case:      # a stored disagreement
        case = case["case"]
    explore(ctx, [(case, execute(case))], "replay: ")
