"""C13 — PriorityLock: mutual exclusion and no lost wake-up under cancel/interrupt."""
from __future__ import annotations

import itertools

from . import c13_stepper as S

PROP = "C13"
LEAN_TARGETS = ["Asynkit.Props.C13", "Asynkit.Lemmas.GenEqLock", "Asynkit.Lemmas.GenEqContextlib"]
PROPS_FILES = ["Asynkit/Props/C13.lean", "Asynkit/Lemmas/GenEqLock.lean", "Asynkit/Lemmas/GenEqContextlib.lean"]
DRIVERS = ["Lock"]
TRUSTED = [
    'Lean 4.33 kernel; axioms ⊆ {propext, Classical.choice, Quot.sound} (audited per theorem each run)',
    'translated, not trusted: PriorityTask/PriorityLock effective_priority and propagate_priority (mutually '
    'recursive, with a recursion bound), _take_lock, _wake_up_first, release and the three segments of acquire '
    'are re-translated from priority.py on every run (translator/lock2lean.py -> Gen/Lock.lean) and proved equal '
    'to effT/effL, propT/propL and the acquire/resume/release events of Asynkit/Model/{PrioGraph,Lock}.lean '
    '(Lemmas/GenEqLock.lean, 53 theorems)',
    'hand-written and tied only by trace acceptance through lean/Drivers/Lock.lean (every real trace replayed: '
    'each event enabled, each observation equal): the kernel half of Model/Lock.lean (task stepping, cancel / '
    'throw delivery, Event) and the representation choices of Model/LockPrims.lean (locks, tasks, futures as '
    'indices; weakrefs never die while queued; _waiters None = empty; arrival-order iteration)',
    'asyncio kernel MODELLED NOT VERIFIED: Task.__step/__wakeup, Task.cancel (cancels the awaited future if '
    'pending else _must_cancel), Future callbacks via call_soon, asyncio.Event, task_throw/task_interrupt on '
    "Python tasks as 'replace the task's wake-up by a step with an exception'; the ready queue is an unordered "
    'set in the model (any runnable task may run next)',
    'the waiter queue pops in (key, arrival) order (that is property C17)',
]
ASSUMPTIONS = [
    "workers release what they acquire (`async with`); a task does not re-acquire a lock it holds",
    "task_throw / task_interrupt target Python tasks only (C tasks with a plain __step cannot be interrupted, "
    "by design of asynkit); exceptions thrown are CancelledError, a CancelledError subclass, an Exception and "
    "a BaseException subclass (not KeyboardInterrupt/SystemExit, which asyncio re-raises out of the loop)",
]
RULE = ("case = (loop kind, 1..2 locks, 0..2 events, 2..5 workers of kind PriorityTask / Python task / plain "
        "Task with scripts over {acquire k (async with), release, sleep(0), wait event}, environment actions "
        "cancel/task_throw/task_interrupt/set placed by handle count); corpus first, then random; thorough adds "
        "a bounded-exhaustive sweep of fault placements for small worker sets; a few % of the cases are directed: long waiter queues (9..12 / 17..25 waiters) with arrivals and cancels around a release, a user priority() that raises once inside acquire, duck-typed task classes, eagerly started acquires (oracles only).  Non-trivial = the run itself "
        "reached at least one of: fault delivered while waiting / woken-not-run / holding, a refused throw, a "
        "hand-over caused by a waiter giving up, a contended hand-over.  distinct = hash of the canonical case.  The corpus and a fixed grid of directed cases (a few "
        "instances per directed generator kind, private generator with a constant seed) run first on every run")

KINDS = {
    "mutual-exclusion": "at most one worker inside a PriorityLock",
    "locked-mismatch": "lock.locked() == (one worker inside)",
    "lost-wakeup": "a free lock with queued waiters has a wake-up in flight; all workers finish once faults stop",
    "spurious-exception": "a worker that was never cancelled or interrupted gets the lock (no exception)",
    "unclean-quiescence": "at quiescence: no owner, no waiters, no task records a held or awaited lock",
    "loop-error": "no exception escapes to the event loop",
    "holding-mismatch": "_holding_locks / _waiting_on equal the locks the task is inside / waits for",
    "bad-release": "release() by a task that does not hold the lock is refused and changes nothing",
    "dead-entry": "every entry of a lock's wait queue belongs to a task that is suspended in that acquire()",
    "double-wakeup": "at most one waiter of a lock has been woken and not yet run",
    "owner-mismatch": "the task a lock records as its holder is the task that acquired it and is inside",
}
THEOREM = {
    "mutual-exclusion": "Asynkit.C13.mutual_exclusion",
    "locked-mismatch": "Asynkit.C13.locked_iff_owner",
    "lost-wakeup": "Asynkit.C13.wake_in_flight",
    "spurious-exception": "Asynkit.C13.woken_waiter_finds_lock_free",
    "unclean-quiescence": "Asynkit.C13.quiescent_clean",
    "holding-mismatch": "Asynkit.C13.holding_waiting_consistent",
    "bad-release": "Asynkit.C13.refused_release_changes_nothing",
    "dead-entry": "Asynkit.C13.holding_waiting_consistent",
    "double-wakeup": "Asynkit.C13.lock_inv",
    "owner-mismatch": "Asynkit.C13.owner_iff_owns",
}
NONTRIVIAL = {"fault-while-waiting", "fault-woken-not-run", "fault-while-holding", "throw-refused",
              "handover-by-giveup", "handover-contended", "release-by-non-holder-while-held",
              "ready-entry-made-positional-woken-lock-waiter", "acquire-raises-on-lock-order-cycle", "bystander-acquire-raises-while-cycle-exists",
              "acquire-raises-from-user-priority-callback", "long-queue-with-wakeup-in-flight",
              "contended-acquire-started-eagerly", "duck-typed-priority-task"}


def exhaustive(maxn):
    """Every placement of one or two faults (cancel / throw code 2) over a fixed 3-worker, 1-lock
    program that has a holder sleeping inside and two queued waiters of different urgency."""
    base = {"loop": "stock", "nlocks": 1, "nevents": 0, "workers": [
        {"kind": "P", "pri": "0", "script": [["acq", 0], ["sleep"], ["sleep"], ["rel"]]},
        {"kind": "Y", "pri": "0", "script": [["acq", 0], ["sleep"], ["rel"]]},
        {"kind": "P", "pri": "-1", "script": [["sleep"], ["acq", 0], ["rel"]]},
        {"kind": "Y", "pri": "0", "script": [["acq", 0], ["rel"]]},
    ]}
    acts = []
    for i in range(4):
        acts.append(("cancel", i))
        if base["workers"][i]["kind"] == "Y":
            acts.append(("throw", i, 2))
            acts.append(("interrupt", i, 1, True))
    singles = [[n] + list(a) for n in range(1, maxn) for a in acts]
    for loop in ("stock", "prio"):
        for a in singles:
            yield dict(base, loop=loop, env=[a])
        for a, b in itertools.combinations(singles, 2):
            if a[0] <= b[0] and a[2] != b[2]:
                yield dict(base, loop=loop, env=[a, b])


def run(ctx):
    rng = ctx.rng
    S.explore(ctx, S.corpus_cases(PROP) + S.grid_cases(PROP), KINDS, THEOREM, label="corpus/grid: ", nontrivial=NONTRIVIAL)
    n = 30000 if ctx.thorough() else 3000
    def one():
        g = rng.random()
        if g < 0.03:
            return S.gen_crowd_inflight_case(rng)
        if g < 0.05:
            return S.gen_raising_callback_case(rng)
        if g < 0.07:
            return S.gen_duck_case(rng)
        if g < 0.09:
            return S.gen_eager_case(rng)
        if g < 0.55:
            return S.gen_case(rng, "C13")
        if g < 0.90:
            return S.gen_inflight_case(rng)
        return S.gen_positional_case(rng) if g < 0.95 else S.gen_cycle_case(rng)
    cases = [one() for _ in range(n)]
    runs = S.explore(ctx, cases, KINDS, THEOREM, nontrivial=NONTRIVIAL)
    for c in cases[:2]:
        ctx.sample(c)
    ctx.extra["handovers_observed"] = sum(r.handovers for r in runs)
    if ctx.thorough():
        batch = []
        total = 0
        for c in exhaustive(9):
            batch.append(c)
            if len(batch) >= 1500:
                S.explore(ctx, batch, KINDS, THEOREM, label="exhaustive: ", nontrivial=NONTRIVIAL)
                total += len(batch)
                batch = []
        S.explore(ctx, batch, KINDS, THEOREM, label="exhaustive: ", nontrivial=NONTRIVIAL)
        ctx.extra["exhaustive_fault_placements"] = total + len(batch)


def replay(ctx, data):
    S.explore(ctx, [data["case"]], KINDS, THEOREM, label="replay: ", nontrivial=NONTRIVIAL)
