"""C15 — interrupts reach their target exactly once, immediately, and only it."""
from __future__ import annotations

import json

from . import core
from . import c09
from . import c09_kernel as K

PROP = "C15"
LEAN_TARGETS = ["Asynkit.Props.C15", "Asynkit.Lemmas.GenEqC15", "Asynkit.Lemmas.GenEqKernelStd"]
PROPS_FILES = ["Asynkit/Props/C15.lean", "Asynkit/Lemmas/GenEqC15.lean", "Asynkit/Lemmas/GenEqKernelStd.lean"]
DRIVERS = ["Kernel"]
TRUSTED = c09.TRUSTED + [
    "delivery is judged from the exceptions the worker bodies catch at their await points; for a "
    "never-started coroutine (no body code ever runs) from the task's outcome",
    "a cancel request that reaches the target between task_throw and the target's next step replaces a "
    "non-CancelledError interrupt by CancelledError inside Task.__step (CPython); the oracle and the "
    "theorem count that as 'superseded', a CancelledError-derived interrupt must still arrive",
]
ASSUMPTIONS = c09.ASSUMPTIONS + [
    "sections using stdlib asyncio.Lock are interrupted with CancelledError-derived exceptions only "
    "(the stdlib lock documents losing wake-ups otherwise)",
    "Event / Lock / Queue / shield scenarios are checked by the oracles only (their internal futures are "
    "not part of the recorded traces)",
]
RULE = ("traced cases: as C09 with more throws / interrupts / cancels, 2..4 Python tasks dominate; "
        "oracle-only cases add Event.wait, Lock sections, Queue.get and shielded futures; a case is "
        "non-trivial when the run reached at least one of: accepted throw on a blocked / runnable (woken or "
        "yielded) / never-started task, refusal (done / self / pending cancel), task_interrupt whose target ran "
        "next, throw superseded by a later throw or by a cancel, cancel merged into a CancelledError-derived "
        "interrupt, a task interrupted while it is itself inside `await task_interrupt`; distinct = hash of "
        "the case JSON")

C15_KINDS = ("task_throw", "task_interrupt", "interrupt ", "refused interrupt", "superseded interrupt",
             "unknown interrupt", "workers did not finish", "loop exception handler called", "event loop crashed")
EXPECTED = ("accepted throw: target has exactly one handle step(exc), no wake-up registered, _fut_waiter None, "
            "awaited object and other waiters untouched; exc raised in the target exactly once unless "
            "superseded; refused throw changes nothing; task_interrupt: target runs next and the caller "
            "resumes after delivery; no loop exception-handler call; all workers finish")

ENV_W = [("step", 38), ("create", 7), ("newfut", 2), ("setres", 7), ("setexc", 3), ("cancelfut", 3),
         ("addcb", 1), ("cancel", 9), ("cscancel", 4), ("cscb", 1), ("throw", 16), ("nocancel", 3), ("throwcls", 3), ("pause", 2)]
OP_W = [("s", 18), ("w", 24), ("y", 2), ("bad", 1), ("i", 20), ("icls", 2), ("a", 26), ("ret", 1), ("raise", 1)]
INNER_W = [("create", 3), ("newfut", 1), ("setres", 7), ("setexc", 2), ("cancelfut", 3),
           ("cancel", 10), ("cscancel", 3), ("throw", 16), ("nocancel", 2), ("throwcls", 3), ("obs", 3)]


def gen_case(rng):
    """Traced case, C15 weights: swap the tables of the C09 generator."""
    saved = c09.ENV_W, c09.OP_W, c09.INNER_W
    c09.ENV_W, c09.OP_W, c09.INNER_W = ENV_W, OP_W, INNER_W
    try:
        case = c09.gen_case(rng)
    finally:
        c09.ENV_W, c09.OP_W, c09.INNER_W = saved
    # interrupts only reach Python tasks: make most workers Python tasks
    for a in case["script"]:
        if a[0] == "create" and rng.random() < 0.7:
            a[1] = "p"
    case.pop("no_throw_on_blocked_cancel_pending", None)
    return case


def gen_rich_prog(rng, cd_only, depth=0):
    n = rng.randint(1, 5 if depth == 0 else 2)
    prog = []
    for _ in range(n):
        r = rng.random()
        cd = 1 if cd_only else int(rng.random() < 0.5)
        if r < 0.12:
            prog.append(["s"])
        elif r < 0.27:
            prog.append(["w", rng.randrange(4)])
        elif r < 0.31:
            prog.append(["wsh", rng.randrange(4)])
        elif r < 0.35:
            prog.append(["gat", [rng.randrange(4), rng.randrange(4)], int(rng.random() < 0.4)])
        elif r < 0.47:
            prog.append(["ev", rng.randrange(2)])
        elif r < 0.57:
            prog.append(["qget", rng.randrange(2)])
        elif r < 0.70 and depth == 0 and cd_only:
            prog.append(["lock", rng.randrange(2), gen_rich_prog(rng, cd_only, depth + 1)])
        elif r < 0.84:
            prog.append(["i", rng.randrange(5), cd])
        else:
            k = rng.choice(["throw", "cancel", "evset", "qput", "setres", "throw"])
            if k == "throw":
                prog.append(["a", ["throw", rng.randrange(5), cd]])
            else:
                prog.append(["a", [k, rng.randrange(5)]])
    return prog


def gen_rich_case(rng):
    cfg = rng.choice(["stock", "sched", "prio"])
    cd_only = rng.random() < 0.5     # cases with lock sections use CancelledError-derived interrupts only
    script = [["newfut"], ["newfut"]]
    for _ in range(rng.randint(2, 4)):
        script.append(["create", "p", gen_rich_prog(rng, cd_only), rng.choice(["all", "all", "intr", "none"])])
    script.append(["resume"])
    for _ in range(rng.randint(6, 40)):
        r = rng.random()
        cd = 1 if cd_only else int(rng.random() < 0.5)
        if r < 0.5:
            script.append(["step"])
        elif r < 0.68:
            script.append(["throw", rng.randrange(5), cd])
        elif r < 0.76:
            script.append(["cancel", rng.randrange(5)])
        elif r < 0.82:
            script.append(["evset", rng.randrange(2)])
        elif r < 0.88:
            script.append(["qput", rng.randrange(2)])
        elif r < 0.94:
            script.append([rng.choice(["setres", "setexc", "cancelfut"]), rng.randrange(4)])
        else:
            script.append(["create", "p", gen_rich_prog(rng, cd_only), rng.choice(["all", "intr", "none"])])
    return {"cfg": cfg, "script": script, "rich": True}


def gen_long_queue_cases(sizes, positions, cfgs=("stock", "sched", "prio")):
    """Deterministic, size-parametrised: a ready queue of n task handles and the target of a throw / interrupt at
    every position `pos` from its tail (1 = last).  Variant A: task_throw from outside the loop on n never-started
    tasks.  Variant B: an agent task (first in the queue) runs `await task_interrupt(target)` while the other n
    handles are queued.  Both alternate the exception class with the position."""
    out = []
    for cfg in cfgs:
        for n in sizes:
            for pos in positions:
                if pos > n:
                    continue
                cd = pos % 2
                # A: throw from outside
                script = [["create", "p", [["s"]], "all"] for _ in range(n)]
                k = len(script)
                script += [["throw", n - pos, cd], ["resume"]] + [["step"]] * 3
                out.append({"cfg": cfg, "script": script, "no_obs_until": k})
                # B: interrupt from a running agent; the agent's own handle is popped, n others are queued
                target = 1 + (n - pos)
                script = [["create", "p", [["i", target, cd], ["s"]], "all"]]
                script += [["create", "p", [["s"]], "all"] for _ in range(n)]
                k = len(script)
                script += [["resume"]] + [["step"]] * 3
                out.append({"cfg": cfg, "script": script, "no_obs_until": k})
    return out


def explore_rich(ctx, cases, label="oracle-only: "):
    return c09.explore_untraced(ctx, cases, kinds=C15_KINDS, label=label, expected=EXPECTED,
                                theorem="Asynkit.C15.throw_exactly_once / interrupt_runs_next")


def explore(ctx, cases, label=""):
    return c09.explore(ctx, cases, kinds=C15_KINDS, theorem="Asynkit.C15.*", label=label, expected=EXPECTED)


def run(ctx):
    rng = ctx.rng
    ctx.set_budget(50 if not ctx.thorough() else 780)
    corpus = c09.corpus_cases(PROP)
    explore(ctx, [c for c in corpus if not c.get("rich")], label="corpus: ")
    explore_rich(ctx, [c for c in corpus if c.get("rich")], label="corpus: ")
    explore(ctx, gen_long_queue_cases(range(17, 41) if ctx.thorough() else (17, 24, 40), range(1, 21),
                                      ("stock", "sched", "prio") if ctx.thorough() else ("stock", "sched")),
            label="long queue: ")
    n = 2500 if ctx.thorough() else 200
    n_rich = 4000 if ctx.thorough() else 250
    batch = 100 if not ctx.thorough() else 500
    done = 0
    while done < n and ctx.time_left() > 20:
        cases = [gen_case(rng) for _ in range(min(batch, n - done))]
        explore(ctx, cases)
        if done == 0:
            ctx.sample(cases[0])
        done += len(cases)
    rdone = 0
    while rdone < n_rich and ctx.time_left() > 5:
        cases = [gen_rich_case(rng) for _ in range(min(batch, n_rich - rdone))]
        explore_rich(ctx, cases)
        if rdone == 0:
            ctx.sample(cases[0])
        rdone += len(cases)
    ctx.extra.pop("_provs", None)
    ctx.extra["traced_cases"] = done
    ctx.extra["oracle_only_cases"] = rdone


def replay(ctx, data):
    case = data["case"]
    if case.get("rich"):
        explore_rich(ctx, [case], label="replay: ")
    else:
        explore(ctx, [case], label="replay: ")
    ctx.extra.pop("_provs", None)
