"""C05 — await_sync completes non-suspending code and never strands a coroutine."""
from __future__ import annotations

import asyncio
import contextvars
import gc

import asynkit
import asynkit.coroutine as ak_coro

from . import core
from . import c02_common as cm

PROP = "C05"
LEAN_TARGETS = ["Asynkit.Props.C05", "Asynkit.Lemmas.GenEqC05"]
PROPS_FILES = ["Asynkit/Props/C05.lean", "Asynkit/Lemmas/GenEqC05.lean"]
DRIVERS = ["Proto"]
TRUSTED = [
    'translated, not trusted: await_sync, syncfunction and aiter_sync are re-translated from coroutine.py on '
    "every run (translator/wrappers2lean.py -> Gen/Wrappers.lean) and proved equal to the model's awaitSync / "
    'aiterSync (Lemmas/GenEqC05.lean, 7 theorems); CoroStart.throw/close/done/result, which they call, by the C01'
    ' unit (GenEqC01/GenEqC01W, audited by the C01 check)',
    'Lean 4.33 kernel; axioms ⊆ {propext, Classical.choice, Quot.sound} (audited per theorem each run)',
    'hand-written: the runtime vocabulary Model/WrapRt.lean (meaning of x.send/throw/close, CoroStart(...) as the'
    " model's CS transformer, async iterators as one Body per __anext__) and Model/Proto.lean; the whole is "
    "additionally run against the code by this run's differential correspondence (lean/Drivers/Proto.lean "
    '`sync`/`aiter` lines)',
    'MODELLED, NOT VERIFIED: CPython coroutine-object envelope, PEP 380/479, asyncio.Future.__await__ setting '
    '`_asyncio_future_blocking` before yielding and refusing a second awaiter while it is set',
    'the blocking-flag functions of Model/Wrappers.lean describe CoroStart as it is after fixes 59f4f3e / 7bda94b'
    " (_start clears a captured future's flag, __await__ and throw() re-arm / clear it)",
]
ASSUMPTIONS = [
    "domain of the property: the body does not swallow SynchronousAbort/GeneratorExit and then suspend again "
    "(NoYieldAfterAbort); theorems awaitSync_excluded_closed / awaitSync_excluded_stranded say what happens otherwise, "
    "and the correspondence covers those programs too",
]
RULE = ("case = body program (random tree over await non-suspending nested calls to depth 3, suspending token / pending "
        "asyncio Future, try/except/finally, return, raise) run through await_sync or syncfunction, or a list of such "
        "programs as the __anext__ bodies of an async iterator run through aiter_sync; oracle = the same program run "
        "natively (under an event loop when it does not suspend; native throw of SynchronousAbort at the suspension point "
        "otherwise), coro_is_finished, __cause__ type, and a later `await` of the blocked-on Future from an ordinary Task; "
        "non-trivial = nested completion (depth>=1), suspension inside try/finally or handler, suspension on a real Future, "
        "clean-up that suspends again while the abort propagates (depth 0..3), abort swallowed (excluded domain), aiter_sync with >=2 items or a suspending __anext__; distinct = hash of the "
        "canonical case line")

SYNC_CATCHES = ["E1", "E2", "Cancelled", "GenExit", "Exception", "BaseException", "SyncAbort"]


def gen_sync(rng):
    p_await = rng.choice([0.0, 0.0, 0.08, 0.2])
    catches = SYNC_CATCHES if rng.random() < 0.35 else ["E1", "E2", "Exception", "Cancelled"]
    return cm.gen_prog(rng, allow_fut=rng.random() < 0.5, catches=catches, p_await=p_await,
                       ctxvars=rng.random() < 0.5)


def depth_of(stmts):
    d = 0
    for s in stmts:
        if s[0] == "call":
            d = max(d, 1 + depth_of(s[1]))
        elif s[0] == "try":
            d = max(d, depth_of(s[1]), depth_of(s[3]), *[depth_of(h) for _, h in s[2]] or [0])
    return d


def depth_at_cleanup(stmts):
    """nesting depth (number of enclosing `call`s) of the deepest finally/handler that awaits"""
    best = -1

    def has_await(ss):
        return any(x[0] in ("tok", "fut", "bare") or (x[0] == "call" and has_await(x[1]))
                   or (x[0] == "try" and (has_await(x[1]) or has_await(x[3]) or any(has_await(h) for _, h in x[2])))
                   for x in ss)

    def walk(ss, d):
        nonlocal best
        for x in ss:
            if x[0] == "call":
                walk(x[1], d + 1)
            elif x[0] == "try":
                if has_await(x[3]) or any(has_await(h) for _, h in x[2]):
                    best = max(best, d)
                walk(x[1], d)
                walk(x[3], d)
                for _, h in x[2]:
                    walk(h, d)
    walk(stmts, 0)
    return max(best, 0)


def gen_cleanup(rng):
    """Bodies whose clean-up suspends again without swallowing the abort: innermost frame
    `try: await X finally: …; await Y; …`, wrapped in 0..3 frames that each have a finally (and now and
    then a handler that re-raises), as in the repo's own `cleanupper` test coroutine."""
    k = [0]

    futs = []

    def aw(reuse_ok=False):
        # only the first await executed after the abort may wait for a Future waited for before: a
        # Future that was yielded *inside* close() keeps its blocking flag (CPython swallows the yield),
        # awaiting it once more is an error of the body, not a subject of this property
        if reuse_ok and futs and rng.random() < 0.5:
            return ("fut", rng.choice(futs))
        k[0] += 1
        if rng.random() < 0.7:
            futs.append(k[0])
            return ("fut", k[0])
        return ("tok", k[0])

    def cleanup(reuse_ok=False):
        out = [("log", 10 + k[0])]
        if rng.random() < 0.85:
            out.append(aw(reuse_ok))
        if rng.random() < 0.3:
            out = [("try", out, [], [("log", 30 + k[0])])]
        out.append(("log", 20 + k[0]))
        return out
    first = [("log", 1), aw(), ("log", 2)]
    with_handler = rng.random() < 0.25
    handler = [("BaseException", [("log", 3), aw(True), ("reraise",)])] if with_handler else []
    inner = [("try", first, handler, cleanup(not with_handler))]
    depth = rng.choice([0, 1, 1, 2, 2, 3])
    body = inner
    for lvl in range(depth):
        fin = cleanup() if rng.random() < 0.5 else [("log", 40 + lvl)]
        hs = [("E1", [("log", 50 + lvl)])] if rng.random() < 0.3 else []
        body = [("try", [("call", body)], hs, fin)]
        if rng.random() < 0.3:
            body = [("cset", 0, lvl + 1)] + body
    return body + [("ret", 5)]


def chain_of(e):
    """explicit chaining of an exception the body raised: type of `__cause__` and `__suppress_context__`"""
    c = e.__cause__
    return f"cause={('x:' + cm.cname(c)) if c is not None else '-'} suppress_context={int(bool(e.__suppress_context__))}"


LAST_CHAIN = [None]


def outcome(fn):
    LAST_CHAIN[0] = None
    try:
        r = fn()
        return f"r:{cm.val(r)}", "-"
    except BaseException as e:  # noqa: BLE001
        # the chaining clause of the property is about SynchronousError only ...
        c = e.__cause__ if isinstance(e, ak_coro.SynchronousError) else None
        # ... the body's own exception must arrive as a native run delivers it
        if not isinstance(e, ak_coro.SynchronousError):
            LAST_CHAIN[0] = chain_of(e)
        return "x:" + cm.cname(e), ("x:" + cm.cname(c)) if c is not None else "-"


def in_ctx(fn, *a):
    """Run in a private copy of the current context (cases must not see each other's ContextVars);
    everything the *caller* of await_sync can observe is read inside it."""
    def start():
        # the base context may have been written by a garbage-collected coroutine's finally block;
        # every run starts from the same values
        for v in cm.CV:
            v.set(0)
        return fn(*a)
    return contextvars.copy_context().run(start)


def run_sync_real(stmts, loop, variant):
    return in_ctx(_run_sync_real, stmts, loop, variant)


def _run_sync_real(stmts, loop, variant):
    """variants: await_sync / syncfunction on a native coroutine; `*_gen`: on a generator-based
    coroutine (`@types.coroutine`) that runs the same body"""
    env = cm.Env(stmts, loop)
    gen = variant.endswith("_gen")
    if variant.startswith("syncfunction"):
        holder = {}

        def factory():
            holder["c"] = env.main()
            return cm.gen_coroutine(holder["c"]) if gen else holder["c"]
        out, cause = outcome(asynkit.syncfunction(factory))
        c = holder["c"]
    else:
        c = env.main()
        g = cm.gen_coroutine(c) if gen else c
        out, cause = outcome(lambda: asynkit.await_sync(g))
    env.chain = LAST_CHAIN[0]
    line = f"out={out} ; cause={cause} ; phase={cm.phase(c)} ; log={env.log()} ; {env.cv_line()}"
    return line, env, c


def native_expect(stmts, loop):
    return in_ctx(_native_expect, stmts, loop)


def _native_expect(stmts, loop):
    """Independent oracle: what a native run does, in the caller's context, with the oracle's own
    abort class (a plain BaseException) thrown at the suspension point.  Returns dict."""
    env = cm.Env(stmts, loop, abort_cls=cm.RefAbort)
    c = env.main()
    try:
        y = c.send(None)
    except StopIteration as e:
        first = ("r", cm.val(e.value))
    except BaseException as e:  # noqa: BLE001
        first = ("x", cm.cname(e))
        first_chain = chain_of(e)
    else:
        first = ("y", y)
        if asyncio.isfuture(y):
            y._asyncio_future_blocking = False      # the receiver's half of the handshake (what a Task does)
    res = {"first": first}
    if first[0] == "x":
        res["chain"] = first_chain
    if first[0] != "y":
        res["cv"] = env.cv_line()
        # completes without suspending: cross-check with a genuine event-loop run
        env2 = cm.Env(stmts, loop, abort_cls=cm.RefAbort)
        try:
            r = loop.run_until_complete(env2.main())
            res["loop"] = f"r:{cm.val(r)}"
        except BaseException as e:  # noqa: BLE001
            res["loop"] = "x:" + cm.cname(e)
        res["out"] = f"{first[0]}:{first[1]}"
        res["log"] = env2.log()
        res["log_direct"] = env.log()
    else:
        n_before = len(env.L)
        try:
            y2 = c.throw(cm.RefAbort())
        except StopIteration:
            res["abort"] = "-"
        except BaseException as e:  # noqa: BLE001
            res["abort"] = "x:" + cm.cname(e)
        else:
            # The body suspended again in response to the abort.  If a handler *caught* the abort
            # on the way (it logs `cSyncAbort`) the case is outside the property's domain.  If only
            # clean-up code (finally blocks) is waiting, the abort is still propagating: the
            # coroutine must nevertheless end up finalized — natively that is what close() does.
            res["abort"] = "yield"
            res["keep2"] = y2
            if asyncio.isfuture(y2):
                y2._asyncio_future_blocking = False
            res["caught"] = "cSyncAbort" in env.L[n_before:]
            if not res["caught"]:
                n_yields = cm.Tok.yields
                try:
                    c.close()
                    res["close"] = "-"
                except RuntimeError as e:
                    res["close"] = "x:" + cm.cname(e)
                except BaseException as e:  # noqa: BLE001
                    res["close"] = "x:" + cm.cname(e)
                # a suspension *inside* close() (GeneratorExit being handled) is swallowed by CPython
                # together with "coroutine ignored GeneratorExit", possibly in a nested frame whose error
                # is then replaced: visible as a token/bare yield counted, or a Future left blocking
                res["yield_in_close"] = cm.Tok.yields != n_yields or any(
                    f._asyncio_future_blocking for f in env.F.values())
                if asynkit.coro_is_finished(c):
                    res["cv"] = env.cv_line()
        res["log"] = env.log()
        res["finished"] = asynkit.coro_is_finished(c)
        if res["abort"] != "yield":
            res["cv"] = env.cv_line()
    res["keep"] = (env, c)
    return res


def check_future_untouched(env, loop, first_is_future=True):
    """Every Future the coroutine was suspended on at some point of the aborted run (the one it blocked
    on first, and any it waited for during its clean-up): pending, no callbacks, and awaitable by an
    ordinary Task.  Returns None or (why, is_first)."""
    first = env.F.order[0] if (env.F.order and first_is_future) else None
    for k, f in list(env.F.items()):
        if f.done():
            return f"future {k} was completed/cancelled by await_sync", f is first
        if f._callbacks:
            return f"future {k} has callbacks left by await_sync", f is first

        async def later(f=f):
            return await f
        t = loop.create_task(later())
        loop.call_soon(f.set_result, 100 + k)
        try:
            r = loop.run_until_complete(asyncio.wait_for(t, 5))
        except BaseException as e:  # noqa: BLE001
            return (f"a later `await` of future {k} from an ordinary Task raised {type(e).__name__}: {e}",
                    f is first)
        if r != 100 + k:
            return f"later await returned {r!r}", f is first
    return None


def judge_sync(stmts, loop, variant="await_sync"):
    tags = set()
    real, env, c = run_sync_real(stmts, loop, variant)
    a = cm.parse_line(real)
    exp = native_expect(stmts, loop)
    bad = None
    if depth_of(stmts) >= 1:
        tags.add(f"nested-depth-{depth_of(stmts)}")
    if "cset" in cm.sexp(stmts):
        tags.add("contextvar-writes")
    if exp["first"][0] == "x" and exp.get("chain", "").startswith("cause=x:"):
        tags.add("body-raises-chained-exception")
    if variant.endswith("_gen"):
        tags.add("generator-based-coroutine")
    futs_used = [x for x in cm.sexp(stmts).replace("(", " ").replace(")", " ").split("fut ")[1:]]
    if len({x.split()[0] for x in futs_used}) < len(futs_used):
        tags.add("same-future-awaited-again")
    if exp["first"][0] == "x" and exp["first"][1] in ("InvalidState", "RT.other", "RT.stopiter", "GenExit"):
        tags.add("body-raises-" + exp["first"][1])
    if exp["first"][0] != "y":
        if exp["loop"] != exp["out"] or exp["log"] != exp["log_direct"]:
            raise core.InfraError(f"oracle inconsistent: {exp}")
        tags.add("completes")
        if a["out"] != exp["out"]:
            bad = ("await_sync result differs from the native run", exp["out"], a["out"])
        elif exp["first"][0] == "x" and env.chain != exp["chain"]:
            bad = ("the coroutine's own exception arrives with another __cause__/__suppress_context__ than in the "
                   "native run", exp["chain"], env.chain)
        elif a["log"] != exp["log"]:
            bad = ("side effects differ from the native run", exp["log"], a["log"])
        elif a["phase"] != "done":
            bad = ("coroutine not finished after completing", "done", a["phase"])
        elif f"cv={a['cv']} ; reset={a['reset']}" != exp["cv"]:
            bad = ("context-variable side effects visible to the caller differ from the native run", exp["cv"],
                   f"cv={a['cv']} ; reset={a['reset']}")
    else:
        y = exp["first"][1]
        on_future = asyncio.isfuture(y)
        tags.add("suspends-on-future" if on_future else "suspends-on-token")
        if "l" in a["log"] or "c" in a["log"]:
            tags.add("suspension-inside-try-or-after-effects")
        if exp["abort"] == "yield" and (exp["caught"] or not exp["finished"] or exp.get("close") == "x:RT.ignoredGE"
                                       or exp.get("yield_in_close")):
            # abort caught by a handler and a new suspension, or clean-up that even ignores
            # GeneratorExit (in the coroutine itself or in a nested frame, which CPython then drops
            # with "coroutine ignored GeneratorExit"): no claim
            tags.add("excluded:abort-swallowed-then-suspended")
        elif exp["abort"] == "yield":
            # clean-up (finally blocks) suspends again while the abort is still propagating:
            # "the coroutine has been finalized - its finally blocks have run and it is finished"
            d = depth_at_cleanup(stmts)
            tags.add("cleanup-suspends-again" + (f"-depth-{min(d, 3)}" if d else ""))
            if a["out"] != "x:SyncError" and not (exp["close"] != "-" and a["out"] == exp["close"]):
                bad = ("suspending coroutine did not give SynchronousError", "x:SyncError", a["out"])
            elif not asynkit.coro_is_finished(c) or a["phase"] != "done":
                bad = ("coroutine left suspended in the middle of its clean-up (not finalized)", "finished",
                       a["phase"])
            elif a["log"] != exp["log"]:
                bad = ("not every finally block has run (effects differ from native abort + close)",
                       exp["log"], a["log"])
            elif f"cv={a['cv']} ; reset={a['reset']}" != exp["cv"]:
                bad = ("context-variable side effects visible to the caller differ from the native run", exp["cv"],
                       f"cv={a['cv']} ; reset={a['reset']}")
            elif env.F:
                why = check_future_untouched(env, loop, first_is_future=on_future)
                if why:
                    bad = (("the awaited Future was not left untouched: " if why[1] else
                            "a Future awaited during clean-up was not left untouched: ") + why[0],
                           "pending, no callbacks, awaitable", why[0])
        else:
            if a["out"] != "x:SyncError":
                bad = ("suspending coroutine did not give SynchronousError", "x:SyncError", a["out"])
            elif a["cause"] != exp["abort"]:
                bad = ("SynchronousError not chained to the abort raised at the suspension point",
                       exp["abort"], a["cause"])
            elif not asynkit.coro_is_finished(c) or a["phase"] != "done":
                bad = ("coroutine left suspended (not finalized)", "finished", a["phase"])
            elif a["log"] != exp["log"]:
                bad = ("finally/handler effects differ from a native abort at the suspension point",
                       exp["log"], a["log"])
            elif f"cv={a['cv']} ; reset={a['reset']}" != exp["cv"]:
                bad = ("context-variable side effects visible to the caller differ from the native run", exp["cv"],
                       f"cv={a['cv']} ; reset={a['reset']}")
            elif on_future:
                why = check_future_untouched(env, loop)
                if why:
                    bad = ("the awaited Future was not left untouched: " + why[0], "pending, no callbacks, awaitable",
                           why[0])
    return real, tags, bad


class AI:
    def __init__(self, subs):
        self.subs, self.i = subs, 0

    def __aiter__(self):
        return self

    async def __anext__(self):
        i = self.i
        self.i += 1
        if i >= len(self.subs):
            raise StopAsyncIteration
        return await self.subs[i]()


def envs_cv_line(envs):
    """caller-visible ContextVars after iterating, then after resetting all tokens newest first"""
    now = f"{cm.CV[0].get()},{cm.CV[1].get()}"
    try:
        for e in reversed(envs):
            for i, t in reversed(e.TOKS):
                cm.CV[i].reset(t)
        after = f"{cm.CV[0].get()},{cm.CV[1].get()}"
    except (ValueError, RuntimeError) as ex:
        after = type(ex).__name__
    return f"cv={now} ; reset={after}"


def run_aiter_real(progs, n, loop):
    return in_ctx(_run_aiter_real, progs, n, loop)


def _run_aiter_real(progs, n, loop):
    envs = [cm.Env(p, loop) for p in progs]
    it = asynkit.aiter_sync(AI([e.main for e in envs]))
    items, end = [], "more"
    for _ in range(n):
        try:
            items.append(cm.val(next(it)))
        except StopIteration:
            end = "stop"
            break
        except BaseException as e:  # noqa: BLE001
            c = e.__cause__ if isinstance(e, ak_coro.SynchronousError) else None
            end = f"x:{cm.cname(e)} cause={('x:' + cm.cname(c)) if c is not None else '-'}"
            break
    return f"items={' '.join(map(str, items)) if items else '-'} ; end={end} ; {envs_cv_line(envs)}", envs


def native_aiter(progs, n, loop):
    return in_ctx(_native_aiter, progs, n, loop)


def _native_aiter(progs, n, loop):
    """Independent oracle.  If no __anext__ suspends: a genuine `async for` under an event loop.
    Otherwise: step each __anext__ body natively up to the first one that suspends; there the
    expected end is SynchronousError chained to the native outcome of the abort (None = outside
    the domain: abort swallowed and suspended again)."""
    suspends = False
    for p in progs:
        e = cm.Env(p, loop, abort_cls=cm.RefAbort)
        c = contextvars.copy_context().run(e.main)
        try:
            contextvars.copy_context().run(c.send, None)
        except BaseException:  # noqa: BLE001
            continue
        suspends = True
        try:
            contextvars.copy_context().run(c.close)
        except BaseException:  # noqa: BLE001
            pass
    if not suspends:
        envs = [cm.Env(p, loop, abort_cls=cm.RefAbort) for p in progs]

        async def iterate():
            items = []
            ai = AI([e.main for e in envs])
            try:
                async for x in ai:
                    items.append(cm.val(x))
                    if len(items) >= n:
                        return items, "more"
            except BaseException as e:  # noqa: BLE001
                return items, f"x:{cm.cname(e)} cause=-"
            return items, "stop"

        async def consume():
            # the Task's context is a copy of ours: read what the consumer can see from inside it
            items, end = await iterate()
            return items, end, envs_cv_line(envs)
        items, end, cv = loop.run_until_complete(consume())
        return f"items={' '.join(map(str, items)) if items else '-'} ; end={end} ; {cv}"
    items, end = [], None
    envs = []
    for i in range(n):
        if i >= len(progs):
            end = "stop"
            break
        e = cm.Env(progs[i], loop, abort_cls=cm.RefAbort)
        envs.append(e)
        c = e.main()
        try:
            c.send(None)
        except StopIteration as ex:
            items.append(cm.val(ex.value))
            continue
        except StopAsyncIteration:
            end = "stop"
            break
        except BaseException as ex:  # noqa: BLE001
            end = f"x:{cm.cname(ex)} cause=-"
            break
        try:
            c.throw(cm.RefAbort())
        except StopIteration:
            end = "x:SyncError cause=-"
        except BaseException as ex:  # noqa: BLE001
            end = f"x:SyncError cause=x:{cm.cname(ex)}"
        else:
            try:
                c.close()
            except BaseException:  # noqa: BLE001
                pass
            return None
        break
    if end is None:
        end = "more"
    return f"items={' '.join(map(str, items)) if items else '-'} ; end={end} ; {envs_cv_line(envs)}"


def gen_aiter(rng):
    k = rng.randint(0, 4)
    progs = []
    for _ in range(k):
        p = cm.gen_prog(rng, budget=[rng.randint(1, 6)], p_await=rng.choice([0.0, 0.0, 0.0, 0.15]),
                        catches=["E1", "E2", "Exception", "Cancelled"], ctxvars=rng.random() < 0.5)
        if rng.random() < 0.7 and not any(s[0] in ("ret", "raise") for s in p):
            p = p + [("ret", rng.choice([1, 2, 3, 4]))]
        progs.append(p)
    return progs, k + 2


def key_of(kind, bad):
    w = bad[0]
    if "FE" in str(bad[1]) and "InvalidState" in str(bad[2]):
        return "c05:await_sync:falsy-exception"       # CoroStart.result() tests the exception with `if not exc:`
    if "during clean-up" in w:
        slug = "cleanup-future-left-blocking"
    elif "Future" in w:
        slug = "future-left-blocking" if "RuntimeError" in str(bad[2]) or "ordinary Task" in w else "future-touched"
    elif "chained" in w:
        slug = "cause"
    elif "left suspended" in w or "finally block" in w:
        slug = "stranded"
    elif "did not give" in w:
        slug = "no-SynchronousError"
    elif "__cause__" in w:
        slug = "exception-chain"
    elif "result differs" in w:
        slug = "result"
    elif "context-variable" in w:
        slug = "contextvars"
    else:
        slug = "effects"
    return f"c05:{kind}:{slug}"


def explore_sync(ctx, cases, loop, label=""):
    lines, reals = [], []
    for n_case, (stmts, variant) in enumerate(cases):
        if n_case % 500 == 0:
            gc.collect()        # see run(): garbage is only finalised here, outside any case's context
        try:
            real, tags, bad = judge_sync(stmts, loop, variant)
        except SyntaxError as e:
            raise core.InfraError(f"generated program does not compile: {e}")
        line = f"sync | {cm.sexp(stmts)}"
        if "completes" in tags:
            ctx.tag("completes")
        ctx.case(line + " #" + variant, sorted(t for t in tags if t != "completes"))
        if bad is not None:
            small = cm.shrink_prog(stmts, lambda p: (judge_sync(p, loop, variant)[2] or ("",))[0] == bad[0])
            b2 = judge_sync(small, loop, variant)[2] or bad
            ctx.violation(key_of(variant.replace("_gen", "") if "context-variable" in b2[0] else ("syncfunction-generator-coroutine" if variant == "syncfunction_gen" and "result differs" in b2[0] else "await_sync"), b2), f"{label}{b2[0]}",
                          {"kind": "sync", "variant": variant, "prog": small, "source": cm.source(small)},
                          expected=b2[1], observed=b2[2],
                          theorem="Asynkit.C05.awaitSync_complete / awaitSync_abort / awaitSync_leaves_awaited")
        lines.append(line)
        reals.append(real)
    return lines, reals


def explore_aiter(ctx, cases, loop, label=""):
    lines, reals = [], []
    for n_case, (progs, n) in enumerate(cases):
        if n_case % 500 == 0:
            gc.collect()
        real, envs = run_aiter_real(progs, n, loop)
        exp = native_aiter(progs, n, loop)
        tags = set()
        a = cm.parse_line(real)
        if len(a["items"].split()) >= 2:
            tags.add("aiter>=2-items")
        if "SyncError" in a["end"]:
            tags.add("aiter-suspending-anext")
        if exp is None:
            tags.add("excluded:abort-swallowed-then-suspended")
        line = "aiter | %d | %s" % (n, " ; ".join(cm.sexp(p) for p in progs) if progs else "")
        ctx.case(line, sorted(tags))
        if exp is not None and real != exp:
            ctx.violation("c05:await_sync:falsy-exception" if ("x:FE" in exp and "x:InvalidState" in real)
                          else "c05:aiter_sync:differs-from-async-for",
                          f"{label}aiter_sync differs from native `async for`",
                          {"kind": "aiter", "progs": progs, "n": n}, expected=exp, observed=real,
                          theorem="Asynkit.C05.aiterSync_eq")
        if progs:
            lines.append(line)
            reals.append(real.split(" ; cv=")[0])     # the model line carries items and end only
    return lines, reals


def correspond(ctx, lines, reals, label=""):
    if not ctx.lean_ok or not lines:
        return
    mouts = ctx.lean_driver("Proto", lines)
    if len(mouts) != len(lines):
        raise core.InfraError(f"driver returned {len(mouts)} lines for {len(lines)}")
    rep = 0
    for ln, r, m in zip(lines, reals, mouts):
        if r != m:
            if rep < 3:
                ctx.disagreement(f"{label}model and implementation differ on `{ln}`", {"line": ln},
                                 expected=m, observed=r, theorem="correspondence Drivers/Proto")
            rep += 1
    ctx.traces += len(lines)


def grid_cases():
    """Deterministic grid, run first on every run whatever the seed (see notes/C05.md)."""
    import random as _random
    progs = [
        [("log", 1), ("ret", 5)],
        [("call", [("call", [("log", 1), ("ret", 7)])]), ("ret", 3)],
        [("raise", "E1")], [("raise", "InvalidState")], [("raise", "FE")], [("raise", "StopIteration")],
        [("raise", "GenExit")], [("raise", "RT.other")],
        [("raisefrom", "E1", "E2")], [("raisefrom", "E2", "None")],
        [("call", [("raisefrom", "BE", "E1")])],
        [("cset", 0, 1), ("cget", 0), ("ret", 2)], [("cset", 1, 3), ("creset", 1), ("cset", 0, 2)],
        [("tok", 1)], [("fut", 1)], [("bare",)],
        [("try", [("fut", 1)], [], [("log", 1)])],
        [("try", [("tok", 1)], [("Cancelled", [("log", 1)])], []), ("ret", 5)],
        [("try", [("tok", 1)], [("Exception", [("log", 1)])], [("log", 2)])],
        [("try", [("fut", 1)], [], [("fut", 2)])],
        [("try", [("fut", 1)], [], [("fut", 1)])],
        [("try", [("fut", 1)], [], [("log", 1), ("tok", 2), ("log", 2)])],
        [("try", [("call", [("try", [("fut", 1)], [], [("log", 1), ("fut", 2), ("log", 2)])])], [], [("log", 3)])],
        [("try", [("call", [("try", [("call", [("try", [("tok", 1)], [], [("fut", 2)])])], [], [("log", 4)])])], [],
          [("log", 5)])],
        [("try", [("tok", 1)], [("BaseException", [("tok", 2)])], [])],
        [("try", [("tok", 1)], [("SyncAbort", [("log", 1)])], []), ("ret", 5)],
        [("try", [("tok", 1)], [("GenExit", [("tok", 2)])], [("tok", 3)])],
        [("cset", 0, 2), ("try", [("fut", 1)], [], [("cset", 1, 4)])],
    ]
    out = []
    for p in progs:
        for variant in ("await_sync", "syncfunction", "syncfunction_gen", "await_sync_gen"):
            out.append((p, variant))
    fixed = _random.Random(20250502)
    out += [(gen_cleanup(fixed), fixed.choice(["await_sync", "syncfunction", "await_sync_gen"])) for _ in range(60)]
    out += [(gen_sync(fixed), fixed.choice(["await_sync", "syncfunction", "syncfunction_gen"])) for _ in range(120)]
    aiters = [([[("ret", 1)], [("call", [("ret", 2)])], [("ret", 3)]], 5),
              ([[("ret", 1)], [("tok", 2)], [("ret", 3)]], 5),
              ([[("ret", 1)], [("raise", "E1")]], 4), ([[("raise", "InvalidState")]], 3),
              ([[("cset", 0, 1), ("ret", 1)], [("cget", 0), ("ret", 2)]], 4),
              ([[("ret", 1)], [("try", [("fut", 1)], [], [("fut", 2)])]], 4), ([], 2),
              ([[("raisefrom", "E1", "E2")]], 2), ([[("raise", "FE")]], 2)]
    aiters += [gen_aiter(fixed) for _ in range(40)]
    return out, aiters


def corpus_cases():
    import json
    from .c02 import _tuplify
    d = core.ROOT / "corpus" / PROP
    out = []
    if d.exists():
        for f in sorted(d.glob("*.json")):
            c = json.loads(f.read_text())
            out.append((_tuplify(c["prog"]), c.get("variant", "await_sync")))
    return out


def run(ctx):
    rng = ctx.rng
    loop = asyncio.new_event_loop()
    asyncio.set_event_loop(loop)
    # The cyclic collector may finalise a suspended coroutine left over from an earlier case at any
    # allocation; its `finally` blocks would then write ContextVars into whichever context is
    # current.  Collection is therefore done explicitly between cases only.
    gc.disable()
    try:
        l0, r0 = explore_sync(ctx, corpus_cases(), loop, label="corpus: ")
        gs, ga = grid_cases()
        lg, rg = explore_sync(ctx, gs, loop, label="grid: ")
        lga, rga = explore_aiter(ctx, ga, loop, label="grid: ")
        l0, r0 = l0 + lg + lga, r0 + rg + rga
        ctx.extra["deterministic_grid_cases"] = len(gs) + len(ga)
        n = 80000 if ctx.thorough() else 3000
        cases = [(gen_cleanup(rng) if i % 10 == 0 else gen_sync(rng),
                  rng.choice(["await_sync"] * 13 + ["syncfunction"] * 3 + ["syncfunction_gen"] * 2 + ["await_sync_gen"] * 2))
                 for i in range(n)]
        l1, r1 = explore_sync(ctx, cases, loop)
        for c in cases[:3]:
            ctx.sample("sync | " + cm.sexp(c[0]))
        acases = [gen_aiter(rng) for _ in range(n // 4)]
        l2, r2 = explore_aiter(ctx, acases, loop)
        correspond(ctx, l0 + l1 + l2, r0 + r1 + r2)
    finally:
        gc.enable()
        asyncio.set_event_loop(None)
        loop.close()


def replay(ctx, data):
    from .c02 import _tuplify
    c = data["case"]
    loop = asyncio.new_event_loop()
    asyncio.set_event_loop(loop)
    try:
        if c.get("kind") == "aiter":
            l, r = explore_aiter(ctx, [([_tuplify(p) for p in c["progs"]], c["n"])], loop, label="replay: ")
        elif "prog" in c:
            l, r = explore_sync(ctx, [(_tuplify(c["prog"]), c.get("variant", "await_sync"))], loop, label="replay: ")
        else:
            raise core.InfraError("replay of a raw correspondence line: re-run ./check C05")
        correspond(ctx, l, r)
    finally:
        asyncio.set_event_loop(None)
        loop.close()
