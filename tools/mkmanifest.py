#!/usr/bin/env python3
"""Regenerates /verif/MANIFEST.json from the table below (kept here so the file is always valid)."""
import json, pathlib
ROOT = pathlib.Path(__file__).resolve().parent.parent
ALL = [f"C{i:02d}" for i in range(1, 21)]

CHECKS = {
 "C17": dict(
   text="Lean 4 proof: for every lawful heapq, every strict-weak-order priority type and every operation history, "
        "tools.PriorityQueue refines the arrival-ordered list specification (pop = least priority, earliest arrival), "
        "keeps the heap invariant, loses/duplicates nothing, and ordered iteration restores the queue on all three "
        "restore branches; PosPriorityQueue insert/reschedule_all refine the positional-prefix list model. The model is "
        "tied to the code on every run by a differential correspondence (same op lines through lean/Drivers/PQ.lean and "
        "the real classes) plus an independent reference-list oracle on the real code.",
   note="Trusted: Lean kernel + {propext, Classical.choice, Quot.sound}; heapq meets its documented contract "
        "(HeapLib.Lawful hypothesis; the executable model transcribes heapq and is compared with the real arrays); "
        "list.sort stable; hand-written model tied only on the explored histories; py2lean translator for __lt__.",
   technique="Lean 4 refinement proof + model/implementation differential correspondence",
   design="6 C17"),
 "C19": dict(
   text="Lean 4 proof about the model of PosPriorityQueue's maintenance machinery: (1) counters_inv - in every state reachable "
        "by any history last_maintenance <= min(n_inserted,n_removed); (2) maintenance_prompt/maintenance_within - from every "
        "such state a sustained pop/append load triggers do_maintenance within max(10,len)+1 rounds, a bound that depends on "
        "the queue length only; (3) boost_safe - a boost only touches regular entries inserted more than a queue length ago "
        "whose base priority is above the most urgent regular priority, makes them more urgent by at most "
        "factor*(base-min), never changes class/arrival (positional entries stay first); (4) boost_overtakes - a draw with "
        "draw*factor>1 puts the straggler ahead of every regular entry. update_counters and compute_priority_boost are "
        "regenerated from the source by the translator on every run and proved equal to the model's; the rest of the model is "
        "tied by differential correspondence (counters, boosts, pop order after each op), plus an independent oracle on the "
        "real queue (pops until the straggler runs as a function of length and history; safety of every boost observed).",
   note="Trusted: Lean kernel + standard axioms; model of do_maintenance/boost_stragglers tied only on explored histories; "
        "Rat vs float compared with 1e-9 relative tolerance; random.random() replaced by a fixed value; heapq contract.",
   technique="Lean 4 invariant + arithmetic proofs, source-to-Lean translation of the counter logic, differential correspondence",
   design="6 C19"),
}

def main():
    checks = []
    for pid in ALL:
        c = CHECKS.get(pid)
        if not c:
            continue
        checks.append({
            "property_id": pid,
            "quick_cmd": f"./check {pid} --tier quick",
            "thorough_cmd": f"./check {pid} --tier thorough",
            "evidence_file": f"evidence/{pid}.json",
            "replay_cmd_template": f"./check {pid} --replay {{path}}",
            "engine": "lean4-proof+correspondence",
            "level_claimed": {"category": c.get("category", "proof"), "text": c["text"],
                              "design_ref": "DESIGN.md §" + c["design"]},
            "level_note": c["note"],
            "technique": c["technique"],
        })
    na = [{"property_id": p, "reason": NA.get(p, "check under construction in this round; not claimed until its proof and correspondence run clean")}
          for p in ALL if p not in CHECKS]
    m = {
        "version": 1,
        "setup_cmd": "cd lean && lake build",
        "hooks": {"guard": "ASYNKIT_VERIF", "enable": "no source hooks: the harness instruments from outside (subclassed loops, wrapped Handle._run, patched random); checks export ASYNKIT_VERIF=1 for uniformity",
                  "baseline_off_cmd": "tools/baseline.py", "source_commits": [], "add_only": True},
        "engines": [{"name": "lean4-proof+correspondence", "path": "check",
                     "serves_properties": [c["property_id"] for c in checks],
                     "kind_free_text": "Lean 4 models + theorems (lean/Asynkit), py2lean translator for the arithmetic core, differential / trace-acceptance correspondence against /repo's working tree, independent property oracles on the real code"}],
        "checks": checks,
        "not_applicable": na,
        "notes": "Single entry point ./check <id> [--tier quick|thorough] [--replay file]; exit 0 held, 1 VIOLATION line printed, 2 infrastructure failure. Fixed defects and open findings: known_findings.json.",
    }
    (ROOT / "MANIFEST.json").write_text(json.dumps(m, indent=1) + "\n")

NA = {}
if __name__ == "__main__":
    main()
