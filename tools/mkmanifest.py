#!/usr/bin/env python3
"""Regenerates /verif/MANIFEST.json from the table below (kept here so the file is always valid)."""
import json, pathlib
ROOT = pathlib.Path(__file__).resolve().parent.parent
ALL = [f"C{i:02d}" for i in range(1, 21)]

CHECKS = {
 "C17": dict(
   text="Lean 4 proof: for every lawful heapq, every strict-weak-order priority type and every operation history, "
        "tools.PriorityQueue refines the arrival-ordered list specification (pop = least priority, earliest arrival), "
        "keeps the heap invariant, loses/duplicates nothing, and ordered iteration restores the queue on all three "
        "restore branches; PosPriorityQueue insert/reschedule_all refine the positional-prefix list model. The model is "
        "tied to the code on every run twice: by translation (see the end of this text) and by a differential "
        "correspondence (same op lines through lean/Drivers/PQ.lean and the real classes, arrays compared), plus an "
        "independent reference-list oracle on the real code.",
   note="Trusted: Lean kernel + {propext, Classical.choice, Quot.sound}; heapq meets its documented contract (HeapLib.Lawful "
        "hypothesis; the executable model transcribes heapq and is compared with the real arrays); list.sort stable; the "
        "translators' reading of Python (Model/PyRt.lean, Model/PosPQRt.lean: lists, for/break/else, aliasing by index, "
        "PriorityValue by value). Both classes are translated (GenEqPQ, GenEqPosPQ, GenEq), so Model/PQ and Model/PosPQ are no "
        "longer trusted as transcriptions; the reference specifications are hand-written.",
   technique="Lean 4 refinement proof + model/implementation differential correspondence",
   design="6 C17"),
 "C19": dict(
   text="Lean 4 proof about the model of PosPriorityQueue's maintenance machinery: (1) counters_inv - in every state reachable "
        "by any history last_maintenance <= min(n_inserted,n_removed); (2) maintenance_prompt/maintenance_within - from every "
        "such state a sustained pop/append load triggers do_maintenance within max(10,len)+1 rounds, a bound that depends on "
        "the queue length only; (3) boost_safe - a boost only touches regular entries inserted more than a queue length ago "
        "whose base priority is above the most urgent regular priority, makes them more urgent by at most "
        "factor*(base-min), never changes class/arrival (positional entries stay first); (4) boost_overtakes - a draw with "
        "draw*factor>1 puts the straggler ahead of every regular entry. The whole class is regenerated from the source by the "
        "translator on every run and proved equal to the model (see the end of this text); in addition a differential "
        "correspondence (counters, boosts, pop order after each op) and an independent oracle on the "
        "real queue (pops until the straggler runs as a function of length and history; safety of every boost observed).",
   note="Trusted: Lean kernel + standard axioms; the translators' reading of Python (Model/PosPQRt.lean, Model/PyRt.lean; the "
        "random draw named by the entry's sequence number); Rat vs float compared with 1e-9 relative tolerance; random.random()"
        " replaced by a fixed value; heapq contract. The whole maintenance machinery is translated (GenEqPosPQ), nothing of it "
        "is tied by correspondence only.",
   technique="Lean 4 invariant + arithmetic proofs, source-to-Lean translation of the counter logic, differential correspondence",
   design="6 C19"),
 "C18": dict(
   text="Lean 4 proof about a two-thread model with a lock (Model/Threads): for every schedule - a thread switch at any "
        "internal point of any queue operation - the queue state equals the sequential application of the committed "
        "operations, every operation of each thread takes effect exactly once and in order, at most one thread is inside an "
        "operation, a blocked thread is waiting for the lock holder, and some thread can always progress (no deadlock); for "
        "the deque loops the helper operations built from atomic identity-addressed primitives are linearisable w.r.t. a "
        "foreign append landing at any boundary, and on the priority queue the compound call_pos (append, remove, insert, each "
        "locked) gives the pop order of one of the two linearisations wherever the foreign append lands "
        "(callPos_priority_linearizable, for every lawful heapq). The model's assumption (every heap access of PosPriorityQueue is under "
        "`with self._lock`; the deque helpers use only atomic primitives) is regenerated from the source by the translator on "
        "every run and checked by `decide`. Tie to the running code: a real second thread calls call_soon_threadsafe while the "
        "loop thread's operation is interrupted at every Python-level boundary (sys.settrace line events incl. every __lt__ "
        "inside heapq); oracle = nothing raised, every callback exactly once, run order a linearisation of the reference list "
        "model; plus a multi-thread stress run with a minimal switch interval. PARTIAL with respect to where the interpreter "
        "really switches threads: no model exhibits the GIL's decisions; they are forced.",
   note="Trusted: Lean kernel + standard axioms; deque primitives and RLock behave as documented (atomic / mutual exclusion); "
        "Model/Threads.lean is hand-written and has no correspondence driver; its lock-coverage assumption is regenerated from "
        "the source and checked by `decide` (GenEqC18, 3 theorems); forced switches stand in for real preemption (partial "
        "w.r.t. the GIL).",
   technique="Lean 4 invariant proof over all schedules + source-derived lock-coverage obligations + forced-interleaving harness",
   design="6 C18"),
 "C02": dict(
   text="Lean 4 proof: every asynkit wrapper (coro_iter, CoroStart.__await__/as_coroutine/coro_await/athrow/aclose, awaitmethod, "
        "awaitmethod_iter, Monitor._asend/aawait without OOB, BoundMonitor) is modelled line by line as a transformer of an "
        "arbitrary inner coroutine object; for every inner object (hence every coroutine body), every driver sequence over "
        "send/throw/close and every stack depth, one step and the whole trace of the wrapper equal those of PEP-380 delegation "
        "(W_step_eq, W_trace_eq, nativeAwait_congr, stack_trace_eq by induction), yielded objects pass through unchanged and a "
        "held Future is re-yielded with its handshake flag set; an erasure lemma (proto_nativeAwait_outs) restates the headline "
        "theorems literally about `Proto.nativeAwait b` for every `b : Body`. Tied to the code by running generated async-def bodies through "
        "the real wrappers, CPython's own `await` (the oracle) and the Lean driver.",
   note="Trusted: Lean kernel + {propext, Quot.sound}; CPython's coroutine-object envelope and PEP 380 (Model/Proto.lean) and "
        "the meaning of x.send/throw/close, CoroStart(...) and a tail `await x` for the generated wrappers (Model/WrapRt.lean) "
        "are modelled, validated against the interpreter by the correspondence stream; contexts and eager are C04/C01.",
   technique="Lean 4 simulation proof (wrapper = native await) + differential correspondence against CPython's await",
   design="6 C02"),
 "C04": dict(
   text="Lean 4 proof over bodies with an environment of ContextVars: for every body, supplied/caller mappings and driver "
        "sequence over send/throw/athrow/aclose/close/sync-throw, every resumption of the coroutine runs with the supplied "
        "mapping current, the caller's mapping is untouched and the supplied Context ends equal to the body's last view "
        "(ctx_every_segment, ctx_caller_noninterference); context=None shares the caller's mapping exactly like a native await "
        "(ctx_none_native, by simulation); eager uses a private copy. Four decide-checked witnesses show the pre-fix code "
        "violated it. Correspondence: generated bodies x driver sequences x {context given, None, eager}; oracle reads the "
        "real ContextVars per segment.",
   note="Trusted: Lean kernel + {propext, Quot.sound}; contextvars.Context.run modelled as swap-in/write-back; the control flow"
        " of Model/Ctx.lean (start_result, relay loop, athrow/aclose/throw/close) is hand-written and tied by correspondence "
        "only - the context selection is translated (GenEqC04); the 'empty Context is falsy' defect is in the translation as "
        "`nonEmpty` but not in the theorems' mappings; nested / shared-context uses are oracle-only.",
   technique="Lean 4 invariant/simulation proof + differential correspondence with real ContextVars",
   design="6 C04"),
 "C05": dict(
   text="Lean 4 proof: await_sync on a body that finishes without yielding returns/raises exactly what native delegation does "
        "with the same inner-resume trace (awaitSync_complete, nested to any depth); if the body yields, SynchronousError is "
        "raised, chained to the outcome of throwing SynchronousAbort at the suspension point, and the coroutine is finished "
        "(awaitSync_abort under the explicit NoYieldAfterAbort predicate, with theorems for the excluded cases); the awaited "
        "object's state and handshake flag are left untouched (awaitSync_leaves_awaited); aiter_sync equals async iteration. "
        "Correspondence and oracle: generated bodies vs native runs, coro_is_finished, __cause__ type, a later await of the "
        "blocked-on Future from an ordinary Task.",
   note="Trusted: Lean kernel + {propext, Quot.sound}; Proto envelope modelled; Model/WrapRt.lean (meaning of the method calls,"
        " async iterables as a Body per __anext__); CoroStart.throw/close by the C01 unit.",
   technique="Lean 4 proof over arbitrary bodies + differential correspondence against native execution",
   design="6 C05"),
 "C11": dict(
   text="Lean 4 proof on the wait-for graph model (Model/PrioGraph): on acyclic (ranked) graphs effective priority is fuel-"
        "independent and equals the minimum own priority over all tasks transitively waiting on locks held "
        "(eff_closed_form), the holder is at least as urgent as every waiter along chains of any length "
        "(holder_at_least_as_urgent), and it falls back when waiters leave (eff_falls_back); on the priority loop every ready key is at most the task's current effective priority in "
        "fault-free executions, so a runnable holder reached through a chain of any length is keyed at least as urgently as "
        "the waiter (inherit_immediate, ready_key_inv). Tie: trace acceptance - "
        "the real PriorityLock/PriorityTask run one ready handle at a time, every event replayed by the Lean lock model; "
        "oracle: an independent wait-for-graph recomputation of every effective priority and the inversion bound on the "
        "priority loop.",
   note="Trusted: Lean kernel + standard axioms; the kernel half of Model/Lock.lean (Task/Future stepping) and the "
        "representation choices of Model/LockPrims.lean are hand-written, tied by trace acceptance; the lock layer itself is "
        "translated (GenEqLock, 53 theorems); acyclicity (fixed lock order) is an explicit hypothesis; boosting switched off in"
        " these runs (C19's business).",
   technique="Lean 4 proof on wait-for graphs + trace acceptance of real executions",
   design="6 C11"),
 "C12": dict(
   text="Lean 4 proof on the lock model: the future set on release/give-up belongs to the (key, arrival)-minimal waiter "
        "(handover_most_urgent), no second hand-over while one is in flight, plain tasks are FIFO, a waiter is never "
        "overtaken by one that was strictly less urgent throughout, re-keying keeps the arrival rank and, in fault-free executions, every queued waiter with a pending "
        "future is keyed by its current effective priority (waiter_key_inv, handover_by_effective_priority). Tie: trace acceptance on both loops; oracle: at each real hand-over the receiver is the "
        "(recomputed effective priority, arrival)-minimal waiter.",
   note="Trusted: Lean kernel + standard axioms; waiter queue modelled as an ordered list (the container is C17's); Task/Future"
        " kernel and Model/LockPrims.lean hand-written, tied by trace acceptance; "
        "release/_wake_up_first/acquire/propagate_priority translated (GenEqLock).",
   technique="Lean 4 invariant proofs on the lock transition system + trace acceptance",
   design="6 C12"),
 "C13": dict(
   text="Lean 4 proof: a 13-clause invariant (lock_inv) holds in every reachable state of the PriorityLock transition system "
        "under every interleaving of worker steps, cancel, task_throw and task_interrupt with any exception, delivered while "
        "waiting, woken-not-run or holding: locked iff owner, at most one holder, holding/waiting_on consistent, and a free "
        "lock with waiters always has a wake-up in flight (wake_in_flight); quiescent states are clean; every run of "
        "drain steps from a reachable state is at most as long as the queue and ends with the lock held or nobody queued "
        "(progress, drain_step_exists; a finite statement, not temporal logic over infinite fair schedules). Tie: "
        "trace acceptance (every real event enabled in the model, observations equal) on the stock and the priority loop; "
        "oracle: holder counter, wake-in-flight after every handle, all workers finish, no exception in a never-faulted worker.",
   note="Trusted: Lean kernel + standard axioms; asyncio Task.__step/__wakeup/cancel, Future, Event and Model/LockPrims.lean "
        "hand-written, tied by trace acceptance; waiters as an ordered list; PriorityLock's own code translated (GenEqLock, 53 "
        "theorems).",
   technique="Lean 4 invariant proof over all interleavings and fault placements + trace acceptance",
   design="6 C13"),
 "C20": dict(
   text="Lean 4 proof by exhaustive finite case analysis (the abstraction kind x phase x on-stack is finite and complete): "
        "for coroutines, generator-based coroutines and async generators exactly one of new/suspended/finished/executing "
        "holds and it is the true one (helpers_exact), every drive history stays inside the table (reachable_phases) and the "
        "helpers track ground truth computed from the history itself (helpers_track_history). Correspondence: real objects of "
        "the three kinds driven through histories (send/throw/close/asend/athrow/aclose, abandoned asend awaitables), "
        "observed before/after every step and from inside the running body.",
   note="Trusted: Lean kernel + {propext, Quot.sound}; the table of attributes CPython 3.12 exposes per kind and phase and the "
        "awaitable rules of genobject.c are hand-written, validated by the correspondence (other interpreter versions show up "
        "as disagreements); Model/PyView.lean (which type has which attribute, AttributeError rules, "
        "opmap['RETURN_GENERATOR']=75) and the transcribed CPython 3.12 inspect functions; the helpers themselves are "
        "translated (GenEqC20).",
   technique="Lean 4 exhaustive case proof + differential correspondence with live coroutine objects",
   design="6 C20"),
 "C01": dict(
   text="Lean 4 proof over a single-coroutine slice of the asyncio kernel (Model/EagerKernel): for every coroutine body, "
        "every initial state of the futures and every sequence of environment events (futures resolved/cancelled at any "
        "instant, another awaiter clearing a future's handshake flag at any instant) the eager run (CoroStart._start in a "
        "copied context, done -> finished future without a Task, else continuation Task) and the plain Task deliver the same "
        "sequence of resumes to the body, end in the same outcome and futures, and never take the kernel's 'yield without "
        "handshake' error branch (eager_equiv_task, eager_no_handshake_error); the prefix runs synchronously and a body "
        "finishing in it (any exception kind incl. BaseException) creates no task (eager_prefix_sync, eager_done_no_task). "
        "decide-checked witnesses show the pre-fix code violated it. Tie: generated bodies compiled to real async-def source, "
        "run on a real loop under both drivers and through the Lean driver; oracle = the plain-Task run.",
   note="Trusted: Lean kernel + {propext, Quot.sound}; Task.__step/__wakeup/cancel and the Future handshake (the asyncio half "
        "of Model/EagerKernel.lean) are hand-written, tied by the correspondence; asynkit's CoroStart/_Continuation/coro_eager "
        "are translated (GenEqC01, GenEqC01W) over a runtime record read as that kernel; custom task factories are covered by "
        "the correspondence only.",
   technique="Lean 4 equivalence proof (eager run = plain Task) + differential correspondence on a real loop",
   design="6 C01"),
 "C03": dict(
   text="Lean 4 proof on the same kernel model with cancel events at every instant: cancelling the awaitable returned by "
        "eager() while the body is suspended - including before the continuation's first step - resumes the body with "
        "CancelledError at its suspension point and cancels the awaited future as Task.cancel does; resume traces and "
        "outcomes equal those of the plain Task cancelled at the corresponding instant (cancel_equiv_task under the explicit "
        "`Delayed` view for the cancel-before-first-step window), and leaving cancelling()/eager_ctx never leaves a started "
        "coroutine suspended (ctx_exit_finishes). decide-checked witnesses for the pre-fix code (body never resumed). Tie and "
        "oracle as for C01 with cancels injected at each instant; coro_is_finished read before any GC.",
   note="Trusted: as C01 (same translation unit). Documented residual of the repair: a cancel issued before the continuation's "
        "first step takes effect at that step; if the awaited object completes in between, a plain Task's cancel could have "
        "been absorbed (covered by `Delayed`; the oracle accepts both orders).",
   technique="Lean 4 equivalence proof under cancellation + differential correspondence with injected cancels",
   design="6 C03"),
 "C06": dict(
   text="Lean 4 proof: the model of GeneratorObjectIterator.asend/_athrow/aclose over the Monitor model (`goi`) and a reference "
        "model of CPython async generators (`nativeAG`) are step- and trace-equivalent for every user generator body and "
        "every consumer sequence over anext/asend/athrow/aclose on new, suspended, running, exhausted and failed generators, "
        "up to the first 'ignored GeneratorExit' (goi_step_eq, goi_trace_eq), from any nesting depth of the await chain "
        "(ayield_any_depth) and through aiter_sync (goi_sync_eq); hypotheses NoOOB/ThrowOk/ResumeOk are explicit predicates "
        "matching the property's exclusions. Three-way correspondence on generated bodies rendered from one AST: real GOI vs "
        "goi model, CPython native vs nativeAG model, real GOI vs CPython native (the oracle).",
   note="Trusted: Lean kernel + standard axioms; CPython's async-generator protocol is modelled (nativeAG) and validated "
        "against the interpreter; Model/MonitorRt.lean (runtime vocabulary of the generated GeneratorObjectIterator code, "
        "asyncgen-hooks environment); two CPython 3.12.1 quirks (asend().close() on a suspended consumer, throw into a "
        "suspended aclose) are excluded and documented in notes/C06.md.",
   technique="Lean 4 bisimulation proof + three-way differential correspondence against native async generators",
   design="6 C06"),
 "C07": dict(
   text="Lean 4 proof: Monitor (oob, _asend, aawait/athrow/aclose/start/try_await, BoundMonitor) modelled line by line; the "
        "driver-visible trace refines an ideal channel with no monitor state for every body and every action list "
        "(oob_exactly_once_in_order), replies and results are delivered (oob_reply, result_delivered), the monitor is idle "
        "after every entry point returns or raises incl. close of the relay generator (idle_after_*), re-entrant use is "
        "refused leaving the whole system state unchanged (reentry_refused), oob while closing is RuntimeError. Nested "
        "monitors: the single end-to-end statement for any nesting depth (nested_monitors, nested_monitors_resume, "
        "nested_monitors_tower) is proved with no hypothesis about GeneratorExit on the repaired relay (fix e5acd69: oob yields "
        "a request addressed to its monitor); the pre-repair defect is kept as a decide'd witness on a frozen copy of the old "
        "model (stale_oob_after_close). Correspondence: generated bodies driven raw, inside a Task and by await_sync, Monitor.state after "
        "every call.",
   note="Trusted: Lean kernel + standard axioms; Proto envelope modelled (Monitor.SCoro); Model/MonitorRt.lean (except-clause "
        "tests, PEP 479, athrow's argument triple without CPython's normalisation); PEP-380 delivery of GeneratorExit through "
        "nested frames modelled in MonProg (generators avoid nested frames that swallow a closing GeneratorExit).",
   technique="Lean 4 trace-refinement proof + differential correspondence",
   design="6 C07"),
 "C08": dict(
   text="Lean 4 proof: deque_pop equals list erase at every valid index and raises exactly outside (dequePop_eq_eraseIdx), "
        "queue_find/queue_remove/call_pos meet their list specifications (deque_pop, queue_find, call_pos are also regenerated from "
        "the source by the translator on every run and proved equal to the model's definitions, GenEqC08); an abstract `ListLike` queue interface is proved "
        "for the deque loops and - for every lawful heapq, any boost factor and any draws under the equal-priority invariant - "
        "for the priority queue (listLike_priority_loop, built on the C17/C19 container theory); the compound operations "
        "sleep_insert, task_reinsert, task_switch, create_task_descend are proved against the list model for every ListLike "
        "queue (caller ends exactly min(p,len) entries from the head, nothing else moves, ValueError changes nothing, each "
        "handle runs once). Correspondence: multi-task programs on the three real loop configurations vs the Lean scheduler "
        "model; oracle: an independent reference list; deque primitives exhaustively for lengths 0..64.",
   note="Trusted: Lean kernel + standard axioms; collections.deque rotate/insert/remove (Model/Deque.lean) and Task stepping / "
        "the program interpreter of Model/Sched.lean are hand-written, tied by correspondence; the synchronous scheduling code "
        "and both containers are translated (GenEqC08, GenEqSched, GenEqPosPQ, GenEqPQ); the RLock around PosPriorityQueue is "
        "C18's subject.",
   technique="Lean 4 refinement proofs (queue = list) + program-level differential correspondence on three loops",
   design="6 C08"),
 "C10": dict(
   text="Lean 4 proof: the popped entry is minimal for (class, key, arrival) in every reachable queue state (popleft_min), "
        "drains are sorted, positional entries come first in their requested order, equal keys are FIFO, rescheduling keeps "
        "the class, every documented priority representation is accepted (priority_domain_total), and with all priorities "
        "equal the priority queue and the plain deque hold the same abstract queue and run the same handles in the same order "
        "after every admissible history with boosting at any factor (equal_pri_like_plain_loop_history, using C19's "
        "maintenance_noop_equal). Correspondence: programs with per-task priorities (ints, floats, Priority members), plain "
        "tasks/callbacks mixed in, priority changes, create_task_descend under PriorityLock contention, histories long "
        "enough for maintenance; oracle: at every resumption the resumed entry vs runnable_tasks() under the stated order, "
        "and log equality with SchedulingSelectorEventLoop for the equal-priority clause.",
   note="Trusted: Lean kernel + standard axioms; asyncio stepping and get_priority/effective_priority evaluation at queueing "
        "time hand-written in Model/Sched (correspondence only); queue and mixin code translated (GenEqPosPQ, GenEqPQ, "
        "GenEqSched); lock owners never wait on another lock in these programs (chains are C11/C12's).",
   technique="Lean 4 order/invariant proofs on the container model + program-level differential correspondence",
   design="6 C10"),
 "C14": dict(
   text="Lean 4 proof on a small-step model of PriorityCondition.wait/_released/_notify, wait_for and InterruptCondition.wait "
        "with any CancelledError-derived exception arriving in any of the three phases, repeatedly: every exit of wait() "
        "happens with the caller owning the lock (wait_exit_holds_lock), the exception that leaves is one that was delivered "
        "(exception_identity), notify(n) wakes the not-yet-notified waiters minimal for (priority at wait start, arrival) "
        "(notify_order*), notifications are conserved (notification_conservation: issued = returned + raised-after-notified + in flight, in every "
        "reachable state; notify_not_lost per exit), and the partial ordereditems walk restores the waiter queue (cond_restore_pq, citing C17). Tie: trace "
        "acceptance of real producer/consumer runs stepped one handle at a time with faults at each phase, over PriorityLock "
        "and asyncio.Lock; oracles: lock owner at every exit, exception identity, tokens vs live waiters, wake order.",
   note="Trusted: Lean kernel + standard axioms; Model/CondPrims.lean (Future, the abstract lock - mutual exclusion assumed: "
        "C13 for PriorityLock, stdlib for asyncio.Lock -, the waiter queue at the level of C17's reference model, "
        "asynccontextmanager); wait/notify code translated (GenEqC14); runs on SelectorEventLoop only; the hand-over clause is "
        "claimed for PriorityCondition (the subject of that sentence).",
   technique="Lean 4 invariant proofs on the condition state machine + trace acceptance under injected faults",
   design="6 C14"),
 "C16": dict(
   text="Lean 4 proof on the task_timeout state machine (per level: active flag, interrupt identity, timer, interruptor with "
        "its retry loop; foreign interrupts; arbitrary unwinding): once a level's block has exited no throw carrying its "
        "interrupt is ever performed (no_interrupt_after_exit), a block still active when its interruptor runs is interrupted "
        "and raises TimeoutError (fires_if_outlives), TimeoutError first appears at exactly the level whose interrupt was "
        "thrown and foreign interrupts pass unchanged (nested_level_exact), task_timeout(None) is the identity. Tie: trace "
        "acceptance under a virtual clock on the three loop classes with every ordering of deadline vs completion incl. exact "
        "ties; oracles on the real code (nobody outlives a deadline, nothing reaches the task after the block, owning level, "
        "awaited tasks not cancelled). PARTIAL with respect to real time and the selector: that the timer fires at the "
        "deadline is asyncio plus the virtual clock, not proved.",
   note="Trusted: Lean kernel + standard axioms; Model/TimeoutPrims.lean (call_later, create_task, task_interrupt "
        "accepted/refused, sleep(0), asynccontextmanager); asyncio timers/_run_once batching through the virtual-clock loops "
        "(partial w.r.t. real time); task_timeout itself translated (GenEqC16); the third-refusal path of the interruptor is "
        "proved but not produced by the generator.",
   technique="Lean 4 invariant proofs on the timeout state machine + virtual-clock trace acceptance",
   design="6 C16"),
 "C09": dict(
   text="Lean 4 proof on a model of the asyncio kernel (futures with callbacks, tasks with _fut_waiter/_must_cancel, ready "
        "handles incl. task-bound callbacks that are not step/wakeup, 15 event kinds incl. cancel in every state, "
        "task_throw/task_interrupt): in every reachable state each not-done, not-running task has exactly one of {one "
        "step/wakeup handle in the ready queue, one wake-up registered on a pending future} (kernel_inv, exactly_one_place), "
        "all_tasks is the disjoint union of runnable, blocked and current in all three calling contexts and the internal "
        "assertions hold (partition), task_is_runnable agrees with ready-queue membership (isRunnable_iff_inReady), the two set "
        "functions never raise (api_total); task_is_blocked/task_is_runnable are regenerated from the source and proved equal "
        "to the kernel model's predicates (GenEqC09). Tie: trace acceptance - real primitives stepped one ready handle at a time on "
        "the three loop configurations with PRNG-chosen environment actions, every event replayed by the Lean kernel; "
        "oracle: the partition identity after every action, from callbacks and from outside the stopped loop.",
   note="Trusted: Lean kernel + standard axioms; asyncio Task.__step/__wakeup/cancel, Future callbacks and call_soon "
        "(Model/Kernel.lean, Model/KernelPrims.lean) are hand-written, validated by trace acceptance; the predicates and "
        "task_throw are translated (GenEqC09, GenEqC15); tasks await plain futures, gather() futures and futures whose cancel()"
        " is refused in recorded traces.",
   technique="Lean 4 invariant proof over all kernel event sequences + trace acceptance",
   design="6 C09"),
 "C15": dict(
   text="Lean 4 proof on the same kernel model: task_throw on a never-started, blocked or woken-not-run Python task leaves "
        "exactly one step handle carrying the exception, no wake-up registered, _fut_waiter cleared (throw_makes_runnable); "
        "the exception is raised in the target at most once and exactly once unless superseded or refused "
        "(throw_exactly_once with ghost accounting); refusals - done, self, and a pending cancellation whether the target is blocked or already woken (fix db5cd3e refuses _must_cancel up front) - change nothing (throw_refused_no_change); the awaited future, "
        "its other callbacks and its later completion are untouched and no kernel error event is reachable "
        "(awaited_untouched, no_kernel_error); await task_interrupt runs the target next (interrupt_runs_next). Tie: trace "
        "acceptance with throws, interrupts, cancels, mutual interruption and races with completion on three loops; oracle: "
        "per-interrupt delivery log, first task to log after task_interrupt, awaited objects, loop exception-handler calls.",
   note="Trusted: as C09; the C-task path of task_throw (c_task_reschedule) is not modelled. A cancel() issued after task_throw"
        " but before the target runs is treated as superseding (asyncio's Task.__step replaces a non-CancelledError by "
        "CancelledError; asynkit has no code on that path); an orphaned shield() future is counted, not judged; stdlib "
        "asyncio.Lock sections use CancelledError-derived interrupts only.",
   technique="Lean 4 invariant proofs with ghost delivery accounting + trace acceptance",
   design="6 C15"),
}

# translation tie (DESIGN §3.3): appended to the level text of the properties whose synchronous code is
# regenerated from the source on every run and proved equal to the model the theorems are about
TRANSLATED = {
 "C17": "Translation tie: every method of tools.PriorityQueue and of PosPriorityQueue/PriorityValue is re-translated from the source "
        "statement by statement on every run (translator/pq2lean.py, pospq2lean.py) and proved equal to Model/PQ and Model/PosPQ for every "
        "heap library, state and argument (Lemmas/GenEqPQ 29 theorems, GenEqPosPQ 41), so the refinement theorems are about what the source says now.",
 "C19": "Translation tie: update_counters, do_maintenance, boost_stragglers, compute_priority_boost, append/append_pri/insert/popleft and the "
        "underlying PriorityQueue methods are re-translated from the source on every run and proved equal to the model (GenEq, GenEqPosPQ, GenEqPQ).",
 "C10": "Translation tie: the ready queue (PosPriorityQueue over PriorityQueue) and PrioritySchedulingMixin.queue_*/call_pos/get_priority/"
        "task_reschedule are re-translated from the source on every run and proved equal to the model (GenEqPosPQ, GenEqPQ, GenEqSched).",
 "C08": "Translation tie (beyond deque_pop/queue_find/call_pos): _task_reinsert, task_reinsert, sleep_insert, task_switch, create_task_descend, "
        "create_task_start up to their suspension point, the ready_* wrappers and the three loop classes' queue methods are re-translated on every "
        "run and proved equal to the model's compound operations (GenEqSched, 18 theorems).",
 "C09": "Translation tie: task_is_blocked/task_is_runnable, task_from_handle/is_task_callback and task_throw are re-translated from the source on every run "
        "and proved equal to the kernel model's predicates and events (GenEqC09, GenEqC15).",
 "C15": "Translation tie: task_throw (Python-task branch), _task_reinsert and the synchronous prefix of task_interrupt are re-translated from the source on "
        "every run (translator/interrupt2lean.py; an error carries the state at the raise) and proved equal to the kernel model's taskThrow/reinsert "
        "events for every state (GenEqC15, 8 theorems); c_task_reschedule (C tasks) is not modelled.",
 "C20": "Translation tie: coro_get_frame, _asyncgen_frame_state, coro_is_new/suspended/finished are re-translated from the source on every run, together with "
        "inspect.get*state from the verbatim CPython 3.12 text, over an object view, and proved equal to the model's helpers on the whole kind x phase table, "
        "every prologue length and frame position (GenEqC20, 11 theorems).",
 "C01": "Translation tie: CoroStart (_start, done, result, as_future, close, throw, __await__ segment by segment), _Continuation.send/throw, coro_eager, "
        "func_eager, eager, eager_ctx and tools.cancelling are re-translated from the source on every run (translator/corostart2lean.py) and proved equal "
        "to the kernel model's eagerRun/contResume and to the protocol model's CoroStart transformer (GenEqC01 15 theorems, GenEqC01W 15).",
 "C03": "Translation tie: _Continuation.throw's cancel-before-first-step decision, CoroStart.__await__'s relay segments and tools.cancelling's exit path are "
        "re-translated from the source on every run and proved equal to the model's contResume / cancelling transitions (GenEqC01: cont_eq, unstarted_eq, "
        "relay_eq, cancelling_eq).",
 "C02": "Translation tie: coro_iter (start/resume segments and the assembled generator object), coro_await, awaitmethod, awaitmethod_iter are re-translated from "
        "the source on every run (translator/wrappers2lean.py) and proved equal to the model's wrapper transformers (GenEqC02, 10 theorems, incl. "
        "coro_iter_obj_transparent); CoroStart itself by GenEqC01W, Monitor.aawait/BoundMonitor by GenEqC07.",
 "C05": "Translation tie: await_sync, syncfunction and aiter_sync are re-translated from the source on every run and proved equal to the model's awaitSync / "
        "aiterSync (GenEqC05, 7 theorems); CoroStart.throw/close (incl. the handshake-flag clearing of fix 7bda94b) by GenEqC01/GenEqC01W.",
 "C06": "Translation tie: GeneratorObject.ayield and GeneratorObjectIterator._first_iter/__del__/__anext__/asend/athrow/aclose/_athrow are re-translated from the "
        "source on every run, entry and resumption segments, and proved equal to the model's goiStart/goiResume/hook transitions (GenEqC06, 22 theorems).",
 "C07": "Translation tie: Monitor.oob, _asend (entry and every resumption of the relay loop by send/throw/GeneratorExit, with its finally), aawait, athrow, aclose, "
        "start, try_await and the six BoundMonitor methods are re-translated from the source on every run (translator/monitor2lean.py) and proved equal to "
        "the model's asendStart/asendResume/callStart/callResume/boundStart/boundResume (GenEqC07, 46 theorems).",
 "C11": "Translation tie: PriorityTask/PriorityLock effective_priority and propagate_priority (mutually recursive, with a recursion bound) and the acquire segments "
        "are re-translated from the source on every run (translator/lock2lean.py) and proved equal to the model's effT/effL, propT/propL and events (GenEqLock, 53 theorems).",
 "C12": "Translation tie: PriorityLock.release, _wake_up_first, _take_lock, propagate_priority and the three acquire segments (incl. the give-up path that re-keys "
        "the owner) are re-translated from the source on every run and proved equal to the model's events in every reachable state (GenEqLock, 53 theorems).",
 "C13": "Translation tie: PriorityLock.acquire (entry, resumed by the future, resumed by any exception incl. the finally clause and the wake-up pass-on), release "
        "(by the owner and refused otherwise), _wake_up_first and _take_lock are re-translated from the source on every run and proved equal to the model's "
        "acquire/resume/release/badRelease events in every reachable state (GenEqLock, 53 theorems).",
 "C14": "Translation tie: PriorityCondition._notify/notify/wait (with _released inlined: entry, wake, re-acquire raising, finish with the _notify(1) hand-over) and "
        "InterruptCondition.wait are re-translated from the source on every run (translator/cond2lean.py over the symbolic executor segexec.py) and proved "
        "equal to the model's waitStart/wake/acqExc/finish/notify transitions (GenEqC14, 19 theorems).",
 "C16": "Translation tie: task_timeout (enter, exit normally, exit by exception = one level of the unwinding with the identity test, trigger_timeout, the six "
        "interruptor segments of the three-try loop) is re-translated from the source on every run (translator/timeout2lean.py) and proved equal to the "
        "model's enter/exitOk/exitOther/fire/istep transitions (GenEqC16, 29 theorems).",
 "C04": "Translation tie: CoroStart._resume and, for each of the eight entry points, whether every coro.send/throw/close goes through it, and coro_eager's "
        "copy_context(), are read off the source on every run and proved equal to the model's context selection (GenEqC04, 5 theorems).",
}

def main():
    checks = []
    for pid in ALL:
        c = CHECKS.get(pid)
        if not c:
            continue
        checks.append({
            "property_id": pid,
            "quick_cmd": f"./check {pid} --tier quick",
            "thorough_cmd": f"./check {pid} --tier thorough",
            "evidence_file": f"evidence/{pid}.json",
            "replay_cmd_template": f"./check {pid} --replay {{path}}",
            "engine": "lean4-proof+correspondence",
            "level_claimed": {"category": c.get("category", "proof"), "text": c["text"] + (" " + TRANSLATED[pid] if pid in TRANSLATED else ""),
                              "design_ref": "DESIGN.md §" + c["design"]},
            "level_note": c["note"],
            "technique": c["technique"],
        })
    na = [{"property_id": p, "reason": NA.get(p, "check under construction in this round; not claimed until its proof and correspondence run clean")}
          for p in ALL if p not in CHECKS]
    m = {
        "version": 1,
        "setup_cmd": "python3 translator/py2lean.py /repo/src lean/Asynkit/Gen && cd lean && lake build",
        "hooks": {"guard": "ASYNKIT_VERIF", "enable": "no source hooks: the harness instruments from outside (subclassed loops, wrapped Handle._run, patched random); checks export ASYNKIT_VERIF=1 for uniformity",
                  "baseline_off_cmd": "tools/baseline.py", "source_commits": [], "add_only": True},
        "engines": [{"name": "lean4-proof+correspondence", "path": "check",
                     "serves_properties": [c["property_id"] for c in checks],
                     "kind_free_text": "Lean 4 models + theorems (lean/Asynkit), translator (translator/*.py) regenerating the synchronous code as Lean definitions proved equal to the models, differential / trace-acceptance correspondence against /repo's working tree, independent property oracles on the real code"}],
        "checks": checks,
        "not_applicable": na,
        "notes": "Single entry point ./check <id> [--tier quick|thorough] [--replay file]; exit 0 held, 1 VIOLATION line printed, 2 infrastructure failure. Fixed defects and open findings: known_findings.json.",
    }
    (ROOT / "MANIFEST.json").write_text(json.dumps(m, indent=1) + "\n")

NA = {}
if __name__ == "__main__":
    main()
