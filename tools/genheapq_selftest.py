#!/usr/bin/env python3
"""Self-validation of the heapq.py tie (notes/GenHeapq.md): harmless rewrites and semantic mutations
of a scratch copy of the interpreter's heapq.py, handed to the translator through
ASYNKIT_HEAPQ_SRC (a testing-only variable; the default is the running interpreter's file);
`lake build Asynkit.Lemmas.GenEqHeapq` must still prove / must break.  `--check` also runs
`./check C17` with the variable set.  The generated file is restored at the end.

usage: tools/genheapq_selftest.py [--check] [--only name,...]        (run with the check's interpreter)
"""
import importlib.util
import os
import re
import subprocess
import sys
import tempfile
from pathlib import Path

ROOT = Path(__file__).resolve().parent.parent
REPO = Path(os.environ.get("GENPQ_BASE_REPO", "/repo"))
ORIGIN = Path(importlib.util.find_spec("heapq").origin)

EDITS = [
    ("H1-floordiv-parent", "harmless", [("parentpos = (pos - 1) >> 1", "parentpos = (pos - 1) // 2")]),
    ("H2-rename-locals", "harmless", [
        ("    newitem = heap[pos]\n    # Follow the path to the root, moving parents down until finding a place\n    # newitem fits.\n"
         "    while pos > startpos:\n        parentpos = (pos - 1) >> 1\n        parent = heap[parentpos]\n        if newitem < parent:\n"
         "            heap[pos] = parent\n            pos = parentpos\n            continue\n        break\n    heap[pos] = newitem\n",
         "    item = heap[pos]\n    while pos > startpos:\n        up = (pos - 1) >> 1\n        above = heap[up]\n        if item < above:\n"
         "            heap[pos] = above\n            pos = up\n            continue\n        break\n    heap[pos] = item\n")]),
    ("H3-siftdown-break-first", "harmless", [
        ("        if newitem < parent:\n            heap[pos] = parent\n            pos = parentpos\n            continue\n        break\n",
         "        if not newitem < parent:\n            break\n        heap[pos] = parent\n        pos = parentpos\n")]),
    ("H4-siftup-arithmetic-forms", "harmless", [
        ("    childpos = 2*pos + 1    # leftmost child position\n", "    childpos = pos * 2 + 1\n"),
        ("        rightpos = childpos + 1\n        if rightpos < endpos and not heap[childpos] < heap[rightpos]:",
         "        rightpos = 1 + childpos\n        if endpos > rightpos and not heap[childpos] < heap[rightpos]:"),
        ("        pos = childpos\n        childpos = 2*pos + 1\n", "        pos = childpos\n        childpos = 2 * childpos + 1\n")]),
    ("H5-heappop-empty-first", "harmless", [
        ("    if heap:\n        returnitem = heap[0]\n        heap[0] = lastelt\n        _siftup(heap, 0)\n        return returnitem\n    return lastelt\n",
         "    if not heap:\n        return lastelt\n    returnitem = heap[0]\n    heap[0] = lastelt\n    _siftup(heap, 0)\n    return returnitem\n")]),
    ("H6-heapify-no-local", "harmless", [
        ("    for i in reversed(range(n//2)):\n        _siftup(x, i)\n", "    for i in reversed(range(len(x) // 2)):\n        _siftup(x, i)\n")]),
    ("H7-siftup-nested-if", "harmless", [
        ("        if rightpos < endpos and not heap[childpos] < heap[rightpos]:\n            childpos = rightpos\n",
         "        if rightpos < endpos:\n            if not heap[childpos] < heap[rightpos]:\n                childpos = rightpos\n")]),
    ("H8-heappush-local-last", "harmless", [
        ("    heap.append(item)\n    _siftdown(heap, 0, len(heap)-1)\n", "    last = len(heap)\n    heap.append(item)\n    _siftdown(heap, 0, last)\n")]),
    # ---- semantic
    ("M01-siftdown-ge-startpos", "semantic", [("    while pos > startpos:\n        parentpos", "    while pos >= startpos:\n        parentpos")]),
    ("M02-parent-index", "semantic", [("parentpos = (pos - 1) >> 1", "parentpos = pos >> 1")]),
    ("M03-siftdown-ties-move", "semantic", [("        if newitem < parent:\n            heap[pos] = parent", "        if not parent < newitem:\n            heap[pos] = parent")]),
    ("M04-siftup-ties-left", "semantic", [("if rightpos < endpos and not heap[childpos] < heap[rightpos]:", "if rightpos < endpos and heap[rightpos] < heap[childpos]:")]),
    ("M05-child-index", "semantic", [("    childpos = 2*pos + 1    # leftmost child position\n", "    childpos = 2*pos + 2\n")]),
    ("M06-siftup-no-final-siftdown", "semantic", [("    heap[pos] = newitem\n    _siftdown(heap, startpos, pos)\n", "    heap[pos] = newitem\n")]),
    ("M07-heappop-no-siftup", "semantic", [("        heap[0] = lastelt\n        _siftup(heap, 0)\n", "        heap[0] = lastelt\n")]),
    ("M08-heapify-forward", "semantic", [("    for i in reversed(range(n//2)):", "    for i in range(n//2):")]),
    ("M09-heapify-one-more", "semantic", [("    for i in reversed(range(n//2)):", "    for i in reversed(range(n//2 + 1)):")]),
    ("M10-heappush-startpos", "semantic", [("    _siftdown(heap, 0, len(heap)-1)\n", "    _siftdown(heap, 1, len(heap)-1)\n")]),
    ("M11-siftup-endpos", "semantic", [("    endpos = len(heap)\n    startpos = pos\n", "    endpos = len(heap) - 1\n    startpos = pos\n")]),
    ("M12-siftdown-no-final-store", "semantic", [("            continue\n        break\n    heap[pos] = newitem\n", "            continue\n        break\n")]),
    ("M13-heappop-returns-last", "semantic", [("        _siftup(heap, 0)\n        return returnitem\n", "        _siftup(heap, 0)\n        return lastelt\n")]),
    ("M14-siftup-right-bound", "semantic", [("if rightpos < endpos and not", "if rightpos <= endpos and not")]),
    ("M15-siftdown-startpos-ignored", "semantic", [("    while pos > startpos:\n        parentpos", "    while pos > 0:\n        parentpos")]),
]


def sh(cmd, cwd=None, env=None):
    p = subprocess.run(cmd, cwd=cwd, env=env, stdout=subprocess.PIPE, stderr=subprocess.STDOUT, text=True)
    return p.returncode, p.stdout


def evaluate(src, run_check):
    env = dict(os.environ, ASYNKIT_HEAPQ_SRC=str(src))
    rc, out = sh([sys.executable, str(ROOT / "translator/py2lean.py"), str(REPO / "src"), str(ROOT / "lean/Asynkit/Gen")], env=env)
    uns = re.findall(r"heapq2lean: UNSUPPORTED (.*)", out) + re.findall(r"CANNOT TRANSLATE \[heapq[^\]]*\]: (.*)", out)
    tr = "ok" if not uns else "UNSUPPORTED " + "; ".join(u[:100] for u in uns)
    rc, out = sh(["lake", "build", "Asynkit.Lemmas.GenEqHeapq"], cwd=ROOT / "lean")
    if rc == 0:
        build = "proves"
    else:
        where = []
        for f, ln in re.findall(r"error: (Asynkit/\S+?):(\d+):", out):
            text = (ROOT / "lean" / f).read_text().split("\n")
            name = next((m.group(1) for i in range(int(ln) - 1, -1, -1)
                         for m in [re.match(r"\s*(?:theorem|def)\s+(\S+)", text[i])] if m), None)
            tag = f"{Path(f).stem}:{name}"
            if tag not in where:
                where.append(tag)
        build = "BREAKS " + ", ".join(where[:4])
    chk = ""
    if run_check:
        with tempfile.TemporaryDirectory() as ev:
            env2 = dict(env, VERIF_EVIDENCE_DIR=ev, VERIF_REPLAYS_DIR=ev)
            rc, out = sh([str(ROOT / "check"), "C17"], cwd=ROOT, env=env2)
            v = [l for l in out.split("\n") if l.startswith("VIOLATION")]
            chk = f"exit {rc}" + (": no-failing-input-found (the proof obligation)" if v and all("no-failing" in x for x in v)
                                  else (f": {len(v)} VIOLATION line(s)" if v else ""))
    return tr, build, chk


def main():
    run_check = "--check" in sys.argv
    only = sys.argv[sys.argv.index("--only") + 1].split(",") if "--only" in sys.argv else None
    base = ORIGIN.read_text()
    rows = []
    cases = list(EDITS)
    other = [p for p in Path("/root/.pyenv/versions").glob("*/lib/python3.*/heapq.py") if p.read_text() != base]
    with tempfile.TemporaryDirectory(prefix="heapq_mut_") as d:
        for name, kind, edits in cases:
            if only and not any(o in name for o in only):
                continue
            t = base
            ok = True
            for old, new in edits:
                if old not in t:
                    print(f"!! {name}: pattern not found: {old[:50]!r}")
                    ok = False
                t = t.replace(old, new)
            if not ok:
                rows.append((name, kind, "edit does not apply", "", ""))
                continue
            f = Path(d) / "heapq.py"
            f.write_text(t)
            rows.append((name, kind) + evaluate(f, run_check))
            print(" | ".join(rows[-1]), flush=True)
        for p in other:
            if only:
                continue
            rows.append((f"heapq.py of {p.parts[4]}", "other interpreter") + evaluate(p, False))
            print(" | ".join(rows[-1]), flush=True)
    sh([sys.executable, str(ROOT / "translator/py2lean.py"), str(REPO / "src"), str(ROOT / "lean/Asynkit/Gen")],
       env={k: v for k, v in os.environ.items() if k != "ASYNKIT_HEAPQ_SRC"})
    sh(["lake", "build", "Asynkit.Lemmas.GenEqHeapq"], cwd=ROOT / "lean")
    print("\n| change | kind | translator | GenEqHeapq | ./check C17 |\n|---|---|---|---|---|")
    for r in rows:
        print("| " + " | ".join(r) + " |")


if __name__ == "__main__":
    main()
