#!/venv/bin/python
"""Run the repository's pinned test suite with the verification guard OFF and compare with
/root/.vp/BASELINE.json: every stable-pass test must still pass.  exit 0 iff so."""
import json, os, subprocess, sys, tempfile
import xml.etree.ElementTree as ET

base = json.load(open("/root/.vp/BASELINE.json"))
env = dict(os.environ)
env.pop("ASYNKIT_VERIF", None)
with tempfile.TemporaryDirectory() as d:
    xml = os.path.join(d, "junit.xml")
    cmd = base["cmd"].replace("<file>", xml)
    subprocess.run(cmd, shell=True, env=env, stdout=subprocess.DEVNULL, stderr=subprocess.DEVNULL)
    root = ET.parse(xml).getroot()
passed = set()
for tc in root.iter("testcase"):
    if not any(ch.tag in ("failure", "error", "skipped") for ch in tc):
        passed.add(f"{tc.get('classname')}::{tc.get('name')}")
missing = [t for t in base["stable_pass"] if t not in passed]
print(f"baseline: {len(base['stable_pass']) - len(missing)}/{len(base['stable_pass'])} stable tests pass; "
      f"{len(passed)} passed in total")
for t in missing[:20]:
    print("  NOT PASSING:", t)
sys.exit(1 if missing else 0)
