#!/usr/bin/env python3
"""Development aid: copy the changes an independent mutation agent left under <dir>/Cxx/out/change_i
into seeded/Cxx-m<k>/ (k continues after the existing ones).  usage: tools/import_mut.py <dir> [Cxx ...]"""
import json, shutil, sys
from pathlib import Path
ROOT = Path(__file__).resolve().parent.parent
src = Path(sys.argv[1])
props = sys.argv[2:] or sorted(p.name for p in src.iterdir() if p.is_dir() and p.name.startswith("C"))
for prop in props:
    out = src / prop / "out"
    if not out.is_dir():
        print(prop, "no out/")
        continue
    existing = [int(p.name.split("-m")[1]) for p in (ROOT / "seeded").glob(f"{prop}-m[0-9]*") if p.name.split("-m")[1].isdigit()]
    k = max(existing, default=0)
    for ch in sorted(out.glob("change_*")):
        if not (ch / "patch.diff").exists():
            print(prop, ch.name, "no patch.diff")
            continue
        k += 1
        dst = ROOT / "seeded" / f"{prop}-m{k}"
        dst.mkdir()
        for f in ("patch.diff", "demo.py", "meta.json"):
            if (ch / f).exists():
                shutil.copy(ch / f, dst / f)
        try:
            meta = json.loads((dst / "meta.json").read_text())
        except Exception:
            meta = {}
        meta["property"] = prop
        meta["origin"] = f"independent sub-agent, wave 2 ({ch.name}); saw only the property text and a scratch worktree"
        (dst / "meta.json").write_text(json.dumps(meta, indent=1) + "\n")
        print("imported", dst.name)
