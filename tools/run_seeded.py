#!/venv/bin/python
"""Development aid (not registered in MANIFEST): apply each seeded change under seeded/<name>/ to /repo,
run the pinned baseline (optional), the demonstration and the property's quick check, undo the change.
usage: tools/run_seeded.py [--baseline] [name ...]"""
import json, subprocess, sys, os
from pathlib import Path
ROOT = Path(__file__).resolve().parent.parent
args = [a for a in sys.argv[1:] if not a.startswith("--")]
base = "--baseline" in sys.argv
names = args or sorted(p.name for p in (ROOT / "seeded").iterdir() if (p / "patch.diff").exists())
rows = []
for n in names:
    d = ROOT / "seeded" / n
    meta = json.loads((d / "meta.json").read_text())
    prop = meta["property"]
    r = subprocess.run(["git", "-C", "/repo", "apply", str(d / "patch.diff")], capture_output=True, text=True)
    if r.returncode:
        rows.append((n, prop, "PATCH DOES NOT APPLY", "", "")); continue
    try:
        b = ""
        if base:
            b = "baseline ok" if subprocess.run([str(ROOT / "tools/baseline.py")], capture_output=True).returncode == 0 else "BASELINE BROKEN"
        demo = d / "demo.py"
        dm = ""
        if demo.exists():
            rc = subprocess.run(["/venv/bin/python", str(demo)], capture_output=True, env=dict(os.environ, PYTHONPATH="/repo/src"), timeout=300).returncode
            dm = "demo fails" if rc else "DEMO PASSES"
        c = subprocess.run([str(ROOT / "check"), prop], capture_output=True, text=True, cwd=ROOT, timeout=1800)
        vio = [l for l in c.stdout.split("\n") if l.startswith("VIOLATION")]
        kind = "MISSED (exit %d)" % c.returncode
        if vio:
            kind = "caught: " + ("no-failing-input-found" if all("no-failing-input-found" in v for v in vio) else "concrete replay") + f" ({len(vio)} line(s))"
        rows.append((n, prop, b, dm, kind))
    finally:
        subprocess.run(["git", "-C", "/repo", "checkout", "--", "."])
for r in rows:
    print(" | ".join(r))
