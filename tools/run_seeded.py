#!/venv/bin/python
"""Development aid (not registered in MANIFEST): apply each seeded change under seeded/<name>/ to a copy of
/repo, run the pinned baseline (optional), the demonstration and the property's quick check, undo the change.
By default the change is applied to a scratch copy of /repo's HEAD (selected with ASYNKIT_REPO) so
that checks running concurrently against /repo are not disturbed, several changes at a time (-j N);
--in-place applies it to /repo itself (git apply ... git checkout -- .), one at a time, which is how
the registered checks are meant to be used.
usage: tools/run_seeded.py [--baseline] [--in-place] [-j N] [name ...]"""
import json, os, re, shutil, subprocess, sys, tempfile
from concurrent.futures import ThreadPoolExecutor
from pathlib import Path
ROOT = Path(__file__).resolve().parent.parent
argv = sys.argv[1:]
jobs = 5
if "-j" in argv:
    i = argv.index("-j"); jobs = int(argv[i + 1]); del argv[i:i + 2]
args = [a for a in argv if not a.startswith("--")]
base = "--baseline" in argv
inplace = "--in-place" in argv
if inplace:
    jobs = 1
names = args or sorted(p.name for p in (ROOT / "seeded").iterdir() if (p / "patch.diff").exists())


def one(n):
    d = ROOT / "seeded" / n
    meta = json.loads((d / "meta.json").read_text())
    prop = meta["property"]
    if inplace:
        target = "/repo"
    else:
        target = tempfile.mkdtemp(prefix="seeded_", dir="/tmp")
        subprocess.run(f"git -C /repo archive HEAD | tar -x -C {target}", shell=True, check=True)
    r = subprocess.run(["git", "apply", str(d / "patch.diff")] if not inplace else
                       ["git", "-C", "/repo", "apply", str(d / "patch.diff")],
                       capture_output=True, text=True, cwd=target)
    if r.returncode:
        if not inplace:
            shutil.rmtree(target, ignore_errors=True)
        return (n, prop, "PATCH DOES NOT APPLY", "", "")
    env = dict(os.environ, PYTHONPATH=f"{target}/src")
    scratch_out = tempfile.mkdtemp(prefix="seeded_out_", dir="/tmp")
    env["VERIF_EVIDENCE_DIR"] = scratch_out
    env["VERIF_REPLAYS_DIR"] = scratch_out
    if not inplace:
        env["ASYNKIT_REPO"] = target
    try:
        b = ""
        if base:
            if inplace:
                ok = subprocess.run([str(ROOT / "tools/baseline.py")], capture_output=True).returncode == 0
            else:
                # same pinned test files, run inside the scratch copy
                r2 = subprocess.run(["/venv/bin/python", "-m", "pytest", "-q", "-p", "no:cacheprovider", "--timeout=900",
                                     "--continue-on-collection-errors"],
                                    cwd=target, env=env, capture_output=True, text=True)
                m = re.search(r"(\d+) passed", r2.stdout)
                ok = bool(m) and int(m.group(1)) >= 261
            b = "baseline ok" if ok else "BASELINE BROKEN"
        demo = d / "demo.py"
        dm = ""
        if demo.exists():
            try:
                rc = subprocess.run(["/venv/bin/python", str(demo)], capture_output=True, env=env, timeout=600).returncode
            except subprocess.TimeoutExpired:
                rc = 1
            dm = "demo fails" if rc else "DEMO PASSES"
        c = subprocess.run([str(ROOT / "check"), prop], capture_output=True, text=True, cwd=ROOT, timeout=3600, env=env)
        vio = [l for l in c.stdout.split("\n") if l.startswith("VIOLATION")]
        kind = "MISSED (exit %d)" % c.returncode
        if vio:
            kind = "caught: " + ("no-failing-input-found" if all("no-failing-input-found" in v for v in vio) else "concrete replay") + f" ({len(vio)} line(s))"
        return (n, prop, b, dm, kind)
    finally:
        shutil.rmtree(scratch_out, ignore_errors=True)
        if inplace:
            subprocess.run(["git", "-C", "/repo", "checkout", "--", "."])
        else:
            shutil.rmtree(target, ignore_errors=True)


res_file = ROOT / "seeded" / "RESULTS.json"
with ThreadPoolExecutor(jobs) as ex:
    for row in ex.map(one, names):
        print(" | ".join(row), flush=True)
        # remember the latest verdict per seeded change (development record, summarised in DESIGN.md §9)
        res = json.loads(res_file.read_text()) if res_file.exists() else {}
        n, prop, b, dm, kind = row
        res[n] = {"property_checked": prop, "baseline": b or res.get(n, {}).get("baseline", ""), "demo": dm, "check": kind}
        res_file.write_text(json.dumps(res, indent=1, sort_keys=True) + "\n")
