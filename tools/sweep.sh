#!/bin/bash
# Development aid: run every registered check for the given tier and seeds, print one line each.
# usage: tools/sweep.sh <quick|thorough> "<seeds>" [props...]     (run from the /verif checkout)
tier=${1:-quick}; seeds=${2:-0}; shift 2
props=${@:-C01 C02 C03 C04 C05 C06 C07 C08 C09 C10 C11 C12 C13 C14 C15 C16 C17 C18 C19 C20}
cd "$(dirname "$0")/.."
python3 translator/py2lean.py /repo/src lean/Asynkit/Gen >/dev/null && (cd lean && lake build >/dev/null 2>&1) || { echo "SETUP FAILED"; exit 2; }
export VERIF_EVIDENCE_DIR=${VERIF_EVIDENCE_DIR:-$(mktemp -d)} VERIF_REPLAYS_DIR=${VERIF_REPLAYS_DIR:-$(mktemp -d)}
bad=0
for s in $seeds; do for p in $props; do
  start=$(date +%s)
  out=$(VERIF_SEED=$s ./check $p --tier $tier 2>&1); rc=$?
  echo "seed=$s $p rc=$rc $(( $(date +%s) - start ))s $(echo "$out" | grep -c '^VIOLATION') violation-lines | $(echo "$out" | tail -1)"
  if [ $rc -ne 0 ]; then bad=1; echo "$out" | grep "VIOLATION\|rror" | head -5; fi
done; done
exit $bad
