#!/usr/bin/env python3
"""Self-validation of the translational tie for tools.PriorityQueue (notes/GenPQ.md).

Applies harmless rewrites and semantic mutations of `src/asynkit/tools.py` (plus the seeded
patches that touch the class) to a scratch copy of the repository, regenerates `Asynkit/Gen` from
it and rebuilds `Asynkit.Lemmas.GenEqPQ`; optionally runs `./check C17` against the scratch copy.
Never touches /repo.  The generated files are restored from the real repository at the end.

usage: tools/genpq_selftest.py <scratch-dir> [--check] [--only name,...]
"""
import os
import re
import subprocess
import sys
from pathlib import Path

ROOT = Path(__file__).resolve().parent.parent
REPO = Path(os.environ.get("GENPQ_BASE_REPO", "/repo"))

# (name, kind, [(old, new, count)])   kind: harmless | semantic
EDITS = [
    ("H01-rename-locals-remove", "harmless", [
        ("for i, entry in enumerate(self._pq):\n            if entry.obj == obj:",
         "for idx, ent in enumerate(self._pq):\n            if ent.obj == obj:"),
        ("        if i == 0:\n            e = heapq.heappop(self._pq)\n        elif i == len(self._pq) - 1:\n"
         "            e = self._pq.pop()\n        else:\n            e = self._pq[i]\n"
         "            self._pq[i] = self._pq.pop()",
         "        if idx == 0:\n            gone = heapq.heappop(self._pq)\n        elif idx == len(self._pq) - 1:\n"
         "            gone = self._pq.pop()\n        else:\n            gone = self._pq[idx]\n"
         "            self._pq[idx] = self._pq.pop()"),
        ("        return e.priority\n", "        return gone.priority\n")]),
    ("H02-len-eq-0-for-not", "harmless", [("if not self._pq:", "if len(self._pq) == 0:")]),
    ("H03-floordiv-for-shift", "harmless", [("lq >> 1", "lq // 2")]),
    ("H04-reorder-independent", "harmless", [
        ("        self._pq.clear()\n        self._sequence = 0\n", "        self._sequence = 0\n        self._pq.clear()\n"),
        ("        new._pq[:] = [PriEntry(e.priority, e.sequence, e.obj) for e in self._pq]\n"
         "        new._sequence = self._sequence\n",
         "        new._sequence = self._sequence\n"
         "        new._pq[:] = [PriEntry(e.priority, e.sequence, e.obj) for e in self._pq]\n")]),
    ("H05-compare-forms", "harmless", [
        ("            if i != 0:\n", "            if i > 0:\n"),
        ("        if i == 0:\n            e = heapq", "        if 0 == i:\n            e = heapq"),
        ("elif i == len(self._pq) - 1:", "elif i + 1 == len(self._pq):")]),
    ("H06-pop-via-local", "harmless", [
        ("        entry = heapq.heappop(self._pq)\n        if not self._pq:\n            self._sequence = 0\n"
         "        return entry.obj\n",
         "        entry = heapq.heappop(self._pq)\n        result = entry.obj\n        if not self._pq:\n"
         "            self._sequence = 0\n        return result\n")]),
    ("H07-add-via-local-seq", "harmless", [
        ("        heapq.heappush(self._pq, PriEntry(pri, self._sequence, obj))\n        self._sequence += 1\n",
         "        seq = self._sequence\n        self._sequence = seq + 1\n"
         "        heapq.heappush(self._pq, PriEntry(pri, seq, obj))\n")]),
    ("H08-find-early-return", "harmless", [
        ("        if remove:\n            # remove the entry.", "        if not remove:\n            return entry.priority, entry.obj\n"
         "        if True:\n            # remove the entry.")]),
    ("H09-reschedule-continue", "harmless", [
        ("            if key(entry.obj):\n                # use only the __lt__ operator to determine if priority has changed\n"
         "                # since that is the one used to define priority for the heap\n"
         "                if entry.priority < new_priority or new_priority < entry.priority:\n"
         "                    # it retains its old squence number\n"
         "                    # could mark the old entry as removed and re-add a new entry,\n"
         "                    # that will be O(logn) instead of O(n) but lets not worry.\n"
         "                    entry.priority = new_priority\n"
         "                    heapq.heapify(self._pq)\n"
         "                return entry.obj\n",
         "            if not key(entry.obj):\n                continue\n"
         "            if new_priority < entry.priority or entry.priority < new_priority:\n"
         "                entry.priority = new_priority\n"
         "                heapq.heapify(self._pq)\n"
         "            return entry.obj\n")]),
    ("H10-finally-without-locals", "harmless", [
        ("            lp, lq = len(popped), len(self._pq)\n            if lp >= lq:",
         "            lq = len(self._pq)\n            lp = len(popped)\n            if lq <= lp:")]),
    ("H11-extend-plain-increment", "harmless", [
        ("            self._pq.append(PriEntry(pri, self._sequence, obj))\n            self._sequence += 1\n",
         "            item = PriEntry(pri, self._sequence, obj)\n            self._sequence = self._sequence + 1\n"
         "            self._pq.append(item)\n")]),
    ("H12-popentry-helper (pop/popitem part of seeded C17-m2)", "harmless", [
        ("    def pop(self) -> T:\n        entry = heapq.heappop(self._pq)\n        if not self._pq:\n"
         "            self._sequence = 0\n        return entry.obj\n",
         "    def _popentry(self) -> PriEntry[P, T]:\n        entry = heapq.heappop(self._pq)\n        if not self._pq:\n"
         "            self._sequence = 0\n        return entry\n\n"
         "    def pop(self) -> T:\n        return self._popentry().obj\n"),
        ("    def popitem(self) -> Tuple[P, T]:\n        entry = heapq.heappop(self._pq)\n        if not self._pq:\n"
         "            self._sequence = 0\n        return entry.priority, entry.obj\n",
         "    def popitem(self) -> Tuple[P, T]:\n        entry = self._popentry()\n        return entry.priority, entry.obj\n")]),
    ("H13-ordereditems-while-len-and-local", "harmless", [
        ("            while self._pq:\n", "            while len(self._pq) > 0:\n"),
        ("                popped.append(heapq.heappop(self._pq))\n",
         "                item = heapq.heappop(self._pq)\n                popped.append(item)\n")]),
    ("H14-remove-index-loop-with-flag", "harmless", [
        ("            if entry.obj == obj:\n                break\n        else:\n            raise ValueError(f\"{obj!r} not in queue\")\n",
         "            if obj == entry.obj:\n                break\n        else:\n            raise ValueError(\"not in queue\")\n")]),
    # ---- semantic changes
    ("S01-pop-forgets-seq-reset", "semantic", [
        ("        entry = heapq.heappop(self._pq)\n        if not self._pq:\n            self._sequence = 0\n"
         "        return entry.obj\n", "        entry = heapq.heappop(self._pq)\n        return entry.obj\n")]),
    ("S02-find-i-gt-1", "semantic", [("            if i != 0:\n", "            if i > 1:\n")]),
    ("S03-remove-drops-heapify", "semantic", [
        ("            self._pq[i] = self._pq.pop()\n            heapq.heapify(self._pq)\n        if not self._pq:",
         "            self._pq[i] = self._pq.pop()\n        if not self._pq:")]),
    ("S04-find-forward-scan", "semantic", [
        ("for i, entry in enumerate(reversed(self._pq)):\n            if key(entry.obj):",
         "for i, entry in enumerate(self._pq):\n            if key(entry.obj):")]),
    ("S05-reschedule-no-heapify", "semantic", [
        ("                    entry.priority = new_priority\n                    heapq.heapify(self._pq)\n",
         "                    entry.priority = new_priority\n")]),
    ("S06-remove-forgets-seq-reset", "semantic", [
        ("            heapq.heapify(self._pq)\n        if not self._pq:\n            self._sequence = 0\n        return e.priority",
         "            heapq.heapify(self._pq)\n        return e.priority")]),
    ("S07-add-increments-first", "semantic", [
        ("        heapq.heappush(self._pq, PriEntry(pri, self._sequence, obj))\n        self._sequence += 1\n",
         "        self._sequence += 1\n        heapq.heappush(self._pq, PriEntry(pri, self._sequence, obj))\n")]),
    ("S08-extend-no-heapify", "semantic", [
        ("            self._sequence += 1\n        heapq.heapify(self._pq)\n", "            self._sequence += 1\n")]),
    ("S09-restore-threshold", "semantic", [("elif lp >= lq >> 1:", "elif lp > lq >> 1:")]),
    ("S10-find-tail-forgets-reset", "semantic", [
        ("                self._pq.pop()\n                if not self._pq:\n                    self._sequence = 0\n",
         "                self._pq.pop()\n")]),
    ("S11-clear-keeps-sequence", "semantic", [
        ("        self._pq.clear()\n        self._sequence = 0\n", "        self._pq.clear()\n")]),
    ("S12-copy-resets-sequence", "semantic", [
        ("        new._sequence = self._sequence\n", "        new._sequence = 0\n")]),
    ("S13-peek-last", "semantic", [
        ("        entry = self._pq[0]\n        return entry.obj\n", "        entry = self._pq[-1]\n        return entry.obj\n")]),
    ("S14-remove-tail-off-by-one", "semantic", [("elif i == len(self._pq) - 1:", "elif i == len(self._pq):")]),
    ("S15-find-index-off-by-one", "semantic", [
        ("                i = len(self._pq) - i - 1\n", "                i = len(self._pq) - i\n")]),
    ("S16-reschedule-forward-scan", "semantic", [
        ("        for entry in reversed(self._pq):\n            if key(entry.obj):\n                # use only",
         "        for entry in self._pq:\n            if key(entry.obj):\n                # use only")]),
    ("S17-ordereditems-pop-before-yield", "semantic", [
        ("                head = self._pq[0]\n                yield head.priority, head.obj\n"
         "                # only pop after the yield, which means that the caller\n"
         "                # wants to move to the next object\n"
         "                popped.append(heapq.heappop(self._pq))\n",
         "                head = heapq.heappop(self._pq)\n                popped.append(head)\n"
         "                yield head.priority, head.obj\n")]),
    ("S19-copy-drops-sequence-numbers", "semantic", [
        ("PriEntry(e.priority, e.sequence, e.obj) for e in self._pq", "PriEntry(e.priority, 0, e.obj) for e in self._pq")]),
    ("S20-extend-heapify-inside-loop", "semantic", [
        ("            self._sequence += 1\n        heapq.heapify(self._pq)\n",
         "            self._sequence += 1\n            heapq.heapify(self._pq)\n")]),
    ("S21-restore-pushes-in-reverse", "semantic", [
        ("                for entry in popped:\n", "                for entry in reversed(popped):\n")]),
    ("S22-add-argument-order", "semantic", [
        ("PriEntry(pri, self._sequence, obj))\n        self._sequence += 1", "PriEntry(pri, obj, self._sequence))\n        self._sequence += 1")]),
    ("S23-prientry-init-swaps-fields", "semantic", [
        ("        self.sequence = sequence\n        self.obj = obj\n", "        self.sequence = obj\n        self.obj = sequence\n")]),
    ("S24-reschedule-new-sequence", "semantic", [
        ("                    entry.priority = new_priority\n                    heapq.heapify(self._pq)\n",
         "                    entry.priority = new_priority\n                    entry.sequence = self._sequence\n"
         "                    self._sequence += 1\n                    heapq.heapify(self._pq)\n")]),
    ("S18-remove-returns-wrong-entry", "semantic", [
        ("            e = self._pq[i]\n            self._pq[i] = self._pq.pop()\n",
         "            e = self._pq[i]\n            self._pq[i] = self._pq.pop()\n            e = self._pq[i]\n")]),
]


def sh(cmd, cwd=None, env=None, timeout=1800):
    p = subprocess.run(cmd, cwd=cwd, env=env, stdout=subprocess.PIPE, stderr=subprocess.STDOUT, text=True, timeout=timeout)
    return p.returncode, p.stdout


def fresh(scratch: Path):
    if scratch.exists():
        subprocess.run(["rm", "-rf", str(scratch)], check=True)
    scratch.mkdir(parents=True)
    subprocess.run(f"git -C {REPO} archive HEAD | tar -x -C {scratch}", shell=True, check=True)


def evaluate(scratch: Path, run_check: bool):
    """-> (translator verdict, build verdict, check verdict)"""
    rc, out = sh([sys.executable, str(ROOT / "translator/py2lean.py"), str(scratch / "src"), str(ROOT / "lean/Asynkit/Gen")])
    uns = re.findall(r"pq2lean: UNSUPPORTED (.*)", out)
    tr = "ok" if rc == 0 and not uns else ("UNSUPPORTED " + "; ".join(u[:110] for u in uns) if uns else f"translator rc={rc}")
    rc, out = sh(["lake", "build", "Asynkit.Lemmas.GenEqPQ"], cwd=ROOT / "lean")
    if rc == 0:
        build = "proves"
    else:
        m = re.findall(r"error: (Asynkit/\S+?):(\d+):", out)
        where = []
        if m:
            src = {}
            for f, ln in m:
                text = src.setdefault(f, (ROOT / "lean" / f).read_text().split("\n"))
                name = None
                for i in range(int(ln) - 1, -1, -1):
                    mm = re.match(r"\s*(?:theorem|def)\s+(\S+)", text[i])
                    if mm:
                        name = mm.group(1)
                        break
                tag = f"{Path(f).stem}:{name}"
                if tag not in where:
                    where.append(tag)
        build = "BREAKS " + ", ".join(where[:4])
    chk = ""
    if run_check:
        env = dict(os.environ, ASYNKIT_REPO=str(scratch), VERIF_EVIDENCE_DIR=str(scratch.parent / "ev"),
                   VERIF_REPLAYS_DIR=str(scratch.parent / "ev"))
        (scratch.parent / "ev").mkdir(exist_ok=True)
        rc, out = sh([str(ROOT / "check"), "C17"], cwd=ROOT, env=env)
        v = [l for l in out.split("\n") if l.startswith("VIOLATION")]
        nf = sum("no-failing-input-found" in x for x in v)
        chk = f"exit {rc}"
        if v:
            chk += f": {len(v) - nf} replay(s) with a failing input" if len(v) > nf else ": no-failing-input-found (only the proof obligation)"
    return tr, build, chk


def main():
    scratch = Path(sys.argv[1]).resolve()
    run_check = "--check" in sys.argv
    only = None
    if "--only" in sys.argv:
        only = sys.argv[sys.argv.index("--only") + 1].split(",")
    rows = []
    cases = [(n, k, e, None) for n, k, e in EDITS]
    for d in sorted((ROOT / "seeded").glob("*/patch.diff")):
        if "tools.py" in d.read_text() and "class PriorityQueue" in d.read_text() or "PriorityQueue" in d.read_text():
            if "tools.py" in d.read_text():
                cases.append((f"seeded/{d.parent.name}", "seeded", None, d))
    for name, kind, edits, patch in cases:
        if only and not any(o in name for o in only):
            continue
        fresh(scratch)
        f = scratch / "src/asynkit/tools.py"
        text = f.read_text()
        if edits is not None:
            ok = True
            for old, new in edits:
                if old not in text:
                    ok = False
                    print(f"!! {name}: pattern not found: {old[:60]!r}")
                text = text.replace(old, new)
            if not ok:
                rows.append((name, kind, "edit does not apply", "", ""))
                continue
            f.write_text(text)
            rc, out = sh([sys.executable, "-c", f"import ast,sys; ast.parse(open({str(f)!r}).read())"])
            if rc:
                rows.append((name, kind, "edit gives a syntax error", "", ""))
                continue
        else:
            rc, out = sh(["patch", "-p1", "-i", str(patch)], cwd=scratch)
            if rc:
                rows.append((name, kind, "patch does not apply", "", ""))
                continue
        tr, build, chk = evaluate(scratch, run_check)
        rows.append((name, kind, tr, build, chk))
        print(f"{name} | {kind} | {tr} | {build} | {chk}", flush=True)
    # restore the generated files of the real repository
    sh([sys.executable, str(ROOT / "translator/py2lean.py"), str(REPO / "src"), str(ROOT / "lean/Asynkit/Gen")])
    sh(["lake", "build", "Asynkit.Lemmas.GenEqPQ"], cwd=ROOT / "lean")
    subprocess.run(["rm", "-rf", str(scratch)])
    print("\n| change | kind | translator | GenEqPQ | ./check C17 |\n|---|---|---|---|---|")
    for r in rows:
        print("| " + " | ".join(r) + " |")


if __name__ == "__main__":
    main()
