#!/usr/bin/env python3
"""Development aid: summarise seeded/RESULTS.json per wave (numbers quoted in DESIGN.md §9)."""
import collections, json, re
from pathlib import Path
ROOT = Path(__file__).resolve().parent.parent
d = json.loads((ROOT / "seeded" / "RESULTS.json").read_text())
waves = collections.defaultdict(collections.Counter)
rest = collections.defaultdict(list)
for k, v in sorted(d.items()):
    if not (ROOT / "seeded" / k).is_dir():
        continue
    m = re.match(r"(C\d\d)-m(\d+)(-as-(C\d\d))?$", k)
    if not m:
        w = "reverse-fix"
    else:
        n = int(m.group(2))
        w = f"wave {(n - 1) // 3 + 1}" + (" (checked by the neighbouring property)" if m.group(3) else "")
    c = v["check"]
    cat = "concrete" if "concrete" in c else "nfi" if "no-failing" in c else "missed" if "MISSED" in c else c
    waves[w][cat] += 1
    if cat != "concrete":
        rest[w].append(f"{k}:{cat}")
for w in sorted(waves):
    print(f"{w:55s} {dict(waves[w])}  {' '.join(rest[w])}")
