#!/venv/bin/python
"""Development aid (not registered in MANIFEST): false-alarm test.  Apply each behaviour-preserving
refactoring harmless/<name>/patch.diff to a scratch copy of /repo's HEAD and run EVERY property's quick
check against it (ASYNKIT_REPO); every check must exit 0 and print no VIOLATION line.  Verdicts go to
harmless/RESULTS.json.   usage: tools/run_harmless.py [-j N] [name ...]"""
import json, os, shutil, subprocess, sys, tempfile
from concurrent.futures import ThreadPoolExecutor
from pathlib import Path
ROOT = Path(__file__).resolve().parent.parent
args = sys.argv[1:]
jobs = 5
if "-j" in args:
    i = args.index("-j"); jobs = int(args[i + 1]); del args[i:i + 2]
names = args or sorted(p.name for p in (ROOT / "harmless").iterdir() if (p / "patch.diff").exists())
PROPS = [f"C{i:02d}" for i in range(1, 21)]
resf = ROOT / "harmless" / "RESULTS.json"
res = json.loads(resf.read_text()) if resf.exists() else {}
for n in names:
    d = ROOT / "harmless" / n
    target = tempfile.mkdtemp(prefix="harmless_", dir="/tmp")
    out = tempfile.mkdtemp(prefix="harmless_out_", dir="/tmp")
    try:
        subprocess.run(f"git -C /repo archive HEAD | tar -x -C {target}", shell=True, check=True)
        r = subprocess.run(["git", "apply", str(d / "patch.diff")], cwd=target, capture_output=True, text=True)
        if r.returncode:
            res[n] = {"verdict": "PATCH DOES NOT APPLY"}
            print(n, "| PATCH DOES NOT APPLY")
            continue
        env = dict(os.environ, ASYNKIT_REPO=target, VERIF_EVIDENCE_DIR=out, VERIF_REPLAYS_DIR=out,
                   PYTHONPATH=f"{target}/src")

        def one(p):
            c = subprocess.run([str(ROOT / "check"), p], capture_output=True, text=True, cwd=ROOT, env=env, timeout=3600)
            vio = [l for l in c.stdout.split("\n") if l.startswith("VIOLATION")]
            broken = []
            for v in vio:
                try:
                    rp = [w for w in v.split() if w.startswith("replay=")][0][7:]
                    broken += json.loads(Path(rp).read_text()).get("no_longer_checks", [])
                except Exception:
                    pass
            return p, c.returncode, vio, (c.stdout.strip().split("\n") or [""])[-1], broken
        with ThreadPoolExecutor(jobs) as ex:
            rows = list(ex.map(one, PROPS))
        bad = {p: {"rc": rc, "violations": vio, "last": last, "no_longer_checks": broken} for p, rc, vio, last, broken in rows if rc or vio}
        res[n] = {"verdict": "silent on all 20" if not bad else "ALARM", "alarms": bad}
        print(n, "|", res[n]["verdict"], "|", {p: (b["rc"], [v.split()[-1] if v.endswith("found") else "concrete" for v in b["violations"]]) for p, b in bad.items()})
    finally:
        shutil.rmtree(target, ignore_errors=True)
        shutil.rmtree(out, ignore_errors=True)
    resf.write_text(json.dumps(res, indent=1, sort_keys=True) + "\n")
