#!/venv/bin/python
"""Regression set for the monitor2lean unit (Gen/Monitor.lean <-> GenEqC07 / GenEqC06).

Behaviour-preserving refactorings of src/asynkit/monitor.py (translator/harmless_monitor/*.diff, plus harmless/g9,
g10, h9, h10) must keep every GenEqC07 / GenEqC06 obligation green: each patch is applied to a scratch copy of
/repo HEAD (never to /repo), the translator is run on it and the two proof files are built.  Afterwards
lean/Asynkit/Gen is regenerated from /repo.

usage: translator/run_harmless_monitor.py [patch ...]     exit 0 iff everything is green
       translator/run_harmless_monitor.py --mutations     the converse set: translator/mutations_monitor/*.diff and
                                                          seeded/C07-*, seeded/C06-* are semantic changes; each must
                                                          make the translator refuse or a proof fail (exit 0 iff none
                                                          is green, apart from KNOWN_GREEN)

A patch directory may hold re-based variants (patch.after-*.diff, patch.before-fix.diff); the first one that applies
is used.  While fixes/C06-firstiter-raises.patch is not yet part of /repo HEAD it is applied to the scratch copy first
(the model describes the repaired code); once it is committed it no longer applies and is skipped."""
import shutil, subprocess, sys, tempfile
from pathlib import Path

ROOT = Path(__file__).resolve().parent.parent
TARGETS = ["Asynkit.Lemmas.GenEqC07", "Asynkit.Lemmas.GenEqC06"]
PENDING_FIXES = [ROOT / "fixes/C06-firstiter-raises.patch"]
UNIT = "monitor.py"
KNOWN_GREEN = {}      # name -> reason, for semantic changes the tie cannot see (none at present)


def candidates(p):
    if p.name != "patch.diff":
        return [p]
    return [p] + sorted(p.parent.glob("patch.after-*.diff")) + sorted(p.parent.glob("patch.before-*.diff"))


def verdict(patch):
    tgt = tempfile.mkdtemp(prefix="hm_", dir="/tmp")
    try:
        subprocess.run(f"git -C /repo archive HEAD | tar -x -C {tgt}", shell=True, check=True)
        for fx in PENDING_FIXES:
            if subprocess.run(["git", "apply", "--check", str(fx)], cwd=tgt, capture_output=True).returncode == 0:
                subprocess.run(["git", "apply", str(fx)], cwd=tgt, check=True)
        for cand in candidates(patch):
            if subprocess.run(["git", "apply", "--check", str(cand)], cwd=tgt, capture_output=True).returncode == 0:
                subprocess.run(["git", "apply", str(cand)], cwd=tgt, check=True)
                break
        else:
            return "PATCH DOES NOT APPLY"
        t = subprocess.run([sys.executable, str(ROOT / "translator/py2lean.py"), f"{tgt}/src",
                            str(ROOT / "lean/Asynkit/Gen")], capture_output=True, text=True)
        bad = [l for l in t.stdout.split("\n") if "CANNOT TRANSLATE" in l and UNIT in l]
        if bad:
            return "TRANSLATOR: " + bad[0][:200]
        b = subprocess.run(["lake", "build"] + TARGETS, cwd=ROOT / "lean", capture_output=True, text=True)
        if b.returncode:
            errs = [l for l in (b.stdout + b.stderr).split("\n") if l.startswith("error") and ".lean:" in l]
            return "PROOF: " + "; ".join(e.split(": ", 1)[1][:70] for e in errs[:3])
        return "green"
    finally:
        shutil.rmtree(tgt, ignore_errors=True)


def regenerate():
    subprocess.run([sys.executable, str(ROOT / "translator/py2lean.py"), "/repo/src", str(ROOT / "lean/Asynkit/Gen")],
                   capture_output=True)


def name_of(p):
    return p.parent.name if p.name.startswith("patch.") else p.stem


def main():
    rc = 0
    if sys.argv[1:2] == ["--mutations"]:
        patches = [Path(p).resolve() for p in sys.argv[2:]] or (
            sorted((ROOT / "translator/mutations_monitor").glob("*.diff"))
            + sorted(p / "patch.diff" for p in (ROOT / "seeded").glob("C0[67]-*") if (p / "patch.diff").exists()))
        try:
            for p in patches:
                v = verdict(p)
                n = name_of(p)
                note = ""
                if v == "green":
                    note = f"  (expected: {KNOWN_GREEN[n]})" if n in KNOWN_GREEN else "  NOT DETECTED"
                    rc |= n not in KNOWN_GREEN
                print(f"{p.relative_to(ROOT) if p.is_relative_to(ROOT) else p} | {v}{note}", flush=True)
        finally:
            regenerate()
        return rc
    patches = [Path(p).resolve() for p in sys.argv[1:]] or (
        sorted((ROOT / "translator/harmless_monitor").glob("*.diff"))
        + [ROOT / "harmless" / h / "patch.diff" for h in ("g9", "g10", "h9", "h10")])
    try:
        for p in patches:
            v = verdict(p)
            print(f"{p.relative_to(ROOT) if p.is_relative_to(ROOT) else p} | {v}", flush=True)
            rc |= v != "green"
    finally:
        regenerate()
    return rc


if __name__ == "__main__":
    sys.exit(main())
