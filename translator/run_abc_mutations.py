#!/venv/bin/python
"""Mutation table for the collections.abc unit (testing only).  S* mutate a scratch copy of the running interpreter's
_collections_abc.py (read through ASYNKIT_STDLIB_COLLECTIONS_ABC); A* mutate a scratch copy of asynkit's sources (which
mixins are inherited).  Then translator + `lake build Asynkit.Lemmas.GenEqAbcStd`.  Every mutation must break the
translator or a proof; the interpreter's file and /repo are never touched; Gen is regenerated afterwards.
exit 0 iff every mutation is detected."""
import os, shutil, subprocess, sys, tempfile
from pathlib import Path

ROOT = Path(__file__).resolve().parent.parent
sys.path.insert(0, str(ROOT / "translator"))
import collectionsabc2lean as U  # noqa: E402

REPO = Path(os.environ.get("ASYNKIT_REPO", "/repo"))
STD = U.stdlib_source()[0].read_text()
CLOSE = '''        try:
            self.throw(GeneratorExit)
        except (GeneratorExit, StopIteration):
            pass
        else:
            raise RuntimeError("coroutine ignored GeneratorExit")'''
assert STD.count(CLOSE) == 1, "Coroutine.close not found in the expected shape"

S = [
    ("S1 close lets StopIteration propagate", CLOSE, CLOSE.replace("(GeneratorExit, StopIteration)", "GeneratorExit")),
    ("S2 close throws StopIteration", CLOSE, CLOSE.replace("self.throw(GeneratorExit)", "self.throw(StopIteration)")),
    ("S3 close accepts a coroutine that keeps yielding", CLOSE,
     CLOSE.replace('raise RuntimeError("coroutine ignored GeneratorExit")', "pass")),
    ("S4 close also swallows StopAsyncIteration", CLOSE,
     CLOSE.replace("(GeneratorExit, StopIteration)", "(GeneratorExit, StopIteration, StopAsyncIteration)")),
    ("S5 close does not throw at all", CLOSE, "        return None"),
    ("S6 close swallows every exception", CLOSE, CLOSE.replace("(GeneratorExit, StopIteration)", "BaseException")),
]
A = [
    ("A1 GeneratorObjectIterator stops overriding aclose", "monitor.py", "    async def aclose(self) -> None:\n        \"\"\"\n        Close the generator",
     None),
    ("A2 _Continuation defines its own close", "coroutine.py", "    def send(self, value: Any) -> Any:\n        if self.gen is None:",
     "    def close(self) -> None:\n        pass\n\n    def send(self, value: Any) -> Any:\n        if self.gen is None:"),
    ("A3 _Continuation stops defining __next__ (inherits nothing for it: Coroutine has none) — harmless control", "coroutine.py",
     "    def __next__(self) -> Any:\n        return self.send(None)\n", "HARMLESS"),
]


def check(env, src):
    e = dict(os.environ, **env)
    r = subprocess.run([sys.executable, str(ROOT / "translator/py2lean.py"), str(src), str(ROOT / "lean/Asynkit/Gen")],
                       capture_output=True, text=True, env=e)
    tr = [l for l in r.stdout.split("\n") if "CANNOT TRANSLATE" in l and "collections.abc" in l]
    b = subprocess.run(["lake", "build", "Asynkit.Lemmas.GenEqAbcStd"], cwd=ROOT / "lean", capture_output=True, text=True)
    errs = [l for l in b.stdout.split("\n") if l.startswith("error")]
    return tr, errs


bad = 0
tmp = Path(tempfile.mkdtemp(prefix="abcmut_"))
try:
    for name, old, new in S:
        f = tmp / "_collections_abc.py"
        f.write_text(STD.replace(old, new))
        tr, errs = check({"ASYNKIT_STDLIB_COLLECTIONS_ABC": str(f)}, REPO / "src")
        verdict = "translator: " + tr[0].split("]: ", 1)[-1][:90] if tr else (f"proof breaks ({errs[0][:80]})" if errs else "NOT DETECTED")
        bad += verdict == "NOT DETECTED"
        print(f"{name:55s} | {verdict}")
    for name, fname, old, new in A:
        src = tmp / "src"
        shutil.rmtree(src, ignore_errors=True)
        shutil.copytree(REPO / "src", src)
        p = src / "asynkit" / fname
        t = p.read_text()
        if new is None:        # rename the method so that it is no longer an override
            assert "    async def aclose(self) -> None:" in t
            t = t.replace("    async def aclose(self) -> None:", "    async def _aclose_renamed(self) -> None:", 1) \
                if fname == "monitor.py" else t
            # only the class GeneratorObjectIterator must lose it: it is the last definition in monitor.py
            i = p.read_text().rfind("    async def aclose(self) -> None:")
            t = p.read_text()[:i] + "    async def _aclose_renamed(self) -> None:" + p.read_text()[i + len("    async def aclose(self) -> None:"):]
        elif new == "HARMLESS":
            assert old in t
            t = t.replace(old, "", 1)
        else:
            assert old in t, name
            t = t.replace(old, new, 1)
        p.write_text(t)
        tr, errs = check({}, src)
        detected = bool(tr or errs)
        if new == "HARMLESS":
            verdict = "stays green (as it must)" if not detected else "FALSE ALARM"
            bad += detected
        else:
            verdict = "translator: " + tr[0].split("]: ", 1)[-1][:90] if tr else (f"proof breaks ({errs[0][:80]})" if errs else "NOT DETECTED")
            bad += verdict == "NOT DETECTED"
        print(f"{name:55s} | {verdict}")
finally:
    shutil.rmtree(tmp, ignore_errors=True)
    subprocess.run([sys.executable, str(ROOT / "translator/py2lean.py"), str(REPO / "src"), str(ROOT / "lean/Asynkit/Gen")],
                   capture_output=True)
sys.exit(1 if bad else 0)
