#!/venv/bin/python
"""Regression set for the cond2lean / timeout2lean units (round 4): behaviour-preserving refactorings of the
translated code (translator/harmless_cond/*.diff, translator/harmless_timeout/*.diff, plus harmless/h5, h6, h14)
must keep every GenEqC14 / GenEqC16 obligation green.  Each patch is applied to a scratch copy of /repo HEAD
(never to /repo), the translator is run on it, the two proof files are built; afterwards lean/Asynkit/Gen is
regenerated from /repo.
usage: translator/run_harmless_units.py [patch ...]      exit 0 iff everything is green
       translator/run_harmless_units.py --mutations     the converse set (translator/mutations_cond|timeout/*.diff,
                                                        seeded/C14-m*, seeded/C16-m*): semantic changes; each must
                                                        break the translator or a proof (exit 0 iff none is green;
                                                        known exceptions are listed in notes/C14-C16-translation.md)"""
import shutil, subprocess, sys, tempfile
from pathlib import Path

ROOT = Path(__file__).resolve().parent.parent
TARGETS = ["Asynkit.Lemmas.GenEqC14", "Asynkit.Lemmas.GenEqC16"]


def verdict(patch):
    tgt = tempfile.mkdtemp(prefix="hu_", dir="/tmp")
    try:
        subprocess.run(f"git -C /repo archive HEAD | tar -x -C {tgt}", shell=True, check=True)
        r = subprocess.run(["git", "apply", str(patch)], cwd=tgt, capture_output=True, text=True)
        if r.returncode:
            return "PATCH DOES NOT APPLY"
        t = subprocess.run([sys.executable, str(ROOT / "translator/py2lean.py"), f"{tgt}/src",
                            str(ROOT / "lean/Asynkit/Gen")], capture_output=True, text=True)
        bad = [l for l in t.stdout.split("\n") if "CANNOT TRANSLATE" in l and ("condition variables" in l or "task_timeout" in l)]
        if bad:
            return "TRANSLATOR: " + bad[0][:160]
        b = subprocess.run(["lake", "build"] + TARGETS, cwd=ROOT / "lean", capture_output=True, text=True)
        if b.returncode:
            errs = [l for l in (b.stdout + b.stderr).split("\n") if l.startswith("error")]
            return "PROOF: " + "; ".join(errs[:2])[:200]
        return "green"
    finally:
        shutil.rmtree(tgt, ignore_errors=True)


KNOWN_GREEN = {"C14-m7", "C16-m2", "C16-m6", "C16-m9", "C16-m11"}   # changes outside the translated functions (see notes)


def main():
    if sys.argv[1:] == ["--mutations"]:
        patches = (sorted((ROOT / "translator/mutations_cond").glob("*.diff"))
                   + sorted((ROOT / "translator/mutations_timeout").glob("*.diff"))
                   + sorted(p / "patch.diff" for p in (ROOT / "seeded").glob("C1[46]-m*")))
        rc = 0
        try:
            for p in patches:
                v = verdict(p)
                name = p.parent.name if p.name == "patch.diff" else p.stem
                ok = (v != "green") or name in KNOWN_GREEN
                print(f"{p.relative_to(ROOT)} | {v}" + ("" if v != "green" else
                      "  (expected: outside the translated functions)" if name in KNOWN_GREEN else "  NOT DETECTED"))
                rc |= not ok
        finally:
            subprocess.run([sys.executable, str(ROOT / "translator/py2lean.py"), "/repo/src",
                            str(ROOT / "lean/Asynkit/Gen")], capture_output=True)
        return rc
    patches = [Path(p) for p in sys.argv[1:]] or (
        sorted((ROOT / "translator/harmless_cond").glob("*.diff"))
        + sorted((ROOT / "translator/harmless_timeout").glob("*.diff"))
        + [ROOT / "harmless" / h / "patch.diff" for h in ("h5", "h6", "h14")])
    rc = 0
    try:
        for p in patches:
            v = verdict(p)
            print(f"{p.relative_to(ROOT) if p.is_relative_to(ROOT) else p} | {v}")
            rc |= v != "green"
    finally:
        subprocess.run([sys.executable, str(ROOT / "translator/py2lean.py"), "/repo/src",
                        str(ROOT / "lean/Asynkit/Gen")], capture_output=True)
    return rc


if __name__ == "__main__":
    sys.exit(main())
