"""sched2lean — the synchronous scheduling code C08/C10 rest on, regenerated from /repo/src into
lean/Asynkit/Gen/SchedOps.lean on every run (called from py2lean.generate; DESIGN §3.3).

Translated, statement by statement:
  scheduling.py   _task_reinsert, task_reinsert, _sleep_insert, sleep_insert, task_switch,
                  create_task_descend, create_task_start      (up to their single suspension point)
  loop/default.py queue_remove; SchedulingLoopHelper.queue_len/queue_items/queue_find/queue_insert/
                  queue_insert_pos/queue_remove/call_pos; task_from_handle, is_task_callback,
                  TASK_CALLBACK_NAMES
  loop/eventloop.py SchedulingMixin (the same seven methods + get_ready_queue)
  loop/extensions.py ready_len / ready_remove / ready_find / ready_insert
  experimental/priority.py PrioritySchedulingMixin.queue_len/queue_items/queue_find/queue_remove/
                  queue_insert/queue_insert_pos/call_pos/get_priority/task_reschedule

Lemmas/GenEqSched.lean (and GenEqC09.lean for task_from_handle) prove the generated definitions
equal to the model's (Model/Sched.lean, Model/Deque.lean, Model/Kernel.lean).  Anything outside
the supported subset raises `Unsupported` (a KeyError, so that py2lean's main reports it and
exits 1: a broken obligation).

Trusted (stated once, not translated): `create_task(coro)` and a bare `await asyncio.sleep(0)`
`call_soon` a Task's step (one `append` of a new handle at `get_priority(handle)`),
`self.call_soon(cb)` of an event loop appends one new handle, `get_scheduling_loop()` returns the
loop's AbstractSchedulingLoop, `cast(T, x)` is `x`, `sys.version_info >= (3, 9)` holds.
"""
import ast
from pathlib import Path


class Unsupported(KeyError):
    def __str__(self):
        return str(self.args[0]) if self.args else "unsupported"


def find_func(tree, cls, name):
    for node in ast.walk(tree):
        if cls is None and isinstance(node, (ast.FunctionDef, ast.AsyncFunctionDef)) and node.name == name:
            return node
        if isinstance(node, ast.ClassDef) and node.name == cls:
            for n in node.body:
                if isinstance(n, (ast.FunctionDef, ast.AsyncFunctionDef)) and n.name == name:
                    return n
    raise Unsupported(f"{cls}.{name} not found")


def body_no_doc(fn):
    b = fn.body
    if b and isinstance(b[0], ast.Expr) and isinstance(getattr(b[0], "value", None), ast.Constant) \
            and isinstance(b[0].value.value, str):
        b = b[1:]
    return b


def argnames(fn):
    return [a.arg for a in fn.args.args] + [a.arg for a in fn.args.kwonlyargs]


def is_call(e, name=None, attr=None):
    if not isinstance(e, ast.Call):
        return False
    if name is not None:
        return isinstance(e.func, ast.Name) and e.func.id == name
    if attr is not None:
        return isinstance(e.func, ast.Attribute) and e.func.attr == attr
    return True


def kwargs(e):
    return {k.arg: k.value for k in e.keywords}


def is_none(e):
    return isinstance(e, ast.Constant) and e.value is None


def dotted(e):
    if isinstance(e, ast.Name):
        return e.id
    if isinstance(e, ast.Attribute):
        b = dotted(e.value)
        return None if b is None else f"{b}.{e.attr}"
    return None


# ---------------------------------------------------------------------------------------------
# 1. programs over a scheduling loop (scheduling.py; PrioritySchedulingMixin.call_pos)


class LoopProg:
    """CPS translation of a function body whose effects are calls on one scheduling loop.
    The queue state is threaded through fresh names `q1, q2, …`; an exception is `none`.
    `ops` maps the abstract operations to Lean text (QOps fields, or the generated mixin methods).

    env: loops   python names denoting the loop
         keys    python task names -> Lean key function
         hopt    python names holding Optional[Handle] -> Lean name (an `Option Nat`)
         hs      python names holding a Handle -> Lean name
         nats    python names holding a position -> Lean text
         optnat  python names holding Optional[int] -> Lean name
    """

    def __init__(self, ops, funcs, track_cbs):
        self.ops, self.funcs, self.track = ops, funcs, track_cbs
        self.n = 0
        self.used_cb = False
        self.used_new = False

    def fresh(self, b="q"):
        self.n += 1
        return f"{b}{self.n}"

    # -- expressions
    def nat(self, e, env):
        if isinstance(e, ast.Constant) and isinstance(e.value, int) and not isinstance(e.value, bool) and e.value >= 0:
            return str(e.value)
        if isinstance(e, ast.Name) and e.id in env["nats"]:
            return env["nats"][e.id]
        raise Unsupported(f"position expression {ast.dump(e)[:70]}")

    def handle(self, e, env):
        if isinstance(e, ast.Name) and e.id in env["hs"]:
            return env["hs"][e.id]
        raise Unsupported(f"handle expression {ast.dump(e)[:70]}")

    def is_loop(self, e, env):
        if isinstance(e, ast.Name) and e.id in env["loops"]:
            return True
        return is_call(e, name="get_scheduling_loop") and not e.args and not e.keywords

    def key(self, e, env):
        """loop.task_key(task), or a local holding it"""
        if isinstance(e, ast.Name) and e.id in env.get("keyvars", {}):
            return env["keyvars"][e.id]
        if is_call(e, attr="task_key") and self.is_loop(e.func.value, env) and len(e.args) == 1 \
                and isinstance(e.args[0], ast.Name) and e.args[0].id in env["keys"]:
            return env["keys"][e.args[0].id]
        raise Unsupported(f"key expression {ast.dump(e)[:70]}")

    def boolc(self, e):
        if isinstance(e, ast.Constant) and isinstance(e.value, bool):
            return "true" if e.value else "false"
        raise Unsupported("boolean argument")

    def ret(self, env):
        return f"some ({env['q']}, {env['cbs']})" if self.track else f"some {env['q']}"

    # -- statements
    def block(self, stmts, env, ind, suspended=False):
        if not stmts:
            return f"{ind}{self.ret(env)}"
        s, rest = stmts[0], stmts[1:]
        env = {k: (dict(v) if isinstance(v, dict) else v) for k, v in env.items()}
        if env.get("methalias"):
            al = env["methalias"]

            class _Sub(ast.NodeTransformer):
                def visit_Call(self_, node):
                    self_.generic_visit(node)
                    if isinstance(node.func, ast.Name) and node.func.id in al:
                        return ast.copy_location(ast.Call(func=al[node.func.id], args=node.args, keywords=node.keywords), node)
                    return node
            import copy
            if not isinstance(s, (ast.If, ast.For, ast.While, ast.Try)):
                s = _Sub().visit(copy.deepcopy(s))
            else:
                s = copy.copy(s)
                if isinstance(s, ast.If):
                    s.test = _Sub().visit(copy.deepcopy(s.test))
        if isinstance(s, ast.Return):
            if s.value is not None and not is_none(s.value) and not (
                    isinstance(s.value, ast.Name) and (s.value.id in env["keys"] or s.value.id in env["hs"])):
                raise Unsupported("return value")
            return f"{ind}{self.ret(env)}"
        if suspended:
            raise Unsupported("queue effects after the first suspension point")
        if isinstance(s, ast.Raise):
            if not (is_call(s.exc) and isinstance(s.exc.func, ast.Name) and s.exc.func.id == "ValueError"):
                raise Unsupported("raise of something else than ValueError")
            return f"{ind}none"
        if isinstance(s, ast.Assign) and len(s.targets) == 1 and isinstance(s.targets[0], ast.Name):
            name, v = s.targets[0].id, s.value
            if self.is_loop(v, env):
                env["loops"].add(name)
                return self.block(rest, env, ind)
            if isinstance(v, ast.Attribute) and self.is_loop(v.value, env):
                # `find = loop.queue_find`: a bound-method alias; its calls are calls of the method
                env["methalias"] = {**env.get("methalias", {}), name: v}
                return self.block(rest, env, ind)
            if dotted(getattr(v, "func", None)) == "asyncio.current_task" and not v.args:
                env["me"] = set(env.get("me", ())) | {name}
                return self.block(rest, env, ind)
            if is_call(v, attr="task_key"):
                env.setdefault("keyvars", {})
                env["keyvars"] = {**env["keyvars"], name: self.key(v, env)}
                return self.block(rest, env, ind)
            if is_call(v, attr="queue_find") and self.is_loop(v.func.value, env):
                kw = kwargs(v)
                args = list(v.args)
                k = kw.get("key", args[0] if args else None)
                rm = kw.get("remove", args[1] if len(args) > 1 else ast.Constant(False))
                if k is None:
                    raise Unsupported("queue_find without key")
                h, q2 = self.fresh("h"), self.fresh()
                env["hopt"][name] = h
                head = f"{ind}match {self.ops['find'](env['q'], self.key(k, env), self.boolc(rm))} with\n{ind}| ({h}, {q2}) =>\n"
                env["q"] = q2
                return head + self.block(rest, env, ind + "  ")
            if is_call(v, name="create_task") and v.args:
                if self.used_new:
                    raise Unsupported("more than one create_task")
                self.used_new = True
                q2 = self.fresh()
                env["keys"][name] = "isNew"
                line = f"{ind}let {q2} := {self.ops['append'](env['q'], 'priNew', 'hnew')}\n"
                env["q"] = q2
                return line + self.block(rest, env, ind)
            if is_call(v, attr="call_soon") and self.is_loop(v.func.value, env):
                # an event loop's call_soon: one append of the new handle
                if self.used_cb:
                    raise Unsupported("more than one new callback handle")
                self.used_cb = True
                env["hs"][name] = "h"
                return self._opt_step(self.ops["insert"](env["q"], "h"), rest, env, ind)
            raise Unsupported(f"assignment {ast.dump(v)[:70]}")
        if isinstance(s, ast.If):
            t = s.test
            # `if sys.version_info >= (3, N):` — true on every supported interpreter
            if isinstance(t, ast.Compare) and dotted(t.left) == "sys.version_info" and len(t.ops) == 1 \
                    and isinstance(t.ops[0], ast.GtE):
                return self.block(s.body + rest, env, ind)
            # a test of an Optional[Handle]: `not h` / `h is None` (none branch = body), `h` / `h is not None`
            hname = none_is_body = None
            if isinstance(t, ast.UnaryOp) and isinstance(t.op, ast.Not) and isinstance(t.operand, ast.Name) \
                    and t.operand.id in env["hopt"]:
                hname, none_is_body = t.operand.id, True
            elif isinstance(t, ast.Name) and t.id in env["hopt"]:
                hname, none_is_body = t.id, False
            elif isinstance(t, ast.Compare) and len(t.ops) == 1 and isinstance(t.ops[0], (ast.Is, ast.IsNot)) \
                    and isinstance(t.left, ast.Name) and t.left.id in env["hopt"] and is_none(t.comparators[0]):
                hname, none_is_body = t.left.id, isinstance(t.ops[0], ast.Is)
            if hname is not None:
                name = hname
                hv = self.fresh("h")
                nb, sb = (s.body, s.orelse) if none_is_body else (s.orelse, s.body)
                none_branch = self.block(nb + ([] if exits(nb) else rest), env, ind + "  ")
                env2 = {k: (dict(v) if isinstance(v, dict) else v) for k, v in env.items()}
                env2["hs"][name] = hv
                del env2["hopt"][name]
                some_branch = self.block(sb + ([] if exits(sb) else rest), env2, ind + "  ")
                return (f"{ind}match {env['hopt'][name]} with\n{ind}| none =>\n{none_branch}\n"
                        f"{ind}| some {hv} =>\n{some_branch}")
            if isinstance(t, ast.Compare) and len(t.ops) == 1 and isinstance(t.ops[0], (ast.Is, ast.IsNot)) \
                    and isinstance(t.left, ast.Name) and t.left.id in env["optnat"] and is_none(t.comparators[0]):
                name = t.left.id
                v = self.fresh(name + "_v")
                nb, sb = (s.body, s.orelse) if isinstance(t.ops[0], ast.Is) else (s.orelse, s.body)
                none_branch = self.block(nb + ([] if exits(nb) else rest), env, ind + "  ")
                env2 = {k: (dict(vv) if isinstance(vv, dict) else vv) for k, vv in env.items()}
                env2["nats"][name] = v
                some_branch = self.block(sb + ([] if exits(sb) else rest), env2, ind + "  ")
                return (f"{ind}match {env['optnat'][name]} with\n{ind}| none =>\n{none_branch}\n"
                        f"{ind}| some {v} =>\n{some_branch}")
            raise Unsupported(f"condition {ast.dump(t)[:70]}")
        if isinstance(s, ast.Expr):
            v = s.value
            awaited = isinstance(v, ast.Await)
            if awaited:
                v = v.value
            if not isinstance(v, ast.Call):
                raise Unsupported("expression statement")
            # await asyncio.sleep(0): the task's next step is call_soon'ed, the task is suspended
            if awaited and dotted(v.func) == "asyncio.sleep" and len(v.args) == 1 \
                    and isinstance(v.args[0], ast.Constant) and v.args[0].value == 0:
                q2 = self.fresh()
                line = f"{ind}let {q2} := {self.ops['append'](env['q'], 'pri', 'hme')}\n"
                env["q"] = q2
                return line + self.block(rest, env, ind, suspended=True)
            if not awaited and isinstance(v.func, ast.Attribute) and self.is_loop(v.func.value, env):
                m, a = v.func.attr, v.args
                if m == "queue_insert_pos" and len(a) == 2:
                    q2 = self.fresh()
                    line = f"{ind}let {q2} := {self.ops['insertPos'](env['q'], self.nat(a[1], env), self.handle(a[0], env))}\n"
                    env["q"] = q2
                    return line + self.block(rest, env, ind)
                if m == "queue_insert" and len(a) == 1:
                    return self._opt_step(self.ops["insert"](env["q"], self.handle(a[0], env)), rest, env, ind)
                if m == "queue_remove" and len(a) == 1:
                    return self._opt_step(self.ops["remove"](env["q"], self.handle(a[0], env)), rest, env, ind)
                if m == "call_pos" and len(a) >= 2:
                    if self.used_cb:
                        raise Unsupported("more than one new callback handle")
                    self.used_cb = True
                    cb = self.callback(a[1], a[2:], env)
                    q2 = self.fresh()
                    line = f"{ind}let {q2} := {self.ops['callPos'](env['q'], self.nat(a[0], env), 'hcb')}\n"
                    env["q"] = q2
                    env["cbs"] = f"({env['cbs']} ++ [(hcb, {cb})])"
                    return line + self.block(rest, env, ind)
                raise Unsupported(f"loop method {m}")
            if isinstance(v.func, ast.Name) and v.func.id in self.funcs:
                lean, sig, is_async, tracks, extra = self.funcs[v.func.id]
                if is_async != awaited:
                    raise Unsupported(f"{v.func.id}: await mismatch")
                args = " ".join([self.call_args(v, sig, env)] + extra)
                q2 = self.fresh()
                if tracks:
                    c2 = self.fresh("cbs")
                    pat = f"some ({q2}, {c2})"
                else:
                    pat = f"some {q2}"
                head = f"{ind}match {lean} {args} with\n{ind}| none => none\n{ind}| {pat} =>\n"
                env["q"] = q2
                if tracks:
                    env["cbs"] = f"({env['cbs']} ++ {c2})"
                return head + self.block(rest, env, ind + "  ", suspended=is_async)
            raise Unsupported(f"call {ast.dump(v.func)[:70]}")
        raise Unsupported(f"statement {type(s).__name__}")

    def _opt_step(self, expr, rest, env, ind):
        """an operation that may raise: `match … with | none => none | some q' => …` unless total"""
        text, total = expr
        q2 = self.fresh()
        env = dict(env)
        if total:
            env["q"] = q2
            return f"{ind}let {q2} := {text}\n" + self.block(rest, env, ind)
        head = f"{ind}match {text} with\n{ind}| none => none\n{ind}| some {q2} =>\n"
        env["q"] = q2
        return head + self.block(rest, env, ind + "  ")

    def callback(self, f, args, env):
        """the descriptor of a callback handed to call_pos"""
        if isinstance(f, ast.Name) and f.id == "task_reinsert" and len(args) == 2:
            t, p = args
            if (dotted(getattr(t, "func", None)) == "asyncio.current_task" and not t.args) or \
                    (isinstance(t, ast.Name) and t.id in env.get("me", ())):
                return f"Sched.HK.reins me {self.nat(p, env)}"
        raise Unsupported(f"callback {ast.dump(f)[:60]}")

    def call_args(self, call, sig, env):
        """positional/keyword arguments of a call of a translated function -> Lean arguments"""
        kw = kwargs(call)
        out = []
        for i, (pname, kind) in enumerate(sig):
            e = call.args[i] if i < len(call.args) else kw.get(pname)
            if kind == "loop":
                if e is None or not self.is_loop(e, env):
                    raise Unsupported(f"{pname}: not the loop")
                continue
            if kind == "key":
                if not (isinstance(e, ast.Name) and e.id in env["keys"]):
                    raise Unsupported(f"{pname}: not a task")
                out.append(env["keys"][e.id])
            elif kind == "nat":
                out.append(self.nat(e, env))
            elif kind == "optnat":
                if e is None or is_none(e):
                    out.append("none")
                elif isinstance(e, ast.Name) and e.id in env["optnat"]:
                    out.append(env["optnat"][e.id])
                else:
                    out.append(f"(some {self.nat(e, env)})")
            else:
                raise Unsupported(kind)
        return " ".join([f"O {env['q']}"] + out)


def exits(stmts):
    return bool(stmts) and isinstance(stmts[-1], (ast.Return, ast.Raise))


def qops(o="O"):
    return {
        "find": lambda q, k, rm: f"{o}.find {q} {k} {rm}",
        "append": lambda q, p, h: f"{o}.append {q} {p} {h}",
        "insert": lambda q, h: (f"{o}.append {q} (gp {h}) {h}", True),
        "insertPos": lambda q, p, h: f"{o}.insertPos {q} {p} {h}",
        "remove": lambda q, h: (f"{o}.remove {q} {h}", False),
        "callPos": lambda q, p, h: f"{o}.callPos {q} {p} {h}",
    }


def gen_scheduling(tree):
    """scheduling.py: the functions over an abstract loop `O : QOps Q`"""
    out = []
    funcs = {}
    HDR = "{Q : Type} (O : Sched.QOps Q) (q : Q)"
    TAIL = "(me hcb hme : Nat) (pri : Rat)"

    def env0(fn, kinds):
        env = {"q": "q", "cbs": "[]", "loops": set(), "keys": {}, "hopt": {}, "hs": {}, "nats": {}, "optnat": {}}
        for a in argnames(fn):
            k = kinds.get(a)
            if k == "loop":
                env["loops"].add(a)
            elif k == "key":
                env["keys"][a] = "isTask"
            elif k == "nat":
                env["nats"][a] = a + "_"
            elif k == "optnat":
                env["optnat"][a] = a + "_"
            elif k == "ignore":
                pass
            else:
                raise Unsupported(f"{fn.name}: parameter {a}")
        return env

    def sig_of(fn, kinds):
        return [(a, kinds[a]) for a in argnames(fn) if kinds.get(a) not in ("ignore",)]

    def params(fn, kinds):
        ps = []
        for a in argnames(fn):
            k = kinds.get(a)
            if k == "key":
                ps.append("(isTask : Nat → Bool)")
            elif k == "nat":
                ps.append(f"({a}_ : Nat)")
            elif k == "optnat":
                ps.append(f"({a}_ : Option Nat)")
        return " ".join(ps)

    # name -> (lean name, kinds of the python parameters, tracks callbacks?, extra params)
    plan = [
        ("_task_reinsert", "taskReinsert", {"loop": "loop", "task": "key", "pos": "nat"}, False, ""),
        ("task_reinsert", "taskReinsertApi", {"task": "key", "pos": "nat"}, False, ""),
        ("_sleep_insert", "sleepInsertInner", {"loop": "loop", "pos": "nat"}, True, TAIL),
        ("sleep_insert", "sleepInsert", {"pos": "nat"}, True, TAIL),
        ("task_switch", "taskSwitch", {"task": "key", "insert_pos": "optnat"}, True, TAIL),
        ("create_task_descend", "createTaskDescend", {"coro": "ignore", "name": "ignore"}, True,
         "(isNew : Nat → Bool) (hnew : Nat) (priNew : Rat) " + TAIL),
        ("create_task_start", "createTaskStart", {"coro": "ignore", "name": "ignore"}, True,
         "(isNew : Nat → Bool) (hnew : Nat) (priNew : Rat) " + TAIL),
    ]
    for pyname, lean, kinds, tracks, extra in plan:
        fn = find_func(tree, None, pyname)
        is_async = isinstance(fn, ast.AsyncFunctionDef)
        lp = LoopProg(qops(), funcs, tracks)
        body = lp.block(body_no_doc(fn), env0(fn, kinds), "  ")
        rty = "Option (Q × List (Nat × Sched.HK))" if tracks else "Option Q"
        ps = " ".join(x for x in [HDR, params(fn, kinds), extra] if x)
        out.append(f"/-- `scheduling.{pyname}`" + (" up to its suspension point" if is_async else "") + " -/\n"
                   f"def {lean} {ps} : {rty} :=\n{body}\n")
        # callers pass the python arguments, then the context parameters (same names in their own scope)
        funcs[pyname] = (lean, sig_of(fn, kinds), is_async, tracks, ["me", "hcb", "hme", "pri"] if tracks else [])
    return out, funcs


# ---------------------------------------------------------------------------------------------
# 2. one-line delegations of the loop classes


class Delegation:
    """`return <expr>` / `<expr>` methods of SchedulingLoopHelper, SchedulingMixin (a deque) and
    PrioritySchedulingMixin (a PosPriorityQueue)."""

    def __init__(self, cls_node, default_mod_names, deque_attr_methods):
        self.cls = cls_node
        self.methods = {n.name: n for n in cls_node.body if isinstance(n, ast.FunctionDef)}
        self.dq_methods = deque_attr_methods
        self.defaults = default_mod_names

    def is_queue(self, e, kind):
        """does `e` denote the ready queue of this class?"""
        d = dotted(e)
        if d is not None and getattr(self, "qaliases", {}).get(d) == kind:
            return True
        if kind == "deque":
            if d in ("self._queue", "self._ready"):
                return True
            if is_call(e, attr="get_ready_queue") and dotted(e.func.value) == "self" and not e.args:
                m = self.methods.get("get_ready_queue")
                b = body_no_doc(m) if m else []
                return len(b) == 1 and isinstance(b[0], ast.Return) and dotted(b[0].value) == "self._ready"
            return False
        return d == "self.ready_queue"

    def is_loop_expr(self, e, aliases):
        d = dotted(e)
        if d in ("self._loop", "self") or d in aliases:
            return True
        return is_call(e, name="cast") and len(e.args) == 2 and dotted(e.args[1]) == "self"

    def func_name(self, e):
        d = dotted(e.func)
        if d is None:
            return None
        return d.split(".")[-1] if d.split(".")[0] in ("default",) or "." not in d else None

    def single(self, name):
        m = self.methods.get(name)
        if m is None:
            raise Unsupported(f"{self.cls.name}.{name} not found")
        aliases = set()
        self.qaliases = {}
        body = body_no_doc(m)
        while len(body) > 1 and isinstance(body[0], ast.Assign) and isinstance(body[0].targets[0], ast.Name):
            if self.is_loop_expr(body[0].value, aliases):
                aliases.add(body[0].targets[0].id)
            elif self.is_queue(body[0].value, "deque"):
                self.qaliases[body[0].targets[0].id] = "deque"
            elif self.is_queue(body[0].value, "prio"):
                self.qaliases[body[0].targets[0].id] = "prio"
            else:
                break
            body = body[1:]
        if len(body) != 1:
            raise Unsupported(f"{self.cls.name}.{name}: more than one statement")
        s = body[0]
        if isinstance(s, ast.Return):
            return m, s.value, aliases
        if isinstance(s, ast.Expr):
            return m, s.value, aliases
        raise Unsupported(f"{self.cls.name}.{name}: {type(s).__name__}")

    def arg(self, m, e, want):
        names = [a.arg for a in m.args.args][1:]
        if isinstance(e, ast.Name) and e.id in names:
            return want[names.index(e.id)]
        raise Unsupported(f"{self.cls.name}.{m.name}: argument {ast.dump(e)[:50]}")


def gen_deque_class(cls_node, ns):
    d = Delegation(cls_node, None, None)
    out = [f"namespace {ns}"]

    def need(cond, what):
        if not cond:
            raise Unsupported(f"{cls_node.name}.{what}")

    m, e, _ = d.single("queue_len")
    need(is_call(e, name="len") and len(e.args) == 1 and d.is_queue(e.args[0], "deque"), "queue_len")
    out.append("def queueLen {α : Type} (q : List α) : Nat := q.length")
    m, e, _ = d.single("queue_items")
    need(is_call(e, name="list") and len(e.args) == 1 and d.is_queue(e.args[0], "deque"), "queue_items")
    out.append("def queueItems {α : Type} (q : List α) : List α × List α := (q, q)")
    m, e, _ = d.single("queue_find")
    need(is_call(e) and d.func_name(e) == "queue_find" and len(e.args) == 3 and d.is_queue(e.args[0], "deque"), "queue_find")
    a = [d.arg(m, x, ["key", "rm"]) for x in e.args[1:]]
    out.append(f"def queueFind {{α : Type}} [BEq α] (q : List α) (key : α → Bool) (rm : Bool) : "
               f"Option (Option α × List α) := Gen.queueFind q {a[0]} {a[1]}")
    m, e, _ = d.single("queue_insert")
    need(is_call(e, attr="append") and d.is_queue(e.func.value, "deque") and len(e.args) == 1, "queue_insert")
    out.append(f"def queueInsert {{α : Type}} (q : List α) (h : α) : List α := q ++ [{d.arg(m, e.args[0], ['h'])}]")
    m, e, _ = d.single("queue_insert_pos")
    need(is_call(e, attr="insert") and d.is_queue(e.func.value, "deque") and len(e.args) == 2, "queue_insert_pos")
    a = [d.arg(m, x, ["h", "pos"]) for x in e.args]
    out.append(f"def queueInsertPos {{α : Type}} (q : List α) (h : α) (pos : Int) : List α := Deque.insert q {a[0]} {a[1]}")
    m, e, _ = d.single("queue_remove")
    need(is_call(e) and d.func_name(e) == "queue_remove" and len(e.args) == 2 and d.is_queue(e.args[0], "deque"), "queue_remove")
    out.append(f"def queueRemove {{α : Type}} [BEq α] (q : List α) (h : α) : Option (List α) := "
               f"Gen.queueRemove q {d.arg(m, e.args[1], ['h'])}")
    m, e, al = d.single("call_pos")
    need(is_call(e) and d.func_name(e) == "call_pos" and len(e.args) >= 3 and d.is_loop_expr(e.args[0], al), "call_pos")
    names = [x.arg for x in m.args.args][1:]
    need(isinstance(e.args[1], ast.Name) and e.args[1].id == names[0]
         and isinstance(e.args[2], ast.Name) and e.args[2].id == names[1], "call_pos arguments")
    out.append("def callPos {α : Type} [BEq α] (q : List α) (pos : Int) (h : α) : Option (List α) := Gen.callPos q pos h")
    out.append(f"end {ns}")
    return out


def gen_queue_remove(dflt):
    fn = find_func(dflt, None, "queue_remove")
    qn, hn = [a.arg for a in fn.args.args]
    body = body_no_doc(fn)

    def is_remove(s):
        return isinstance(s, ast.Expr) and is_call(s.value, attr="remove") and dotted(s.value.func.value) == qn \
            and len(s.value.args) == 1 and dotted(s.value.args[0]) == hn

    ok = False
    if len(body) == 1 and is_remove(body[0]):
        ok = True
    if len(body) == 1 and isinstance(body[0], ast.Try) and len(body[0].body) == 1 and is_remove(body[0].body[0]) \
            and not body[0].orelse and not body[0].finalbody and len(body[0].handlers) == 1:
        h = body[0].handlers[0]
        # `except ValueError: raise ValueError(...)`: the same exception type is re-raised
        if dotted(h.type) == "ValueError" and len(h.body) == 1 and isinstance(h.body[0], ast.Raise) \
                and (h.body[0].exc is None or (is_call(h.body[0].exc) and dotted(h.body[0].exc.func) == "ValueError")):
            ok = True
    if not ok:
        raise Unsupported("queue_remove is no longer `queue.remove(in_handle)` (re-raising ValueError)")
    return ("/-- `default.queue_remove(queue, in_handle)`; `none` = ValueError -/\n"
            "def queueRemove {α : Type} [BEq α] (q : List α) (h : α) : Option (List α) := Deque.remove q h\n")


def gen_prio_mixin(cls_node):
    d = Delegation(cls_node, None, None)
    out = ["namespace PrioMixin", "variable (H : HeapLib (Entry PV)) (draw : Nat → Rat)"]

    def need(cond, what):
        if not cond:
            raise Unsupported(f"PrioritySchedulingMixin.{what}")

    m, e, _ = d.single("queue_len")
    need(is_call(e, name="len") and d.is_queue(e.args[0], "prio"), "queue_len")
    out.append("def queueLen (s : PosPQ) : Nat := s.len")
    m, e, _ = d.single("queue_items")
    need(is_call(e, name="iter") and d.is_queue(e.args[0], "prio"), "queue_items")
    out.append("def queueItems (s : PosPQ) : List Nat × PosPQ := s.iter")
    m, e, _ = d.single("queue_find")
    need(is_call(e, attr="find") and d.is_queue(e.func.value, "prio") and len(e.args) == 2, "queue_find")
    a = [d.arg(m, x, ["key", "rm"]) for x in e.args]
    out.append(f"def queueFind (s : PosPQ) (key : Nat → Bool) (rm : Bool) : Option Nat × PosPQ := s.find H {a[0]} {a[1]}")
    m, e, _ = d.single("queue_remove")
    need(is_call(e, attr="remove") and d.is_queue(e.func.value, "prio") and len(e.args) == 1, "queue_remove")
    out.append(f"def queueRemove (s : PosPQ) (h : Nat) : Option PosPQ := s.remove H {d.arg(m, e.args[0], ['h'])} draw")
    m, e, _ = d.single("queue_insert")
    need(is_call(e, attr="append") and d.is_queue(e.func.value, "prio") and len(e.args) == 1, "queue_insert")
    out.append(f"def queueInsert (gp : Nat → Rat) (s : PosPQ) (h : Nat) : PosPQ := s.append H gp {d.arg(m, e.args[0], ['h'])} draw")
    m, e, _ = d.single("queue_insert_pos")
    need(is_call(e, attr="insert") and d.is_queue(e.func.value, "prio") and len(e.args) == 2, "queue_insert_pos")
    a = [d.arg(m, x, ["h", "pos"]) for x in e.args]
    out.append(f"def queueInsertPos (s : PosPQ) (h : Nat) (pos : Nat) : PosPQ := s.insert H {a[0]} {a[1]} draw")

    # call_pos: a statement sequence over `self`
    fn = d.methods.get("call_pos")
    if fn is None:
        raise Unsupported("PrioritySchedulingMixin.call_pos not found")
    names = [a.arg for a in fn.args.args]
    ops = {
        "insert": lambda q, h: (f"queueInsert H draw gp {q} {h}", True),
        "remove": lambda q, h: (f"queueRemove H draw {q} {h}", False),
        "insertPos": lambda q, p, h: f"queueInsertPos H draw {q} {h} {p}",
    }
    lp = LoopProg(ops, {}, False)
    env = {"q": "s", "cbs": "[]", "loops": {names[0]}, "keys": {}, "hopt": {}, "hs": {}, "nats": {names[1]: "pos"},
           "optnat": {}}
    body = lp.block(body_no_doc(fn), env, "  ")
    out.append("/-- `call_pos`: `call_soon` (one append of the new handle `h`), `queue_remove`, `queue_insert_pos` -/\n"
               f"def callPos (gp : Nat → Rat) (s : PosPQ) (pos : Nat) (h : Nat) : Option PosPQ :=\n{body}")

    out.append(gen_get_priority(d.methods.get("get_priority")))
    out.append(gen_task_reschedule(d.methods.get("task_reschedule")))
    out.append("end PrioMixin")
    return out


# ---------------------------------------------------------------------------------------------
# 3. option-valued decision code: get_priority, task_reschedule, task_from_handle, is_task_callback


def _try_attr(s, exc="AttributeError"):
    """`try: <body> except <exc>: <handler>` -> (body, handler) or None"""
    if isinstance(s, ast.Try) and len(s.handlers) == 1 and not s.orelse and not s.finalbody \
            and dotted(s.handlers[0].type) == exc and s.handlers[0].name is None:
        return s.body, s.handlers[0].body
    return None


def gen_get_priority(fn):
    """over `taskOf : Option (Option Rat)` = task_from_handle(handle): none = not a task's handle;
    some none = a task without effective_priority (AttributeError); some (some p)"""
    if fn is None:
        raise Unsupported("get_priority not found")
    hn = fn.args.args[1].arg

    def fl(e):
        if isinstance(e, ast.Constant) and isinstance(e.value, (int, float)) and not isinstance(e.value, bool) \
                and float(e.value) == int(e.value):
            v = int(e.value)
            return str(v) if v >= 0 else f"({v})"
        raise Unsupported("get_priority: constant")

    def val(e, env):
        if is_call(e, name="cast") and len(e.args) == 2:
            return val(e.args[1], env)
        if isinstance(e, ast.Name) and e.id in env["rats"]:
            return env["rats"][e.id]
        return fl(e)

    def block(stmts, env, ind):
        if not stmts:
            raise Unsupported("get_priority may fall off its end")
        s, rest = stmts[0], stmts[1:]
        if isinstance(s, ast.Pass):
            return block(rest, env, ind)
        if isinstance(s, ast.Return):
            return f"{ind}{val(s.value, env)}"
        if isinstance(s, ast.Assign) and isinstance(s.targets[0], ast.Name) and is_call(s.value, attr="task_from_handle") \
                and dotted(s.value.func.value) == "self" and len(s.value.args) == 1 and dotted(s.value.args[0]) == hn:
            return block(rest, {**env, "opt": {**env["opt"], s.targets[0].id: "taskOf"}}, ind)
        if isinstance(s, ast.If) and isinstance(s.test, ast.Compare) and isinstance(s.test.ops[0], (ast.Is, ast.IsNot)) \
                and isinstance(s.test.left, ast.Name) and s.test.left.id in env["opt"] and is_none(s.test.comparators[0]):
            name = s.test.left.id
            v = name + "_v"
            nbody, sbody = (s.body, s.orelse) if isinstance(s.test.ops[0], ast.Is) else (s.orelse, s.body)
            nb = block(nbody + ([] if exits(nbody) else rest), env, ind + "  ")
            sb = block(sbody + ([] if exits(sbody) else rest), {**env, "task": {**env["task"], name: v}}, ind + "  ")
            return f"{ind}match {env['opt'][name]} with\n{ind}| none =>\n{nb}\n{ind}| some {v} =>\n{sb}"
        t = _try_attr(s)
        if t:
            tb, hb = t
            first = tb[0]

            def eff_call(e):
                """`X.effective_priority()` (possibly under cast(float, …)) of a known task -> its view"""
                if is_call(e, name="cast") and len(e.args) == 2:
                    e = e.args[1]
                if is_call(e, attr="effective_priority") and not e.args and isinstance(e.func.value, ast.Name) \
                        and e.func.value.id in env["task"]:
                    return env["task"][e.func.value.id]
                return None

            hb_ = block(hb + ([] if exits(hb) else rest), env, ind + "  ")
            if isinstance(first, ast.Assign) and isinstance(first.targets[0], ast.Name) and eff_call(first.value):
                pn = first.targets[0].id
                ok = block(tb[1:] + ([] if exits(tb[1:]) else rest), {**env, "rats": {**env["rats"], pn: pn + "_"}}, ind + "  ")
                return f"{ind}match {eff_call(first.value)} with\n{ind}| none =>\n{hb_}\n{ind}| some {pn}_ =>\n{ok}"
            if isinstance(first, ast.Return) and eff_call(first.value):
                return f"{ind}match {eff_call(first.value)} with\n{ind}| none =>\n{hb_}\n{ind}| some p_ =>\n{ind}  p_"
        raise Unsupported(f"get_priority: statement {ast.dump(s)[:70]}")

    body = block(body_no_doc(fn), {"opt": {}, "task": {}, "rats": {}}, "  ")
    return ("/-- `get_priority(handle)` over `taskOf` = what `task_from_handle(handle)` is: `none` not a task's\n"
            "    handle, `some none` a task without `effective_priority` (AttributeError), `some (some p)` -/\n"
            f"def getPriority (taskOf : Option (Option Rat)) : Rat :=\n{body}")


def gen_task_reschedule(fn):
    if fn is None:
        raise Unsupported("task_reschedule not found")
    tn = fn.args.args[1].arg
    body = body_no_doc(fn)
    t = _try_attr(body[0]) if body else None
    if not t:
        raise Unsupported("task_reschedule: try/except AttributeError expected first")
    tb, hb = t
    if not (len(tb) == 1 and isinstance(tb[0], ast.Assign) and is_call(tb[0].value, attr="effective_priority")
            and dotted(tb[0].value.func.value) == tn and len(hb) == 1 and isinstance(hb[0], ast.Return)
            and hb[0].value is None):
        raise Unsupported("task_reschedule: try body / handler")
    pn = tb[0].targets[0].id
    rest = body[1:]
    if len(rest) != 2 or not isinstance(rest[0], ast.FunctionDef):
        raise Unsupported("task_reschedule: key function + reschedule call expected")
    kf = rest[0]
    kb = body_no_doc(kf)
    hn = kf.args.args[0].arg
    if not (len(kb) == 1 and isinstance(kb[0], ast.Return) and isinstance(kb[0].value, ast.Compare)
            and isinstance(kb[0].value.ops[0], ast.Is)):
        raise Unsupported("task_reschedule: key is not `task is self.task_from_handle(handle)`")
    l, r = kb[0].value.left, kb[0].value.comparators[0]
    if dotted(r) == tn:
        l, r = r, l
    if not (dotted(l) == tn and is_call(r, attr="task_from_handle") and dotted(r.func.value) == "self"
            and len(r.args) == 1 and dotted(r.args[0]) == hn):
        raise Unsupported("task_reschedule: key is not `task is self.task_from_handle(handle)`")
    c = rest[1]
    if not (isinstance(c, ast.Expr) and is_call(c.value, attr="reschedule") and dotted(c.value.func.value) == "self.ready_queue"
            and len(c.value.args) == 2 and dotted(c.value.args[0]) == kf.name and dotted(c.value.args[1]) == pn):
        raise Unsupported("task_reschedule: self.ready_queue.reschedule(key, priority) expected")
    return ("/-- `task_reschedule(task)`: `eff` = `task.effective_priority()` (`none` = AttributeError), `isTask` =\n"
            "    the key `task is self.task_from_handle(handle)` -/\n"
            "def taskReschedule (s : PosPQ) (eff : Option Rat) (isTask : Nat → Bool) : PosPQ :=\n"
            f"  match eff with\n  | none => s\n  | some {pn}_ => (s.reschedule H isTask {pn}_).2")


class ViewProg:
    """Statement-level translation of code that inspects a callback object through the view
    `CallbackView` (`__self__`, `__name__`, the name of its type):

      values   cb      the callback (a parameter, or `handle._callback`)
               obj     `callback.__self__` : `Option Nat` (`some t` = task `t`, `none` = not a Task);
                       reading it raises AttributeError when the callback is not bound (`cb.self_ = none`)
               optstr  `getattr(callback, "__name__", None)` : `Option String`
               str     `type(callback).__name__`, `callback.__name__`-like strings : `String`
      `a or b` on (optstr, str) / `if not name: name = …` : Python truthiness of `None` and `""`
      conditions: `isinstance(obj, TaskTypes)`, `is_task_callback(cb)`, `name in TASK_CALLBACK_NAMES`,
                  `not`, `and`, `or`, truthiness of a string
      statements: assignments, `try: x = cb.__self__ except AttributeError: <stmts>`, `if` (guard
                  clauses: the continuation is duplicated), `return`
    """

    def __init__(self, ret, funcs):
        self.ret, self.funcs = ret, funcs      # ret: "bool" | "opttask"
        self.n = 0

    def fresh(self, b):
        self.n += 1
        return f"{b}{self.n}"

    # -- values: -> (lean text, kind)
    def val(self, e, env):
        if isinstance(e, ast.Name) and e.id in env:
            return env[e.id]
        if is_call(e, name="cast") and len(e.args) == 2:
            return self.val(e.args[1], env)
        if isinstance(e, ast.Attribute) and e.attr == "_callback" and isinstance(e.value, ast.Name) \
                and env.get(e.value.id, (None, None))[1] == "handle":
            return env[e.value.id][0], "cb"
        if is_call(e, name="getattr") and len(e.args) == 3 and is_none(e.args[2]) \
                and isinstance(e.args[1], ast.Constant) and e.args[1].value == "__self__":
            # the try/except-AttributeError read with the default None: as an object, None is "not a Task"
            # (`isinstance(None, TaskTypes)` is False), the same as a callback bound to something else
            c, k = self.val(e.args[0], env)
            if k == "cb":
                return f"(match {c}.self_ with | none => none | some o => o)", "obj"
        if is_call(e, name="getattr") and len(e.args) == 3 and is_none(e.args[2]) \
                and isinstance(e.args[1], ast.Constant) and e.args[1].value == "__name__":
            c, k = self.val(e.args[0], env)
            if k == "cb":
                return f"{c}.name", "optstr"
        if isinstance(e, ast.Attribute) and e.attr == "__name__" and is_call(e.value, name="type") and len(e.value.args) == 1:
            c, k = self.val(e.value.args[0], env)
            if k == "cb":
                return f"{c}.typeName", "str"
        if isinstance(e, ast.Attribute) and e.attr == "__name__" and isinstance(e.value, ast.Name) \
                and env.get(e.value.id, (None, None))[1] == "type":
            return f"{env[e.value.id][0]}.typeName", "str"
        if is_call(e, name="type") and len(e.args) == 1:
            c, k = self.val(e.args[0], env)
            if k == "cb":
                return c, "type"
        if isinstance(e, ast.BoolOp) and isinstance(e.op, ast.Or) and len(e.values) == 2:
            (a, ka), (b, kb) = self.val(e.values[0], env), self.val(e.values[1], env)
            if ka == "optstr" and kb == "str":
                return f"(match {a} with | some n => if n = \"\" then {b} else n | none => {b})", "str"
            if ka == "str" and kb == "str":
                return f"(if {a} = \"\" then {b} else {a})", "str"
        if isinstance(e, ast.IfExp):
            # `n if n else T` on an optional string is `n or T`; otherwise a conditional on strings
            if isinstance(e.test, ast.Name) and isinstance(e.body, ast.Name) and e.test.id == e.body.id:
                return self.val(ast.BoolOp(op=ast.Or(), values=[e.body, e.orelse]), env)
            (a, ka), (b, kb) = self.val(e.body, env), self.val(e.orelse, env)
            if ka == "str" and kb == "str":
                return f"(if {self.cond(e.test, env)} = true then {a} else {b})", "str"
            raise Unsupported("conditional expression on these values")
        if isinstance(e, ast.Constant) and isinstance(e.value, str):
            return '"' + e.value.replace('\\', '\\\\').replace('"', '\\"') + '"', "str"
        raise Unsupported(f"value {ast.dump(e)[:80]}")

    # -- conditions: -> Bool-valued lean text
    def cond(self, e, env):
        if isinstance(e, ast.Constant) and isinstance(e.value, bool):
            return "true" if e.value else "false"
        if isinstance(e, ast.UnaryOp) and isinstance(e.op, ast.Not):
            return f"(!{self.cond(e.operand, env)})"
        if isinstance(e, ast.BoolOp):
            op = " && " if isinstance(e.op, ast.And) else " || "
            return "(" + op.join(self.cond(v, env) for v in e.values) + ")"
        if is_call(e, name="isinstance") and len(e.args) == 2 and dotted(e.args[1]) == "TaskTypes":
            o, k = self.val(e.args[0], env)
            if k == "obj":
                return f"{o}.isSome"
        if is_call(e) and isinstance(e.func, ast.Name) and e.func.id in self.funcs and len(e.args) == 1:
            c, k = self.val(e.args[0], env)
            if k == "cb":
                return f"({self.funcs[e.func.id]} {c})"
        if isinstance(e, ast.Compare) and len(e.ops) == 1 and isinstance(e.ops[0], (ast.In, ast.NotIn)) \
                and dotted(e.comparators[0]) == "TASK_CALLBACK_NAMES":
            v, k = self.val(e.left, env)
            if k == "str":
                t = f"(taskCallbackNames.contains {v})"
            elif k == "optstr":
                t = f"(match {v} with | some n => taskCallbackNames.contains n | none => false)"
            else:
                raise Unsupported("membership of a non-string")
            return t if isinstance(e.ops[0], ast.In) else f"(!{t})"
        if isinstance(e, ast.Compare) and len(e.ops) == 1 and isinstance(e.ops[0], (ast.Is, ast.IsNot)) \
                and is_none(e.comparators[0]):
            v, k = self.val(e.left, env)
            if k == "optstr":
                t = f"{v}.isSome"
                return f"(!{t})" if isinstance(e.ops[0], ast.Is) else t
        if isinstance(e, (ast.Name, ast.Call, ast.Attribute, ast.BoolOp)):
            v, k = self.val(e, env)                 # truthiness of a string
            if k == "optstr":
                return f"(match {v} with | some n => n != \"\" | none => false)"
            if k == "str":
                return f"({v} != \"\")"
        raise Unsupported(f"condition {ast.dump(e)[:80]}")

    def result(self, e, env):
        if self.ret == "bool":
            return self.cond(e, env)
        if e is None or is_none(e):
            return "none"
        if isinstance(e, ast.IfExp):
            return f"(if {self.cond(e.test, env)} = true then {self.result(e.body, env)} else {self.result(e.orelse, env)})"
        v, k = self.val(e, env)
        if k == "obj":
            return v                                # the object bound to the callback, if it is a Task
        raise Unsupported("returned value")

    def block(self, stmts, env, ind):
        if not stmts:
            if self.ret == "opttask":
                return f"{ind}none"                 # falling off the end returns None
            raise Unsupported("a predicate may fall off its end")
        s, rest = stmts[0], stmts[1:]
        env = dict(env)
        if isinstance(s, ast.Return):
            return ind + self.result(s.value, env)
        if isinstance(s, (ast.Assign, ast.AnnAssign)):
            tgt = s.targets[0] if isinstance(s, ast.Assign) else s.target
            if not isinstance(tgt, ast.Name) or s.value is None:
                raise Unsupported("assignment target")
            v, k = self.val(s.value, env)
            if k in ("cb", "handle", "type"):
                env[tgt.id] = (v, k)
                return self.block(rest, env, ind)
            nm = self.fresh(tgt.id + "_")
            env[tgt.id] = (nm, k)
            return f"{ind}let {nm} := {v}\n" + self.block(rest, env, ind)
        if isinstance(s, ast.Try) and len(s.handlers) == 1 and not s.orelse and not s.finalbody \
                and dotted(s.handlers[0].type) == "AttributeError" and s.handlers[0].name is None \
                and len(s.body) >= 1 and isinstance(s.body[0], ast.Assign) and isinstance(s.body[0].targets[0], ast.Name) \
                and isinstance(s.body[0].value, ast.Attribute) and s.body[0].value.attr == "__self__":
            c, k = self.val(s.body[0].value.value, env)
            if k != "cb":
                raise Unsupported("__self__ of something that is not the callback")
            nm = self.fresh(s.body[0].targets[0].id + "_")
            hb = s.handlers[0].body
            none_txt = self.block(hb + ([] if exits(hb) else rest), env, ind + "  ")
            env2 = {**env, s.body[0].targets[0].id: (nm, "obj")}
            tb = s.body[1:]
            some_txt = self.block(tb + ([] if exits(tb) else rest), env2, ind + "  ")
            return f"{ind}match {c}.self_ with\n{ind}| none =>\n{none_txt}\n{ind}| some {nm} =>\n{some_txt}"
        if isinstance(s, ast.If):
            c = self.cond(s.test, env)
            then = self.block(s.body + ([] if exits(s.body) else rest), env, ind + "  ")
            els = self.block((s.orelse + ([] if exits(s.orelse) else rest)) if s.orelse else rest, env, ind + "  ")
            return f"{ind}if {c} = true then\n{then}\n{ind}else\n{els}"
        if isinstance(s, ast.Pass):
            return self.block(rest, env, ind)
        raise Unsupported(f"statement {ast.dump(s)[:80]}")


def gen_task_from_handle(dflt):
    # TASK_CALLBACK_NAMES = frozenset((...)) of string constants
    names = None
    for n in dflt.body:
        if isinstance(n, ast.Assign) and dotted(n.targets[0]) == "TASK_CALLBACK_NAMES":
            v = n.value
            if is_call(v, name="frozenset") and len(v.args) == 1:
                v = v.args[0]
            if isinstance(v, (ast.Tuple, ast.List, ast.Set)) and all(
                    isinstance(x, ast.Constant) and isinstance(x.value, str) for x in v.elts):
                names = [x.value for x in v.elts]
    if names is None:
        raise Unsupported("TASK_CALLBACK_NAMES is not a literal set of strings")
    fn = find_func(dflt, None, "is_task_callback")
    if len(fn.args.args) != 1:
        raise Unsupported("is_task_callback signature")
    itc = ViewProg("bool", {}).block(body_no_doc(fn), {fn.args.args[0].arg: ("cb", "cb")}, "  ")
    fn2 = find_func(dflt, None, "task_from_handle")
    if len(fn2.args.args) != 1:
        raise Unsupported("task_from_handle signature")
    tfh = ViewProg("opttask", {"is_task_callback": "isTaskCallback"}).block(
        body_no_doc(fn2), {fn2.args.args[0].arg: ("cb", "handle")}, "  ")
    lst = ", ".join('"' + n + '"' for n in names)
    return f"""/-- what `task_from_handle` / `is_task_callback` read of a handle's callback:
    `self_` = `callback.__self__` (`none` = AttributeError, `some none` = bound to something that is
    not a Task, `some (some t)` = bound to task `t`), `name` = `getattr(callback, "__name__", None)`,
    `typeName` = `type(callback).__name__` -/
structure CallbackView where
  self_ : Option (Option Nat)
  name : Option String
  typeName : String

/-- `default.TASK_CALLBACK_NAMES` -/
def taskCallbackNames : List String := [{lst}]

/-- `default.is_task_callback(callback)`, statement by statement -/
def isTaskCallback (cb : CallbackView) : Bool :=
{itc}

/-- `default.task_from_handle(handle)`, statement by statement (`cb` = the view of `handle._callback`) -/
def taskFromHandle (cb : CallbackView) : Option Nat :=
{tfh}
"""


def gen_extensions(ext):
    """ready_len / ready_remove / ready_find / ready_insert: `get_scheduling_loop(loop).<method>(…)`"""
    out = []

    def sl_call(e, aliases):
        """e = <scheduling loop>.<method>(args) -> (method, args, keywords)"""
        if is_call(e) and isinstance(e.func, ast.Attribute):
            b = e.func.value
            if (isinstance(b, ast.Name) and b.id in aliases) or is_call(b, name="get_scheduling_loop"):
                return e.func.attr, e.args, kwargs(e)
        return None

    def one(fname):
        fn = find_func(ext, None, fname)
        body = body_no_doc(fn)
        aliases = set()
        if len(body) == 2 and isinstance(body[0], ast.Assign) and is_call(body[0].value, name="get_scheduling_loop"):
            aliases.add(body[0].targets[0].id)
            body = body[1:]
        if len(body) != 1 or not isinstance(body[0], (ast.Return, ast.Expr)):
            raise Unsupported(f"extensions.{fname}: not a single delegation")
        c = sl_call(body[0].value, aliases)
        if c is None:
            raise Unsupported(f"extensions.{fname}: not a call on the scheduling loop")
        return fn, c, aliases

    fn, (m, a, kw), _ = one("ready_len")
    if m != "queue_len" or a or kw:
        raise Unsupported("ready_len")
    out.append("def readyLen {Q : Type} (O : Sched.QOps Q) (q : Q) : Nat := O.len q")
    fn, (m, a, kw), _ = one("ready_remove")
    if m != "queue_remove" or len(a) != 1 or dotted(a[0]) != fn.args.args[0].arg:
        raise Unsupported("ready_remove")
    out.append("def readyRemove {Q : Type} (O : Sched.QOps Q) (q : Q) (h : Nat) : Option Q := O.remove q h")
    fn, (m, a, kw), al = one("ready_find")
    tn = fn.args.args[0].arg
    k = kw.get("key")
    ok = m == "queue_find" and not a and isinstance(k, ast.Lambda) and dotted(kw.get("remove")) == "remove"
    if ok:
        hn = k.args.args[0].arg
        c = k.body
        ok = isinstance(c, ast.Compare) and isinstance(c.ops[0], ast.Is) and dotted(c.left) == tn \
            and is_call(c.comparators[0], attr="task_from_handle") and dotted(c.comparators[0].args[0]) == hn
    if not ok:
        raise Unsupported("ready_find is no longer queue_find(key=lambda h: task is sl.task_from_handle(h), remove=remove)")
    out.append("def readyFind {Q : Type} (O : Sched.QOps Q) (q : Q) (isTask : Nat → Bool) (rm : Bool) : Option Nat × Q := "
               "O.find q isTask rm")
    fn, (m, a, kw), _ = one("ready_insert")
    if m != "queue_insert" or len(a) != 1 or dotted(a[0]) != fn.args.args[0].arg:
        raise Unsupported("ready_insert")
    out.append("def readyInsert {Q : Type} (O : Sched.QOps Q) (gp : Nat → Rat) (q : Q) (h : Nat) : Q := O.append q (gp h) h")
    return out


# ---------------------------------------------------------------------------------------------


def generate(src: Path) -> dict:
    sched = ast.parse((src / "asynkit/scheduling.py").read_text())
    dflt = ast.parse((src / "asynkit/loop/default.py").read_text())
    evl = ast.parse((src / "asynkit/loop/eventloop.py").read_text())
    ext = ast.parse((src / "asynkit/loop/extensions.py").read_text())
    prio = ast.parse((src / "asynkit/experimental/priority.py").read_text())

    def cls(tree, name):
        for n in ast.walk(tree):
            if isinstance(n, ast.ClassDef) and n.name == name:
                return n
        raise Unsupported(f"class {name} not found")

    sched_defs, _ = gen_scheduling(sched)
    parts = [
        "-- GENERATED by translator/sched2lean.py from src/asynkit/{scheduling.py, loop/default.py, loop/eventloop.py,",
        "-- loop/extensions.py, experimental/priority.py} — do not edit",
        "import Asynkit.Gen.Sched",
        "import Asynkit.Model.Sched",
        "namespace Asynkit.Gen",
        "open Asynkit",
        "",
        gen_queue_remove(dflt),
        "/-! ### scheduling.py over an abstract scheduling loop `O` -/",
        "",
        "\n".join(sched_defs),
        "/-! ### loop/extensions.py -/",
        "\n".join(gen_extensions(ext)),
        "",
        "/-! ### SchedulingLoopHelper (loop/default.py) and SchedulingMixin (loop/eventloop.py): a deque -/",
        "\n".join(gen_deque_class(cls(dflt, "SchedulingLoopHelper"), "Helper")),
        "\n".join(gen_deque_class(cls(evl, "SchedulingMixin"), "Mixin")),
        "",
        "/-! ### PrioritySchedulingMixin (experimental/priority.py): a PosPriorityQueue -/",
        "\n".join(gen_prio_mixin(cls(prio, "PrioritySchedulingMixin"))),
        "",
        "/-! ### which callbacks denote a task (loop/default.py) -/",
        gen_task_from_handle(dflt),
        "end Asynkit.Gen",
        "",
    ]
    return {"SchedOps.lean": "\n".join(parts)}


if __name__ == "__main__":
    import sys
    print(generate(Path(sys.argv[1]))["SchedOps.lean"])
