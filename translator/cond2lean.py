"""cond2lean — PriorityCondition._notify / notify / wait with priority._released, and InterruptCondition.wait,
regenerated from /repo/src into lean/Asynkit/Gen/Cond.lean on every run (unit of py2lean; DESIGN §3.3).

Synchronous methods are translated whole; the two `wait()` coroutines segment by segment (segexec.py): from
entry to `await fut`, and from each suspension point — for a normal resumption and for a thrown exception — to
the next suspension point or to the exit; `async with _released(lock)` is inlined through the
asynccontextmanager protocol.  `Lemmas/GenEqC14.lean` proves every generated definition equal to the
corresponding transition(s) of `Model/Cond.lean`.

The meaning of the calls on asyncio objects is the kernel interface `Model/CondPrims.lean` (trusted, stated
once); this module only maps Python call shapes to those primitives.  Anything else raises `Unsupported`.
Not in /repo/src, hence not translated: `notify_all`, `wait_for` (inherited from asyncio.Condition) — the unit
fails if either class starts to override them.
"""
import ast
from pathlib import Path

from segexec import (Const, Dyn, Ent, Executor, Unsupported, class_defines, find_func, paren)

EXN = "Exn"
CLASSES = {   # python class -> (constructors it matches, Lean predicate for an unknown value)
    "asyncio.CancelledError": ({"dlv"}, "Exn.isCancelled"),
    "CancelledError": ({"dlv"}, "Exn.isCancelled"),
    "exceptions.CancelledError": ({"dlv"}, "Exn.isCancelled"),
    "BaseException": ({"dlv", "runtime", "attr"}, None),
    "Exception": ({"runtime", "attr"}, "Exn.isException"),
    "RuntimeError": ({"runtime"}, "Exn.isRuntime"),
    "AttributeError": ({"attr"}, "Exn.isAttr"),
}


class CondDomain:
    exn_ty = EXN
    self_kind = "cond"

    def __init__(self, klass, fns=()):
        self.klass = klass       # "pc" | "ic"
        # locals that hold "None or a caught exception" (assigned None somewhere and the name bound by an
        # `except … as e` somewhere else): typed `Option Exn` from their first assignment on
        self.optvars = set()
        for fn in fns:
            caught = {h.name for n in ast.walk(fn) if isinstance(n, ast.Try) for h in n.handlers if h.name}
            none_assigned, exn_assigned = set(), set()
            for n in ast.walk(fn):
                if isinstance(n, ast.Assign) and len(n.targets) == 1 and isinstance(n.targets[0], ast.Name):
                    if isinstance(n.value, ast.Constant) and n.value.value is None:
                        none_assigned.add(n.targets[0].id)
                    if isinstance(n.value, ast.Name) and n.value.id in caught:
                        exn_assigned.add(n.targets[0].id)
            self.optvars |= none_assigned & exn_assigned

    # -- names / attributes
    def global_name(self, name):
        if name == "asyncio":
            return Ent("module", "asyncio")
        return None

    def attr(self, base, attr):
        if isinstance(base, Ent) and base.kind == "cond":
            if attr == "_lock":
                return Ent("lock")
            if attr == "_waiters":
                return Ent("waiters")
            if attr in ("locked", "release", "acquire", "_get_loop", "_notify", "notify"):
                return Ent("boundmethod", attr)
        raise Unsupported(f"attribute .{attr} of {base}")

    def lean_of(self, v):
        if isinstance(v, Dyn):
            return v.lean
        if isinstance(v, Const) and isinstance(v.v, bool):
            return "true" if v.v else "false"
        if isinstance(v, Const) and isinstance(v.v, int):
            return str(v.v)
        if isinstance(v, Const) and v.v is None:
            return "none"
        raise Unsupported(f"no Lean value for {v}")

    def const_ty(self, v):
        if isinstance(v, Const) and isinstance(v.v, int) and not isinstance(v.v, bool):
            return "Nat"
        if isinstance(v, Const) and isinstance(v.v, bool):
            return "Bool"
        raise Unsupported(f"type of {v}")

    def int_of(self, v):
        if isinstance(v, Const) and isinstance(v.v, int) and not isinstance(v.v, bool):
            return str(v.v)
        if isinstance(v, Dyn) and v.ty == "Int":
            return paren(v.lean)
        raise Unsupported(f"priority value {v}")

    def nat_of(self, v):
        if isinstance(v, Const) and isinstance(v.v, int) and not isinstance(v.v, bool) and v.v >= 0:
            return str(v.v)
        if isinstance(v, Dyn) and v.ty == "Nat":
            return paren(v.lean)
        raise Unsupported(f"count value {v}")

    # -- calls
    def method(self, ex, base, name, args, kw, st):
        if kw:
            raise Unsupported(f"keyword arguments in .{name}()")
        k = base.kind if isinstance(base, Ent) else None
        if k == "module" and name == "current_task" and not args:
            return ("pure", Ent("task"))
        if k == "task" and name == "effective_priority" and not args:
            return ("mayraise", "prio", "Int", Dyn("Exn.attr", EXN, "attr"))
        if k == "cond" and name == "locked" and not args:
            return ("pure", Dyn(f"Prim.locked {st}", "Bool"))
        if (k == "cond" and name == "release" or k == "lock" and name == "release") and not args:
            return ("eff", f"Prim.lockRelease {st}", Const(None))
        if k == "cond" and name == "_get_loop" and not args:
            return ("pure", Ent("loop"))
        if k == "loop" and name == "create_future" and not args:
            return ("eff", f"Prim.createFuture {st} j", Ent("fut", "mine"))
        if k == "waiters" and name == "add" and len(args) == 2 and self.is_mine(args[1]):
            return ("eff", f"Prim.waitersAdd {st} j {self.int_of(args[0])}", Const(None))
        if k == "waiters" and name == "append" and len(args) == 1 and self.is_mine(args[0]):
            return ("eff", f"Prim.waitersAppend {st} j", Const(None))
        if k == "waiters" and name == "remove" and len(args) == 1 and self.is_mine(args[0]):
            return ("eff", f"Prim.waitersRemove {st} j", Const(None))
        if k == "waiters" and name == "ordereditems" and not args:
            return ("pure", Ent("ordereditems"))
        if k == "ordereditems" and name == "close" and not args:
            return ("pure", Const(None))
        if k == "fut" and name == "done" and not args and base.data != "mine":
            return ("pure", Dyn(f"Prim.futDone {st} {base.data}", "Bool"))
        if k == "fut" and name == "set_result" and len(args) == 1 and base.data != "mine":
            return ("eff", f"Prim.futSetResult {st} {base.data}", Const(None))
        if k == "cond" and name == "_notify" and len(args) == 1:
            return self.call_sync(ex, "notifyImpl", [self.nat_of(args[0])], st)
        raise Unsupported(f"call .{name}() on {base} with {len(args)} argument(s)")

    @staticmethod
    def is_mine(v):
        return isinstance(v, Ent) and v.kind == "fut" and v.data == "mine"

    def call_sync(self, ex, lean_fn, lean_args, st):
        """call of another translated synchronous method: it returns `State × Fin`"""
        s2, x = ex.new(), ex.new("x")
        scrut = f"{lean_fn} {st} " + " ".join(lean_args)

        def ok(ind):
            return s2, ("normal", Const(None)), ""

        def bad(ind):
            return s2, ("raise", Dyn(x, EXN)), ""
        return ("choice", scrut, [(f"({s2}, .ret)", ok), (f"({s2}, .raised {x})", bad)])

    def function(self, ex, name, args, kw, st):
        raise Unsupported(f"call of {name}()")

    def call_closure(self, ex, ent, args, kw, st):
        raise Unsupported("nested function call")

    def identical(self, a, b):
        if isinstance(a, Dyn) and isinstance(b, Dyn) and a.ty == b.ty:
            return Dyn(f"decide ({a.lean} = {b.lean})", "Bool")
        return None

    def make_exn(self, cls):
        if cls == "RuntimeError":
            return Dyn("Exn.runtime", EXN, "runtime")
        return None

    def exn_match(self, exn, cls):
        if cls not in CLASSES:
            raise Unsupported(f"except {cls}")
        ctors, pred = CLASSES[cls]
        if pred is None:
            return True
        if isinstance(exn, Dyn) and exn.ctor is not None:
            return exn.ctor in ctors
        if isinstance(exn, Dyn):
            return f"{pred} {paren(exn.lean)}"
        raise Unsupported(f"exception value {exn}")

    # -- assignment
    def assign(self, ex, scopes, cur, name, val):
        if name in self.optvars:
            if isinstance(val, Const) and val.v is None:
                val = Dyn("none", "Option Exn")
            elif isinstance(val, Dyn) and val.ty == EXN:
                val = Dyn(f"some {paren(val.lean)}", "Option Exn")
            else:
                raise Unsupported(f"assignment of {val} to the optional-exception local {name}")
        return ex.bind(scopes, cur, name, val)

    def assign_eff(self, ex, scopes, cur, targets, val, st, ind):
        return ex.assign_all(targets, val, scopes, cur), "", st

    # -- loops
    def iterate(self, ex, seq, st):
        if isinstance(seq, Ent) and seq.kind == "ordereditems":
            return f"Prim.orderedItems {st}", None
        return None

    def bind_loop_target(self, ex, scopes, cur, target, x):
        # `for _, fut in ordereditems` (priority, object) pairs; `for fut in …`
        if isinstance(target, ast.Tuple) and len(target.elts) == 2 and all(isinstance(t, ast.Name) for t in target.elts):
            scopes = ex.bind(scopes, cur, target.elts[0].id, Ent("priority-of", x))
            return ex.bind(scopes, cur, target.elts[1].id, Ent("fut", x))
        raise Unsupported(f"loop target {ast.dump(target)[:60]}")

    # -- suspension
    def await_kind(self, ex, e, scopes, cur, st, ind):
        if isinstance(e, ast.Name):
            v = ex.lookup(scopes, cur, e.id)
            if self.is_mine(v):
                return "fut", st, "", None
        if isinstance(e, ast.Call) and isinstance(e.func, ast.Attribute) and e.func.attr == "acquire" and not e.args:
            base = ex.ev_call_pure(e.func.value, scopes, cur, st)
            if isinstance(base, Ent) and base.kind in ("lock", "cond"):
                return "acq", st, "", None
        raise Unsupported(f"await {ast.unparse(e)}")

    def resumes(self, ex, p):
        def ok(ind, st):
            if p.kind == "acq":
                s2 = ex.new()
                return s2, ("normal", Const(True)), f"{ind}let {s2} := Prim.lockAcquired {st} j\n"
            return st, ("normal", Const(None)), ""

        def exc(ind, st):
            return st, ("raise", Dyn("Exn.dlv e", EXN, "dlv")), ""
        return [(".ok", ok), (".exc e", exc)]

    def finish(self, ex, o):
        if o[0] in ("normal", "return"):
            return ".fin .ret"
        if o[0] == "raise":
            return f".fin (.raised {paren(self.lean_of(o[1]))})"
        raise Unsupported(f"{o[0]} at function level")


class SyncDomain(CondDomain):
    def finish(self, ex, o):
        if o[0] in ("normal", "return"):
            return ".ret"
        if o[0] == "raise":
            return f".raised {paren(self.lean_of(o[1]))}"
        raise Unsupported(f"{o[0]} at function level")


HEADER = """-- GENERATED by translator/cond2lean.py from src/asynkit/experimental/priority.py and
-- src/asynkit/experimental/interrupt.py — do not edit
import Asynkit.Model.CondPrims
set_option linter.unusedVariables false
namespace Asynkit.Gen.Cond
open Asynkit.Cond

"""


PRIMITIVE_METHODS = {"_notify", "notify", "wait", "locked", "release", "acquire", "_get_loop"}


def class_helpers(tree, cls):
    """private synchronous methods of the class that are not primitives of the kernel interface: inlined when
    the translated code calls them as `self.name(...)`"""
    for node in ast.walk(tree):
        if isinstance(node, ast.ClassDef) and node.name == cls:
            return {n.name: n for n in node.body if isinstance(n, ast.FunctionDef) and not n.decorator_list
                    and n.name not in PRIMITIVE_METHODS and not n.name.startswith("__")}
    return {}


def module_helpers(tree):
    """module-level synchronous functions without decorators: candidates for inlining when the translated code
    calls them by name"""
    return {n.name: n for n in tree.body if isinstance(n, ast.FunctionDef) and not n.decorator_list}


def sync_def(name, doc, fn, params, lean_params, helpers, methods):
    ex = Executor(SyncDomain("pc"), fn, params, ident=name, helpers=helpers)
    ex.methods = methods
    body = ex.entry()
    if ex.order:
        raise Unsupported(f"{name}: suspension inside a synchronous function")
    return f"/-- {doc} -/\ndef {name} (s : State) {lean_params}: State × Fin :=\n{body}\n"


def coroutine_defs(prefix, doc, klass, fn, gens, entry_params, helpers, methods):
    dom = CondDomain(klass, [fn] + list(gens.values()))
    ex = Executor(dom, fn, {"self": Ent("cond")}, gens=gens, ident=prefix, helpers=helpers)
    ex.methods = methods
    ent, segs = ex.all_segments()
    out = ""
    for p in ex.order:
        out += f"/-- dynamic values held at suspension point `{p.name}` of {doc} (line {p.node.lineno}):\n"
        for i, d in enumerate(p.field_docs):
            out += f"    d{i}: {d}\n"
        out += "-/\n"
        out += f"structure {prefix}_L_{p.name} where\n"
        for i, ty in enumerate(p.field_tys):
            out += f"  d{i} : {ty}\n"
        out += "deriving DecidableEq, Repr\n\n"
    out += f"inductive {prefix}Out\n"
    for p in ex.order:
        out += f"  | susp_{p.name} (l : {prefix}_L_{p.name})\n"
    out += "  | fin (f : Fin)\nderiving DecidableEq, Repr\n\n"
    out += f"/-- {doc}: from the call to the first suspension -/\n"
    out += f"def {prefix}_entry (s : State) (j : Nat) {entry_params}: State × {prefix}Out :=\n{ent}\n"
    for p, alts in segs:
        what = "await fut" if p.kind == "fut" else "await lock.acquire()"
        out += f"/-- {doc}: resumed at `{what}` (point `{p.name}`, line {p.node.lineno}) -/\n"
        out += (f"def {prefix}_{p.name} (s : State) (j : Nat) (l : {prefix}_L_{p.name}) (r : Resume) : "
                f"State × {prefix}Out :=\n  match r with\n")
        for pat, txt in alts:
            out += f"  | {pat} =>\n{txt}"
        out += "\n"
    return out


def generate(src: Path):
    pri = ast.parse((Path(src) / "asynkit/experimental/priority.py").read_text())
    itr = ast.parse((Path(src) / "asynkit/experimental/interrupt.py").read_text())
    for tree, cls in ((pri, "PriorityCondition"), (itr, "InterruptCondition")):
        for m in ("notify_all", "wait_for"):
            if class_defines(tree, cls, m):
                raise Unsupported(f"{cls}.{m} is overridden: the model assumes asyncio.Condition's")
    if class_defines(itr, "InterruptCondition", "notify") or class_defines(itr, "InterruptCondition", "_notify"):
        raise Unsupported("InterruptCondition overrides notify: the model assumes asyncio.Condition.notify")
    text = HEADER
    text += sync_def("notifyImpl", "`PriorityCondition._notify(n)`",
                     find_func(pri, "PriorityCondition", "_notify"),
                     {"self": Ent("cond"), "n": Dyn("n", "Nat")}, "(n : Nat) ", module_helpers(pri), class_helpers(pri, "PriorityCondition"))
    text += sync_def("notify", "`PriorityCondition.notify(n)`",
                     find_func(pri, "PriorityCondition", "notify"),
                     {"self": Ent("cond"), "n": Dyn("n", "Nat")}, "(n : Nat) ", module_helpers(pri), class_helpers(pri, "PriorityCondition"))
    released = find_func(pri, None, "_released")
    text += coroutine_defs("pw", "`PriorityCondition.wait()` (with `_released` inlined)", "pc",
                           find_func(pri, "PriorityCondition", "wait"), {"_released": released},
                           "(prio : Option Int) ", module_helpers(pri), class_helpers(pri, "PriorityCondition"))
    text += coroutine_defs("iw", "`InterruptCondition.wait()`", "ic",
                           find_func(itr, "InterruptCondition", "wait"), {}, "", module_helpers(itr), class_helpers(itr, "InterruptCondition"))
    text += "end Asynkit.Gen.Cond\n"
    return {"Cond.lean": text}


if __name__ == "__main__":
    import sys
    print(generate(Path(sys.argv[1]))["Cond.lean"])
